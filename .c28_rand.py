import sys, time, collections
sys.path.insert(0, '/verif')
from vlib import c28_model as M
from checks import c28
from hypothesis import given, settings, HealthCheck, Phase, seed
found = []; C = collections.Counter(); N=[0]
@seed(int(sys.argv[1]))
@settings(max_examples=1200, database=None, deadline=None, suppress_health_check=list(HealthCheck), phases=(Phase.generate,))
@given(M.strategies())
def t(case):
    r = M.resolve(case); N[0]+=1
    for k in r['classes']:
        if 'hand' in k or 'peer' in k: C[k]+=1
    v, msg = c28.execute(case, r)
    if v == 'violation': found.append(msg)
t0 = time.time(); t(); print('violations', len(found), 'of', N[0], 'in', round(time.time()-t0,1), 's')
for k,v in sorted(C.items()): print('  ', k, v, round(v/N[0],3))
if found: print(min(found, key=len))
