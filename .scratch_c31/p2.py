import pickle, json
from datetime import date, datetime
from decimal import Decimal
from pony.orm import *
from pony.orm import serialization as S
db = Database()
class A(db.Entity):
    a = Required(int); s = Required(str); PrimaryKey(a, s)
    p = Optional('P')
    f = Optional(float); d = Optional(date); dt = Optional(datetime); dc = Optional(Decimal, 10, 2); b = Optional(bool)
    lz = Optional(str, lazy=True)
    lz2 = Optional(int, lazy=True)
class P(db.Entity):
    a = PrimaryKey(A)
    q = Optional('Q')
class Q(db.Entity):
    id = PrimaryKey(int)
    ps = Set(P)
with db.set_perms_for(A, P, Q):
    perm('view', group='anybody')
db.bind('sqlite', ':memory:')
db.generate_mapping(create_tables=True)
with db_session:
    a1 = A(a=1, s='x', f=0.1, d=date(2020,1,2), dt=datetime(2020,1,2,3,4,5,678901), dc=Decimal('1.50'), b=True, lz='L', lz2=7)
    a2 = A(a=1, s='y')
    q = Q(id=1)
    P(a=a1, q=q); P(a=a2, q=q)
with db_session:
    q = Q[1]
    print(q.to_dict(with_collections=True))
    print(S.to_dict(q))
    a1 = A[1,'x']
    print(a1._vals_.keys())
    print(a1.to_dict())
    print(a1.lz, a1._vals_.keys())
    print(S.to_json([a1]))
    print(a1.to_json(with_schema=False))
    print(db.to_json([a1, {'k': q}], include=[Q.ps, P.a], with_schema=False))
    print(P._pk_is_composite_, P._pk_columns_, P[a1].get_pk(), P[a1]._pkval_)
