import pickle
from pony.orm import *
db = Database()
class Person(db.Entity):
    id = PrimaryKey(int)
    passport = Optional('Passport')
    boss = Optional('Person', reverse='staff')
    staff = Set('Person', reverse='boss')
class Passport(db.Entity):
    id = PrimaryKey(int)
    person = Required(Person)
db.bind('sqlite', ':memory:')
db.generate_mapping(create_tables=True)
with db_session:
    p = Person(id=1); Passport(id=1, person=p)
    p2 = Person(id=2, boss=p); 
with db_session:
    p = Person[1]
    print(p._vals_)
    d = pickle.dumps(p)
    print('ok1')
    pp = Passport[1]
    print(p._vals_, pp._vals_)
    try: d = pickle.dumps(p); print('ok2')
    except RecursionError as e: print('RecursionError')
    try: d = pickle.dumps(pp); print('ok3')
    except RecursionError as e: print('RecursionError')
    try: d = pickle.dumps(select(x for x in Passport)[:]); print('ok4')
    except RecursionError as e: print('RecursionError')
with db_session:
    pp = Passport[1]
    print(pp._vals_, pp.person._vals_)
    try: d = pickle.dumps(pp); print('ok5')
    except RecursionError as e: print('RecursionError')
    pp.person.passport
    try: d = pickle.dumps(pp); print('ok6')
    except RecursionError as e: print('RecursionError')
with db_session:
    pp = Passport[1]
    pp.person.boss
    print(pp._vals_, pp.person._vals_)
    try: d = pickle.dumps(pp); print('ok7')
    except RecursionError as e: print('RecursionError')
