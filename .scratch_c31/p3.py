import pickle, json
from pony.orm import *
db = Database()
class A(db.Entity):
    a = Required(int); s = Required(str); PrimaryKey(a, s)
    name = Optional(str)
    lz = Optional(str, lazy=True)
    lz2 = Optional(int, lazy=True)
    bs = Set('B')
class B(db.Entity):
    id = PrimaryKey(int)
    a = Optional(A)
    v = Optional(int)
db.bind('sqlite', ':memory:')
db.generate_mapping(create_tables=True)
with db_session:
    a1 = A(a=1, s='x', name='n', lz='L', lz2=7)
    B(id=1, a=a1, v=1)
with db_session:
    b = B[1]
    print(b.a._vals_.keys())
    p = pickle.dumps(b)
    a = A[1,'x']; a.lz
    print(a._vals_.keys())
with db_session:
    B[1].v = 2; A[1,'x'].name = 'm'
with db_session:
    x = pickle.loads(p)
    print(x is B[1], x.v, x.a is A[1,'x'], x.a._vals_.keys(), x.a in db._get_cache().seeds[A._pk_attrs_])
    print(x.a.name, x.a.lz2, x.a._vals_.keys())
    pass
# status after flush
with db_session:
    b = B[1]; b.v = 10
    try: pickle.dumps(b)
    except Exception as e: print(type(e).__name__, e)
    flush()
    print(b._status_)
    p = pickle.dumps(b)
    n = B(id=5, v=3); flush(); print(n._status_); p2 = pickle.dumps(n)
    n.delete()
    try: pickle.dumps(n)
    except Exception as e: print(type(e).__name__, e)
    rollback()
with db_session:
    x = pickle.loads(p); print(x.v, B[1].v)
