import pickle, json
from pony.orm import *
from pony.orm import serialization as S
db = Database()
class A(db.Entity):
    a = Required(int); s = Required(str); PrimaryKey(a, s)
    name = Optional(str)
    bs = Set('B')
    ms = Set('M')
    blob = Optional(str, lazy=True)
class B(db.Entity):
    id = PrimaryKey(int)
    a = Optional(A)
    v = Optional(int)
class M(db.Entity):
    id = PrimaryKey(int)
    as_ = Set(A)
db.bind('sqlite', ':memory:')
db.generate_mapping(create_tables=True)
with db_session:
    a1 = A(a=1, s='x,y', name='n1', blob='L')
    a2 = A(a=1, s='x*,y', name='n2')
    b1 = B(id=1, a=a1, v=5); b2 = B(id=2, a=a1)
    m1 = M(id=1, as_=[a1, a2])
with db_session:
    a1 = A[1, 'x,y']
    b1 = B[1]
    print(a1.to_dict(with_collections=True, with_lazy=True))
    print(a1.to_dict(with_collections=True, related_objects=True))
    print(b1.to_dict())
    for order in ([a1, b1], [b1, a1], [a1], [b1], [M[1]]):
        print(json.dumps(S.to_dict(order), sort_keys=True))
    print(S.to_json([a1, b1]))
    try:
        print(a1.to_json())
    except Exception as e: print('to_json', type(e), e)
    p_a = pickle.dumps(a1); p_bs = pickle.dumps(a1.bs); p_ms = pickle.dumps(a1.ms); p_q = pickle.dumps(select(b for b in B)[:])
    p_q2 = pickle.dumps(select(b for b in B))
    p_b = pickle.dumps(b1)
with db_session:
    x = pickle.loads(p_ms)
    print('ms', x, list(x), x._obj_ is A[1,'x,y'])
with db_session:
    x = pickle.loads(p_bs)
    print('bs', x, list(x))
with db_session:
    x = pickle.loads(p_q); print(type(x), x, x[0] is B[1], x[0].a is A[1,'x,y'], x[0].v)
with db_session:
    x = pickle.loads(p_q2); print(type(x), x)
with db_session:
    x = pickle.loads(p_a); print(x, x is A[1,'x,y'], x.name, x._vals_)
with db_session:
    x = pickle.loads(p_b); print(x, x is B[1], x.v, x.a, x.a.name)
