import json, sys
sys.path.insert(0, '/verif')
from checks import c31
exec(open('/verif/.scratch_c31/mk_known.py').read().split("cases = {}")[0].split("from checks import c31")[1])
case = {
  "spec": {"ents": [{"attrs": [], "pk": "int_str", "pkref": None}, {"attrs": [], "pk": "ref_int", "pkref": 0}], "rels": []},
  "objs": [[{"pk": [0, "*,"], "vals": {}, "refs": {}}, {"pk": [0, "1"], "vals": {}, "refs": {}}],
           [{"pk": [1, 0], "vals": {}, "refs": {}}]],
  "m2m": {}, "mods": [], "between": [],
  "plan": plan(bag_given=[[0, 0], [1, 0]])}
print(c31.replay(case))
from pony.orm import *
from pony.orm import serialization
from vlib import c31_model as cm
env = cm.Env(case['spec']); M = cm.mirror_from_case(case)
with db_session: env.populate(M)
with db_session:
    a = env.obj(M, (0,0)); b = env.obj(M, (1,0))
    print(serialization.to_dict([a, b]))
    bag = serialization.Bag(env.db); bag.put([a,b])
    print(dict(bag.objects))
