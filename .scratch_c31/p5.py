import pickle
from pony.orm import *
db = Database()
class A(db.Entity):
    a = Required(int); s = Required(str); PrimaryKey(a, s)
    v = Optional(int)
    r = Optional('A', reverse='c')
    c = Set('A', reverse='r')
    ps = Set('P')
class P(db.Entity):
    p = Required(A); t = Required(str); PrimaryKey(p, t)
db.bind('sqlite', ':memory:')
db.generate_mapping(create_tables=True)
with db_session:
    a = A(a=0, s='1', v=0); P(p=a, t='x')
with db_session:
    a = A[0,'1']; a.v; a.r
    d = pickle.dumps(a)
with db_session:
    a = A[0,'1']; a.c.add(a)
sql_debug(True)
with db_session:
    p = P.select().first()
    print('preloaded', p._vals_)
    u = pickle.loads(d)
    print(u._vals_, u._dbvals_)
    print(u is A[0,'1'])
    print(u._vals_)
