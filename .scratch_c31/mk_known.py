import json, sys, os
sys.path.insert(0, '/verif')
from checks import c31

def plan(**kw):
    p = {"bag_cfg": {}, "bag_given": [], "bag_order": 0, "exclude": {}, "only": {}, "first": "bag", "jobs": [],
         "json_include": "none", "pickle_where": "fresh", "preload": [], "sep": ", ", "sub": False, "touch_all": True,
         "touch_lazy": []}
    p.update(kw); return p

E_int = lambda: {"attrs": [], "pk": "int", "pkref": None}
cases = {}
# 1. m2m collection unpickles empty
cases['unpickled-m2m-collection-empty'] = ({
  "spec": {"ents": [E_int(), E_int()], "rels": [{"kind": "m2m", "a": 0, "b": 1, "req": False}]},
  "objs": [[{"pk": [1], "vals": {}, "refs": {}}], [{"pk": [7], "vals": {}, "refs": {}}]],
  "m2m": {"0": [[0, 0]]}, "mods": [], "between": [],
  "plan": plan(jobs=[["coll", [0, 0], "c0"]])}, 'pickle_coll_m2m')
# 2. given object emitted in abbreviated form
cases['bag-given-object-emitted-as-related'] = ({
  "spec": {"ents": [E_int(), E_int()], "rels": [{"kind": "o2m", "a": 0, "b": 1, "req": False}]},
  "objs": [[{"pk": [1], "vals": {}, "refs": {"r0": [1, 0]}}], [{"pk": [7], "vals": {}, "refs": {}}]],
  "m2m": {}, "mods": [], "between": [],
  "plan": plan(bag_given=[[0, 0], [1, 0]])}, 'bag_given_partial')
# 3. collection of items whose single pk attribute references a composite-key entity
cases['bag-collection-of-reference-pk-items'] = ({
  "spec": {"ents": [{"attrs": [], "pk": "int_str", "pkref": None}, {"attrs": [], "pk": "ref", "pkref": 0}, E_int()],
           "rels": [{"kind": "o2m", "a": 1, "b": 2, "req": False}]},
  "objs": [[{"pk": [1, "x"], "vals": {}, "refs": {}}, {"pk": [1, "y"], "vals": {}, "refs": {}}],
           [{"pk": [0], "vals": {}, "refs": {"r0": [2, 0]}}, {"pk": [1], "vals": {}, "refs": {"r0": [2, 0]}}],
           [{"pk": [5], "vals": {}, "refs": {}}]],
  "m2m": {}, "mods": [], "between": [],
  "plan": plan(bag_given=[[2, 0]])}, 'bag_coll_refpk')
# 4. one-to-one: pickling either side raises RecursionError
cases['pickle-reference-cycle'] = ({
  "spec": {"ents": [E_int(), E_int()], "rels": [{"kind": "o2o", "a": 0, "b": 1, "req": False}]},
  "objs": [[{"pk": [1], "vals": {}, "refs": {"r0": [1, 0]}}], [{"pk": [7], "vals": {}, "refs": {}}]],
  "m2m": {}, "mods": [], "between": [],
  "plan": plan(jobs=[["obj", [0, 0]]])}, 'pickle_reference_cycle')
for slug, (case, tag) in cases.items():
    case['tag'] = tag
    found = []
    msg = c31.replay(case)
    print(slug, '->', msg)
    if len(sys.argv) > 1:
        with open('/verif/replays/known/C31-%s.json' % slug, 'w') as f:
            json.dump({'property': 'C31', 'case': case, 'message': msg}, f, indent=1, sort_keys=True)
