import json, sys
sys.path.insert(0, '/verif')
from checks import c31
from pony.orm import sql_debug
import pony.orm.core as core
case = json.load(open(sys.argv[1]))['case']
orig = c31.check_unpickle
def dbg(*a, **k):
    sql_debug(True)
    try: return orig(*a, **k)
    finally: sql_debug(False)
c31.check_unpickle = dbg
print(c31.replay(case))
