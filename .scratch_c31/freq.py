import sys
sys.path.insert(0, '/verif')
from hypothesis import given, settings, strategies as st, HealthCheck, seed
from vlib import c31_model as cm
from checks import c31
cnt = {'n': 0, 'refent': 0, 'refcomp': 0, 'two': 0, 'coll': 0, 'between': 0, 'between_root': 0}
@st.composite
def cases(draw): return cm.draw_case(draw, st, c31.SIZES['quick'])
@seed(3)
@settings(max_examples=500, database=None, deadline=None, suppress_health_check=list(HealthCheck))
@given(cases())
def t(case):
    cnt['n'] += 1
    M = cm.mirror_from_case(case)
    spec = case['spec']
    for i, e in enumerate(spec['ents']):
        if e['pk'] == 'ref':
            cnt['refent'] += 1
            objs = M.alive(i)
            raws = [M.rawpk(x) for x in objs]
            if raws and len(raws[0]) > 1: cnt['refcomp'] += 1
            if len(raws) >= 2 and len(raws[0]) > 1: cnt['two'] += 1
            if len(set(r[0] for r in raws)) < len(raws) and len(raws[0]) > 1: cnt['coll'] += 1
    if case['between']: cnt['between'] += 1
t()
print(cnt)
