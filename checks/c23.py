"""C23 -- the loading strategy never changes the data a program observes.

The same generated program (data-building sessions, then a read-only session with a drawn access order) is executed on
identical data under several loading strategies; every read is compared with the reference store and the observation
traces of all strategies must be identical.
"""
from vlib import sessmachine, modelspec
from hypothesis import strategies as st

ID = 'C23'
LEVEL = 'exploration'
RULE = ('A case is one generated program (entity diagram + data-building sessions + optionally a session mixing reads with '
        'collection/reference edits + one read-only session of 4-14 reads: '
        'attributes, references, collection iteration/len/count/in/is_empty, Entity[pk], get/select by keyword and lambda, '
        'relationship filters, and scans that touch the same relationship of every object of an entity) executed under 7 '
        'loading strategies: default; every scalar lazy; nplus1_threshold 0; nplus1_threshold 1000; prefetch() of every '
        'relation; all objects pre-selected; nothing pre-selected (objects first met as unloaded references). '
        'Half of the programs come from the focus family: three owners and four items around one collection attribute, '
        'with membership tests, len/iteration/count and single-item add/remove on different owners in one session. The '
        'outcome of every call of the compared sessions and every observation must be the same under all strategies. '
        'Non-trivial = the read session touched >=2 objects of one entity through a relationship (scan or collection '
        'iteration) on a diagram with relationships; distinct by program hash.')
ASSUMPTIONS = ['live SQLite (in-memory)', 'reference store vlib/refstore.py', 'identical data are rebuilt per strategy by '
               'replaying the same data-building sessions (deterministic primary keys)']
SHARDS = {'quick': 8, 'thorough': 16}
MIN_EVALS = {'quick': 600, 'thorough': 5000}

VARIANTS = [
    ('default', {}),
    ('lazy', {'build': {'lazy_all': True}}),
    ('nplus1_0', {'build': {'nplus1': 0}}),
    ('nplus1_big', {'build': {'nplus1': 1000}}),
    ('prefetch', {'prefetch': True, 'preload': True, 'last_session_only': True}),
    ('preloaded', {'preload': True, 'last_session_only': True}),
    ('seeds_only', {'preload': False, 'last_session_only': True}),
]

READ_WEIGHTS = {'read': 1, 'create': 0, 'set': 0, 'setm': 0, 'cadd': 0, 'crem': 0, 'cclear': 0, 'del': 0, 'flush': 0,
                'commit': 0, 'rollback': 0, 'ident': 0}
BUILD_WEIGHTS = {'create': 8, 'set': 5, 'cadd': 6, 'crem': 1, 'del': 1, 'read': 0, 'ident': 0, 'rollback': 0, 'flush': 1,
                 'commit': 1, 'setm': 1, 'cclear': 0}


def program_strategy():
    build = sessmachine.programs(modelspec.specs(min_rels=1, max_rels=4, keys=False), max_sessions=2, max_ops=8, weights=BUILD_WEIGHTS)
    c = st.integers(0, 40)
    read = st.tuples(st.just('read'), st.sampled_from([0, 1, 1, 2, 3, 4, 5, 6, 9, 10, 14, 15, 16, 16, 16, 17, 17]), c, c, c).map(list)
    reads = st.lists(read, min_size=4, max_size=14)

    # an optional session that mixes reads with collection/reference edits (loads then happen while other changes are
    # pending), followed by the read-only session that observes the committed outcome
    edit = st.one_of(st.tuples(st.just('cadd'), c, c, st.integers(0, 31)).map(list),
                     st.tuples(st.just('crem'), c, c, st.integers(0, 31)).map(list),
                     st.tuples(st.just('set'), c, c, c).map(list))
    mixed = st.lists(st.one_of(read, read, edit), min_size=3, max_size=10)

    def combine(prog, mx, rd):
        for s in prog['sessions']:
            s['end'] = 'commit'
        if mx is not None:
            prog['sessions'].append({'preload': False, 'ops': mx, 'end': 'commit', 'mixed': True})
        prog['sessions'].append({'preload': False, 'ops': rd, 'end': 'rollback'})
        prog['snap'] = 0
        return prog
    return st.one_of(st.builds(combine, build, st.one_of(st.none(), mixed), reads), focus_programs())


def focus_programs():
    """Second family: three owners and four items around ONE collection attribute, and a session whose reads
    (membership tests, len, iteration, count, is_empty) and edits (add/remove single items) all hit that attribute of
    different owners - the histories in which a load of one owner's collection happens while another owner of the same
    batch has partial knowledge or pending changes."""
    c = st.integers(0, 40)
    owner = st.integers(0, 2)
    item = st.integers(0, 3)
    kind = st.sampled_from([('m2m', False, None), ('m2m', False, None), ('o2m', False, None), ('o2m', False, False)])
    IN, LEN, COUNT, COLL, EMPTY = 4, 2, 3, 1, 5

    def build(k, masks, extra_scalar):
        kind_, b_req, cascade = k
        ents = [{'name': 'E0', 'pk': 'auto', 'scalars': [], 'ckeys': []},
                {'name': 'E1', 'pk': 'auto', 'scalars': [{'name': 'a0', 'type': 'int', 'req': False, 'unique': False}] if extra_scalar else [],
                 'ckeys': []}]
        rels = [{'kind': kind_, 'a': 'E0', 'b': 'E1', 'a_attr': 'r0a', 'b_attr': 'r0b', 'b_req': b_req, 'cascade': cascade}]
        ops = [['create', 0, 1, [], [], []] for _ in range(3)]
        for j in range(4):
            m = masks[j]
            if kind_ == 'm2m':
                ops.append(['create', 1, 1, [], [], [m]])
            else:
                owners = [i for i in range(3) if m >> i & 1]
                ops.append(['create', 1, 1, [], [1 + 4 * owners[0]] if owners else [0], []])
        return {'entities': ents, 'rels': rels}, {'preload': False, 'ops': ops, 'end': 'commit'}
    op = st.one_of(
        st.tuples(st.just('read'), st.just(IN), owner, st.just(0), item).map(list),
        st.tuples(st.just('read'), st.just(IN), owner, st.just(0), item).map(list),
        st.tuples(st.just('read'), st.sampled_from([LEN, COUNT, COLL, EMPTY]), owner, st.just(0), st.just(0)).map(list),
        st.tuples(st.just('cadd'), owner, st.just(0), item.map(lambda j: 1 << j), st.just(0)).map(list),
        st.tuples(st.just('cadd'), owner, st.just(0), item.map(lambda j: 1 << j), st.just(0)).map(list),
        st.tuples(st.just('crem'), owner, st.just(0), item.map(lambda j: 1 << j), st.just(0)).map(list),
        st.tuples(st.just('set'), item, c, c, st.just(1)).map(list))
    final = st.lists(st.one_of(st.just(['read', 16, 0, 0, 0]), st.just(['read', 16, 0, 0, 1]), st.just(['read', 17, 1, 0, 0]),
                               st.tuples(st.just('read'), st.sampled_from([LEN, COUNT, COLL, IN]), owner, st.just(0), item).map(list)),
                     min_size=3, max_size=8)

    def combine(k, masks, extra, mx, fin, end):
        spec, s0 = build(k, masks, extra)
        return {'spec': spec, 'sessions': [s0, {'preload': False, 'ops': mx, 'end': end, 'mixed': True},
                                           {'preload': False, 'ops': fin, 'end': 'rollback'}], 'snap': 0, 'family': 'focus'}
    return st.builds(combine, kind, st.lists(st.integers(0, 7), min_size=4, max_size=4), st.booleans(),
                     st.lists(op, min_size=3, max_size=9), final, st.sampled_from(['commit', 'commit', 'rollback']))


def execute(program):
    """returns (message or None, stats)"""
    traces = {}
    builds = {}
    outcomes = {}
    stats_all = {}
    for name, variant in VARIANTS:
        stats = {}
        # no interpreter-made probe reads between the calls: they would load the collections and hide the states in
        # which strategies can differ (partial knowledge + pending changes)
        h = sessmachine.Harness(program, {'C10'}, stats, dict(variant, no_probes=True))
        try:
            h.run()
        except sessmachine.Fail as f:
            return '[strategy %s] %s' % (name, f.msg), stats
        except sessmachine.Abort:
            return None, dict(stats, aborted=1)
        traces[name] = h.obs
        # the handle -> primary key assignment belongs to the build: objects created in one flush get their automatic ids
        # in an order that depends on object addresses, so two builds may number them differently (not comparable then)
        # the sessions that are compared: the last one, and the mixed session before it if the program has one
        n_cmp = 2 if len(program['sessions']) >= 2 and program['sessions'][-2].get('mixed') else 1
        begins = [i for i, t in enumerate(h.trace) if t[0] == '-- session begins']
        cut = begins[-n_cmp] if len(begins) >= n_cmp else 0
        builds[name] = [t for t in h.trace[:cut]] + [sorted((hh, repr(o.get('pk'))) for hh, o in h.model.cur.objs.items())]
        outcomes[name] = [t for t in h.trace[cut:]]
        for k, v in stats.items():
            stats_all[k] = stats_all.get(k, 0) + v
    if any(b != builds['default'] for b in builds.values()):
        return None, dict(stats_all, aborted=1)     # the data-building calls did not behave identically: not comparable
    for name, oc in outcomes.items():
        if oc != outcomes['default']:
            diff = [(a, b) for a, b in zip(outcomes['default'], oc) if a != b][:2]
            return 'the calls of the compared sessions behave differently under strategy %s than under default: %s' % (name, diff), stats_all
    base = traces['default']
    for name, tr in traces.items():
        if tr != base:
            diff = [(a, b) for a, b in zip(base, tr) if a != b][:2]
            return 'observation trace under strategy %s differs from default: %s (lengths %d vs %d)' % (name, diff, len(base), len(tr)), stats_all
    return None, stats_all


def run(ctx):
    def t(program):
        msg, stats = execute(program)
        if stats.get('aborted'):
            ctx.inconclusive += 1
        scans = stats.get('read:scancoll', 0) + stats.get('read:scanref', 0) + stats.get('read:coll', 0)
        nt = bool(program['spec']['rels']) and scans > 0 and stats.get('created', 0) >= 2 * len(VARIANTS)
        ctx.case(key=program, nontrivial=nt, classes=['scan'] if scans else [],
                 sample={'rels': [(r['kind'], r['a'], r['b']) for r in program['spec']['rels']],
                         'reads': [op[1] for op in program['sessions'][-1]['ops']],
                         'strategies': [v[0] for v in VARIANTS]} if nt else None)
        if msg:
            ctx.fail(program, msg)
    ctx.run_test(t, dict(program=program_strategy()), max_examples=ctx.scale(150, 1500), name='C23')


def replay(case):
    msg, stats = execute(case)
    return msg


MANIFEST = {
    'text': 'Metamorphic + model-based: the same generated program is run on identical data under seven loading strategies '
            '(lazy attributes, batch thresholds forced on/off, prefetch, pre-selected vs reference-only objects); every read is '
            'compared with an independent reference store and the observation traces must be identical across strategies.',
    'note': 'SQLite only; bounded programs; MAX_FETCH_COUNT and per-query prefetch of nested paths are not varied.',
    'technique': 'metamorphic property testing across loading strategies + reference-store oracle (hypothesis)',
}
