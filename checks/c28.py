"""C28 In-place changes to Json and array values are persisted; reading never marks the object modified.

One case = (attribute kind, object origin, initial value, program).  The program is data (see vlib/c28_model.py): it is
run on a plain deep copy with ordinary dict/list semantics (the reference) and, step by step with the very same
interpreter function, on the tracked value of a Pony object in a db_session (SQLite, in memory).  After the session's
commit the value is read in a new db_session and must equal the reference; at every 'reload' step inside a program the
same comparison is made.  Read-only programs must additionally leave `obj._status_` un-modified and emit no UPDATE that
sets the attribute's column (statements are logged by a sqlite3.Connection/Cursor subclass passed through bind()).

A case may have a second *slot* (the same attribute of another object, the other Json attribute of the same object, or
both): programs then act on either slot and contain hand-over steps that put a container read from one slot into the
value of the other (item assignment, append/insert/extend/slice, update/setdefault/|=, whole-attribute assignment).  The
reference stores a copy on hand-over (an attribute value is a document of its own row), so afterwards every slot must be
written exactly with the changes made through it, and a step that acts on one object must not mark another object.
"""
import itertools
from vlib import runner
from vlib import c28_model as M

ID = 'C28'
LEVEL = 'exploration'
RULE = ('A case is (kind in json/json_lazy/IntArray/StrArray/FloatArray, origin in loaded/created+flushed/created, '
        'initial value: Json document of depth <=3 or flat array, program of 1-6 abstract ops whose selectors are '
        'resolved against the plain copy). Part 1 is a complete grid over a fixed depth-3 document: every mutating op x '
        'every container of the matching type x argument kind (list/tuple/generator/iterator, dict/pairs/kwargs) x '
        'item/local-name form of += *= |= x origin, every inserting op followed by none/flush/commit/reload and a '
        'mutation inside the inserted container, alias-then-mutate patterns, and every read op x container x origin. '
        'Part 2 is hypothesis-generated documents and programs (ops incl. flush/commit/reload/touch-other-attribute/'
        'alias/assign/read). Both parts also contain two-slot cases (peer = same attribute of another object / other Json '
        'attribute of the same object / both): grid F enumerates every hand-over form x source container x direction x '
        'none/flush/commit/touch+flush/reload x change through the receiver or through the source; random programs mix '
        'hand-overs with all other ops on either slot. Non-trivial: a mutation program in which at least one step changed the reference value and '
        'that step was nested (depth>=1 or via alias) or the program has an augmented operator, an inserted container, an '
        'alias or a flush/commit/reload; or a read-only program with >=1 read at depth>=1 or >=2 reads. Distinct by hash '
        'of (kind, origin, normalised initial value, resolved concrete steps).')
ASSUMPTIONS = ['Python dict/list semantics on a deep copy are the reference (documents are trees: the generator never '
               'creates shared children and never passes a part of the document back in as an argument)',
               'SQLite live through pony.orm.dbproviders.sqlite, :memory: database, statement log via sqlite3 factory',
               'dict order after a reload is the sorted-key order the SQLite provider writes (only popitem depends on it)',
               'obj._status_ is read as a secondary signal for read-only programs and for "a step on one object does not mark '
               'another object"',
               'a container handed over from one attribute value to another is stored by value (copy) in the reference: two '
               'rows/attributes cannot share structure; a container is never handed back into the slot it was read from']
SHARDS = {'quick': 4, 'thorough': 16}
MIN_EVALS = {'quick': 18000, 'thorough': 70000}
CLASS_FLOORS = {'readonly': 0.1, 'origin:loaded': 0.25, 'origin:flushed': 0.15, 'kind:array': 0.1,
                'aug:local': 0.03, 'aug:item': 0.012, 'containers_in_nonlist_iterable': 0.005,
                'mutated_inserted_container': 0.03, 'via_alias': 0.015, 'session:flush': 0.03, 'session:reload': 0.03,
                'handover': 0.05, 'mutated_handed_over': 0.02, 'mutated_handed_over_after_flush': 0.01, 'peer:obj': 0.05,
                'peer:attr': 0.01, 'peer:both': 0.02}

_ENV = None


def _env():
    global _ENV
    if _ENV is None:
        import sqlite3
        from pony.orm import Database, PrimaryKey, Optional, Json, IntArray, StrArray, FloatArray
        log = []

        class Cur(sqlite3.Cursor):
            def execute(self, sql, *a):
                log.append(sql)
                return sqlite3.Cursor.execute(self, sql, *a)

            def executemany(self, sql, *a):
                log.append(sql)
                return sqlite3.Cursor.executemany(self, sql, *a)

        class Conn(sqlite3.Connection):
            def cursor(self, factory=None):
                return sqlite3.Connection.cursor(self, Cur)

            def execute(self, sql, *a):
                log.append(sql)
                return sqlite3.Connection.execute(self, sql, *a)

        db = Database()

        class E(db.Entity):
            id = PrimaryKey(int)
            j = Optional(Json)
            jl = Optional(Json, lazy=True)
            ia = Optional(IntArray)
            sa = Optional(StrArray)
            fa = Optional(FloatArray)
            n = Optional(int)
        db.bind('sqlite', ':memory:', factory=Conn)
        db.generate_mapping(create_tables=True)
        _ENV = (db, E, log, itertools.count(1))
    return _ENV


class _Abort(Exception):
    def __init__(self, verdict, message):
        Exception.__init__(self, message)
        self.verdict = verdict
        self.message = message


def _sets_column(sql, column):
    s = sql.lstrip()
    if not s.upper().startswith('UPDATE'):
        return False
    up = s.upper()
    a = up.find(' SET ')
    b = up.find('WHERE')
    part = s[a:b if b > a else len(s)]
    return ('"%s"' % column) in part


def _describe(case, res, trace):
    docs = res['docs0']
    lines = ['%s attribute %s, object(s) %s, initial value %r' % (case['kind'], res['names'][0], case['origin'], docs[0])]
    if len(docs) > 1:
        lines.append('peer slot %s, initial value %r' % (res['names'][1], docs[1]))
    for k, line in enumerate(res['src']):
        lines.append('  %d: %s%s' % (k + 1, line, '    -> status %s' % trace[k] if k < len(trace) else ''))
    return '\n'.join(lines)


def execute(case, res):
    """run the resolved program against Pony; returns (verdict, message): verdict in ok/violation/rejected"""
    from pony.orm import db_session, flush, commit
    db, E, log, ids = _env()
    specs = res['slots']                       # [(object key, attribute)]
    names = res['names']
    okeys = sorted(set(o for o, _ in specs))   # 'a' or 'a', 'b'
    pks = {o: next(ids) for o in okeys}
    init = {o: {} for o in okeys}
    for (o, a), d in zip(specs, res['docs0']):
        init[o][a] = d
    steps = res['steps']
    origin = case['origin']
    readonly = case['readonly']
    if readonly and res['effective']:
        raise AssertionError('harness: read-only program changed the reference')
    if origin == 'loaded':
        with db_session:
            for o in okeys:
                E(id=pks[o], **M.fresh(init[o]))
    del log[:]
    st = {'pos': 0, 'snap': 0}
    trace = []

    def violation(text):
        return _Abort('violation', '%s\n%s' % (_describe(case, res, trace), text))

    def compare(objs, expect, when):
        for k, (o, a) in enumerate(specs):
            got = M.plain(getattr(objs[o], a))
            if not _same(got, expect[k]):
                raise violation('%s a new db_session reads %s = %r, the plain Python copy is %r'
                                % (when, names[k], got, expect[k]))

    def segment(first):
        # explicit enter/exit so that an exception raised by the commit at the end of the session is told apart
        # from an exception raised by a step
        db_session.__enter__()
        try:
            done = body(first)
        except BaseException:
            import sys
            try: db_session.__exit__(*sys.exc_info())
            except Exception: pass
            raise
        try:
            db_session.__exit__(None, None, None)
        except Exception as e:
            raise violation('the commit at the end of the db_session raised %s: %s' % (type(e).__name__, e))
        return done

    def body(first):
        objs = {}
        for o in okeys:
            if first and origin != 'loaded':
                objs[o] = E(id=pks[o], **M.fresh(init[o]))
                want = 'inserted' if origin == 'flushed' else 'created'
            else:
                objs[o] = E[pks[o]]
                want = 'loaded'
        if first and origin == 'flushed': flush()
        for o in okeys:
            if objs[o]._status_ != want:
                raise AssertionError('harness: object status %r, expected %r' % (objs[o]._status_, want))
        if not first:
            expect = res['snapshots'][st['snap']]
            st['snap'] += 1
            compare(objs, expect, 'after the commit at step %d' % st['pos'])
        env = M.Env([(objs[o], a) for o, a in specs])

        def statuses():
            return '/'.join(objs[o]._status_ for o in okeys)
        while st['pos'] < len(steps):
            step = steps[st['pos']]
            st['pos'] += 1
            do = step['do']
            if do == 'reload':
                trace.append(statuses())
                return False
            before = {o: objs[o]._status_ for o in okeys}
            acted = 'a' if do == 'touch' else specs[step.get('on', 0)][0]
            try:
                if do == 'flush': flush()
                elif do == 'commit': commit()
                elif do == 'touch': objs['a'].n = step['n']
                else: M.apply_step(step, env)
            except Exception as e:
                trace.append('%s: %s' % (type(e).__name__, e))
                if (isinstance(e, TypeError) and 'Cannot store' in str(e) and case['kind'] in M.ARRAY_KINDS
                        and do == 'l_setslice'):
                    raise _Abort('rejected', str(e))
                raise violation('step %d raised %s: %s (the same step succeeds on the plain copy)'
                                % (st['pos'], type(e).__name__, e))
            trace.append(statuses())
            if do == 'read' and objs[acted]._status_ == 'modified' and before[acted] != 'modified':
                raise violation('read step %d changed the status of the object it reads from %r to %r'
                                % (st['pos'], before[acted], objs[acted]._status_))
            if do not in ('flush', 'commit'):
                for o in okeys:     # an object whose value is not changed by the step (at most read) must not get marked
                    if o != acted and objs[o]._status_ == 'modified' and before[o] != 'modified':
                        raise violation('step %d acts on object %r but changed the status of object %r from %r to %r'
                                        % (st['pos'], acted, o, before[o], objs[o]._status_))
        return True

    try:
        first = True
        while not segment(first):
            first = False
        with db_session:
            compare({o: E[pks[o]] for o in okeys}, res['final'], 'after commit')
        if readonly:
            for o, a in specs:
                bad = [s for s in log if _sets_column(s, a)]
                if bad:
                    raise violation('read-only program emitted %r' % (bad[0],))
    except _Abort as a:
        return a.verdict, a.message
    return 'ok', None


def _same(got, expect):
    try:
        return M.canon(got) == M.canon(expect)
    except (TypeError, ValueError):
        return False


def _nontrivial(case, res):
    if case['readonly']:
        return res['reads'] >= 2 or 'read_nested' in res['classes']
    if not res['effective']:
        return False
    cl = res['classes']
    return bool(res['nested_effective'] or res['session_steps'] or 'alias_taken' in cl or 'inserted_container' in cl
                or any(c.startswith('aug:') for c in cl))


def _classes(case, res):
    cl = list(res['classes'])
    cl.append('kind:' + case['kind'])
    if case['kind'] in M.ARRAY_KINDS: cl.append('kind:array')
    cl.append('origin:' + case['origin'])
    cl.append('readonly' if case['readonly'] else 'mutating')
    for s in set(res['session_steps']): cl.append('session:' + s)
    for f, v in res['flags'].items():
        if v: cl.append('flag:' + f)
    return cl


def evaluate(ctx, case, part):
    res = M.resolve(case)
    verdict, msg = execute(case, res)
    key = runner.chash({'k': case['kind'], 'o': case['origin'], 'd': res['docs0'], 'n': res['names'], 's': res['steps']})
    nt = _nontrivial(case, res)
    sample = None
    if nt and ctx.evaluations % 211 == 5:      # a spread of real cases rather than the first few grid cells
        sample = {'kind': case['kind'], 'origin': case['origin'], 'slots': res['names'], 'initial': res['docs0'],
                  'program': res['src'],
                  'expected': res['final'], 'verdict': verdict, 'part': part}
    ctx.case(key=key, nontrivial=nt, classes=_classes(case, res) + ['part:' + part], sample=sample)
    ctx.count('steps', len(res['steps']))
    ctx.count('skipped_ops', res['skipped'])
    if verdict == 'rejected':
        ctx.rejected += 1
    elif verdict == 'violation':
        ctx.fail(case, msg)


def run(ctx):
    for k, case in enumerate(M.grid_cases()):
        if k % ctx.nshards != ctx.shard:
            continue
        ctx.check_time()
        evaluate(ctx, case, 'grid')
    ctx.run_test(lambda case: evaluate(ctx, case, 'random'), dict(case=M.strategies()),
                 max_examples=ctx.scale(1000, 4000), name='programs')


def replay(case):
    res = M.resolve(case)
    verdict, msg = execute(case, res)
    return msg if verdict == 'violation' else None


def _flag(name):
    def pred(case, message):
        return bool(M.resolve(case)['flags'][name])
    return pred


# Exclusions are decided on the plain-Python side only (vlib.c28_model.resolve never touches Pony):
#  aug_local_untracked    the program applies += / *= / |= through a local name (x = obj.j['l']; x += [..]) to a container
#                         that is part of the document, and the operator changes it.  TrackedList/TrackedDict inherit
#                         list.__iadd__/__imul__/dict.__ior__, which mutate without notifying the object.
#  nonlist_iterable_items the program mutates a container that entered the document as an item of a tuple/generator/
#                         iterator passed to extend() or slice assignment.  tracked_method only wraps arguments that are
#                         themselves dict/list, so those items stay plain dict/list and their later changes are not seen.
#  item_aug_rebinds_copy  the program mutates through an alias taken before `parent[key] op= value` re-bound that subtree.
#                         TrackedValue.make copies an already tracked container on assignment, so the alias now points to a
#                         detached copy (in Python `parent[key] += v` re-binds the very same list).
EXCLUSIONS = {'aug_local_untracked': _flag('aug_local'),
              'nonlist_iterable_items': _flag('unwrapped_item'),
              'item_aug_rebinds_copy': _flag('stale_alias')}

MANIFEST = {
    'text': 'Mutation programs (item/slice assignment and deletion, every list and dict mutator, += *= |= on items and on '
            'local names, list/tuple/generator/dict arguments holding containers, aliases, flush/commit/reload in between) '
            'are run on nested Json documents and Int/Str/Float arrays of loaded and freshly created objects and on a plain '
            'deep copy; the value read in a new db_session after commit must equal the copy, and read-only programs must '
            'not mark the object or emit an UPDATE. Two-slot cases hand containers over between objects/attributes and then '
            'change them through the receiver or the source; every slot must be written with exactly its own changes and no '
            'other object may be marked. A fixed grid is enumerated completely, the rest is sampled by hypothesis; '
            'it cannot establish the claim for all programs.',
    'note': 'SQLite only (the tracking code is provider independent, the array/Json converters of other providers are not '
            'exercised). Documents are trees: shared children and re-inserting parts of the document are not generated. '
            'The three defects this check found (see known_findings.json) carry exclusion predicates that only apply while '
            'an entry is open; once fixed their witnesses are replayed as plain regression checks.',
    'technique': 'bounded-exhaustive grid + hypothesis program generation against a plain-Python reference copy',
}
