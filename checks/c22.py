"""C22 Concurrent threads do not interfere through shared process state.

Two or three actors (real threads, one Database, one db_session each at a time) run small scripts of queries whose
cached translators are pinned by parameter VALUES (string slice bounds, getattr names) and are therefore invalidated
and rebuilt, first uses of generators / lambdas / string queries, raw SQL, inserts, and uses of objects that belong
to another actor's session.  The harness owns the schedule (vlib/c22_sched.py): exactly one actor is runnable; control
changes hands between operations and at `line` trace events inside the Pony functions that read and then write a shared
cache.  Oracle (the property's own statement): every result and every error of every actor equals that of the same
script run ALONE on the same data with fresh caches; using another session's object raises a TransactionError.
"""
import os, json, shutil

from vlib.runner import Violation
from vlib import c22_ops as O

ID = 'C22'
LEVEL = 'exploration'
RULE = ('A case = (setup ops run alone first, 2-3 actor scripts of 1-2 db_sessions with 1-3 ops each, mode, schedule). '
        'Ops: generator/string/lambda queries with value-pinned translators (x.s[:n], x.s[m:n], getattr(x, name), chained '
        'filter/where/order_by lambdas), kwargs filter, raw SQL with $params, raw_sql fragments, Entity[pk], collection '
        'load, count, entity and db.insert inserts (provider locks replaced by scheduler-aware locks), publish/foreign '
        '(an object of another actor\'s session used in a query, kwargs filter, assignment, set(), constructor, collection '
        'add/remove/in, load(); query forms: generator, lambda, inside a list, count(); the same forms with objects of the own '
        'session, before or after, so that the shared translator/SQL caches are cold or warm when the foreign object arrives; '
        'loaded and unsaved objects; judged as "still open" only if the publishing db_session stayed open during the whole '
        'operation). Schedule = list of [yield-point number, k] pre-emptions (<=3; hand over to the k-th other ready actor); yield points are '
        'operation/session boundaries plus line events of the traced Pony functions: mode "access" = only the lines '
        'that touch a shared cache (found by source text), mode "line" = every line. Enumerated part: for fixed scenarios '
        'every position of 1 and of 2 pre-emptions (complete; quick tier: scenario S1 with 2, the others with 1, access mode; '
        'thorough: all scenarios with 1-2 in access mode, all with 1 and S1 with 2 in line mode); random part: hypothesis '
        'draws scripts and schedules. Non-trivial = at least one pre-emption actually taken at a traced Pony line while '
        'another actor was mid-script, or a foreign-object use that was actually judged; distinct by (setup, scripts, mode, '
        'switches actually performed).')
ASSUMPTIONS = ['CPython 3.12 sys.settrace line events; only one actor thread is runnable at a time, so interleavings are at '
               'line granularity inside the traced functions (Query.__init__, _get_translator, _construct_sql_and_arguments, '
               '_process_lambda, _apply_kwargs, _order_by, _actual_fetch, adapt_sql, string2ast, decompile, create_extractors, '
               'SQLTranslator.__init__/init/__enter__/__exit__ and Monad.__init__ at the lines that touch the per-thread stack of '
               'translations in progress (so two translations of cache misses can overlap), '
               'get_lambda_args, parse_raw_sql, Database.insert, Entity._save_created_, EntityMeta._construct_sql_, '
               'EntityMeta._construct_batchload_sql_) and at operation '
               'granularity elsewhere; races inside C code or inside untraced functions are not explored; no pre-emption between '
               'sending a SELECT and fetching its rows (SQLite file-lock waits are not modelled: a suspended reader would '
               'hold the shared lock and a COMMIT would fail with "database is locked" instead of waiting)',
               'SQLite file database, one connection per thread (Pony\'s thread-local pool), PRAGMA synchronous=OFF through a '
               'sqlite3.Connection factory; the provider instance\'s two threading.Lock objects are replaced by scheduler-aware locks',
               'process-level caches are cleared from outside before every run (utils.codeobjects kept); a new Database object per run',
               'the solo run of the same script is the reference (the property is stated relative to it)']
SHARDS = {'quick': 4, 'thorough': 16}
MIN_EVALS = {'quick': 600, 'thorough': 20000}
CLASS_FLOORS = {'traced_switch': 0.25, 'pinned_conflict': 0.10, 'foreign_judged': 0.03}
EXHAUSTIVE = {'quick': True, 'thorough': True}   # the enumerated part (see RULE) is complete; the random part is sampled

# ------------------------------------------------------------------------------------------------
# fixed scenarios for the complete enumeration of pre-emption positions

def _a(*sessions):
    return [list(s) for s in sessions]


SCENARIOS = [
    # S1: translator pinned to s[:1]; both actors then ask for s[:2] (the prototype's scenario)
    {'name': 'S1-pinned-slice', 'setup': [{'op': 'slice_gen', 'n': 1}],
     'actors': [_a([{'op': 'slice_gen', 'n': 2}]), _a([{'op': 'slice_gen', 'n': 2}])]},
    # S2: cold caches, crossing invalidations
    {'name': 'S2-cold-crossing', 'setup': [],
     'actors': [_a([{'op': 'slice_gen', 'n': 1}, {'op': 'slice_gen', 'n': 2}]),
                _a([{'op': 'slice_gen', 'n': 2}, {'op': 'slice_gen', 'n': 1}])]},
    # S3: getattr name pinned, string queries
    {'name': 'S3-getattr-str', 'setup': [{'op': 'getattr_str', 'name': 's'}],
     'actors': [_a([{'op': 'getattr_str', 'name': 'a'}]), _a([{'op': 'getattr_str', 'name': 'b'}])]},
    # S4: first use of a string lambda and of a raw SQL text by both
    {'name': 'S4-first-use', 'setup': [],
     'actors': [_a([{'op': 'lambda_str', 'k': 1}, {'op': 'raw', 'which': 0, 'k': 1}]),
                _a([{'op': 'lambda_str', 'k': 2}, {'op': 'raw', 'which': 0, 'k': 2}])]},
    # S5: three actors on one pinned string query
    {'name': 'S5-three-actors', 'setup': [{'op': 'slice_str', 'n': 1}],
     'actors': [_a([{'op': 'slice_str', 'n': 2}]), _a([{'op': 'slice_str', 'n': 3}]), _a([{'op': 'slice_str', 'n': 2}])]},
    # S6: chained lambdas with a pinned filter
    {'name': 'S6-chain', 'setup': [],
     'actors': [_a([{'op': 'chain', 'k': 1, 'n': 1}]), _a([{'op': 'chain', 'k': 2, 'n': 2}])]},
    # S7: same entity query and arguments in two sessions (query_results, identity map), then writes
    {'name': 'S7-same-query-writes', 'setup': [],
     'actors': [_a([{'op': 'lambda', 'which': 0, 'k': 1}, {'op': 'log_insert', 'k': 0, 'tag': 'x'}, {'op': 'log_read', 'tag': 'x'}]),
                _a([{'op': 'lambda', 'which': 0, 'k': 1}, {'op': 'log_insert', 'k': 0, 'tag': 'x'}, {'op': 'log_read', 'tag': 'x'}])]},
    # S8: an object of a live / finished session used by the other actor
    {'name': 'S8-foreign', 'setup': [],
     'actors': [_a([{'op': 'publish', 'what': 'P', 'id': 2}, {'op': 'get', 'id': 1}], [{'op': 'kw', 'a': 2}]),
                _a([{'op': 'foreign', 'src': 0, 'mode': 'kw_filter'}, {'op': 'foreign', 'src': 0, 'mode': 'assign'},
                    {'op': 'foreign', 'src': 0, 'mode': 'load'}])]},
    # S9: the query forms that take an entity parameter were already executed (by the setup, by this actor) with own
    # objects -- the shared SQL cache is warm -- when a loaded / an unsaved object of the other actor's session arrives
    {'name': 'S9-foreign-warm-cache', 'setup': [{'op': 'own_param', 'form': 'scalar', 'id': 1}, {'op': 'own_param', 'form': 'count', 'id': 1}],
     'actors': [_a([{'op': 'publish', 'what': 'P', 'id': 2}, {'op': 'get', 'id': 1}, {'op': 'publish', 'what': 'newP', 'id': 0}, {'op': 'get', 'id': 3}]),
                _a([{'op': 'own_param', 'form': 'list', 'id': 3}, {'op': 'foreign', 'src': 0, 'mode': 'query_param'},
                    {'op': 'foreign', 'src': 0, 'mode': 'list_param'}, {'op': 'foreign', 'src': 0, 'mode': 'count_param'},
                    {'op': 'foreign', 'src': 0, 'mode': 'lambda_param'}])]},
]


def enumeration_plan(tier):
    """(scenario index, mode, depth) triples; depth 2 = every pair of positions as well"""
    if tier == 'quick':
        plan = [(0, 'access', 2)] + [(i, 'access', 1) for i in range(1, len(SCENARIOS))]
    else:
        plan = [(i, 'access', 2) for i in range(len(SCENARIOS))]
        plan += [(i, 'line', 1) for i in range(len(SCENARIOS))]
        plan += [(0, 'line', 2)]
    return plan


# ------------------------------------------------------------------------------------------------
# judging one case

def _group_key(m):
    at = m.get('at', '')
    return (m['kind'], m.get('error', ''), at.split(':', 1)[0], m.get('mode', ''), bool(m.get('src_alive')))


def _compact(m):
    c = {k: m[k] for k in ('kind', 'actor', 'error', 'at', 'mode', 'src_alive') if k in m}
    if m.get('error') == 'KeyError':
        # is the missing key a query key (HashableDict(code_key=..., vartypes=..., ...))?
        c['missing_key_is_query_key'] = "interleaved: [\"err\", \"KeyError\", \"{'code_key':" in m.get('detail', '')
    return c


def _classes(case, info):
    cls = ['mode:' + case.get('mode', 'access'), 'actors:%d' % len(case['actors']),
           'switches:%d' % min(3, len(info['switches']))]
    if info['traced_switches']:
        cls.append('traced_switch')
    if any('blocked' in f[3] for f in info['forced']):
        cls.append('blocked_on_lock')
    if info.get('foreign_checked'):
        cls.append('foreign_judged')
    if info.get('foreign_live_query_param'):
        cls.append('foreign_live_query_param')   # object of a still open foreign session used as a query parameter
    pinned = {}
    for op in case.get('setup') or []:
        if op['op'] in O.PINNED_OPS:
            pinned.setdefault(op['op'], set()).add(json.dumps(op, sort_keys=True))
    users = {}
    writes = False
    for i, sessions in enumerate(case['actors']):
        for ops in sessions:
            for op in ops:
                if op['op'] in O.PINNED_OPS:
                    pinned.setdefault(op['op'], set()).add(json.dumps(op, sort_keys=True))
                    users.setdefault(op['op'], set()).add(i)
                if op['op'] in O.WRITE_OPS:
                    writes = True
    if any(len(pinned[k]) >= 2 and len(users.get(k, ())) >= 2 for k in pinned):
        cls.append('pinned_conflict')        # >= 2 actors use one value-pinned query and >= 2 different values occur
    if writes:
        cls.append('writes')
    return cls


def evaluate(ctx, case, sample_ok=True, need=0):
    """run one case, account for it, report mismatches through ctx.fail (grouped by root cause).
    need: (enumeration) number of pre-emptions that must actually fire, otherwise the schedule duplicates a shorter
    one and is neither counted nor judged again (returns None)"""
    mismatches, info = O.judge(ctx.workdir, case)
    if len(info['switches']) < need:
        return None
    nontrivial = bool(info['traced_switches']) or bool(info.get('foreign_checked'))
    key = {'setup': case.get('setup'), 'actors': case['actors'], 'mode': case.get('mode'),
           'switches': [s[:3] for s in info['switches']]}
    sample = None
    if sample_ok and nontrivial:
        sample = {'setup': case.get('setup'), 'actors': case['actors'], 'mode': case.get('mode'),
                  'preempts': case.get('preempts'), 'switches': info['switches'],
                  'yield_points': info['yield_points']}
    ctx.case(key=key, nontrivial=nontrivial, classes=_classes(case, info), sample=sample)
    ctx.count('runs_yield_points', info['yield_points'])
    if mismatches:
        groups = {}
        for m in mismatches:
            groups.setdefault(_group_key(m), []).append(m)
        for gk in sorted(groups):
            group = groups[gk]
            c = dict(case)
            c['mismatches'] = [_compact(m) for m in group]
            ctx.fail(c, O.message_for(case, group, info))
    return info


def replay(case):
    """re-execute one stored case without hypothesis; the violation message or None"""
    from vlib import runner
    workdir = os.path.join(runner.HOME, '.work', 'replay%d' % os.getpid())
    os.makedirs(workdir, exist_ok=True)
    try:
        case = {k: v for k, v in case.items() if k != 'mismatches'}
        mismatches, info = O.judge(workdir, case)
        if mismatches:
            return O.message_for(case, mismatches, info)
        return None
    finally:
        shutil.rmtree(workdir, ignore_errors=True)
        try:
            os.rmdir(os.path.dirname(workdir))
        except OSError:
            pass


# ------------------------------------------------------------------------------------------------
# complete enumeration of pre-emption positions for the fixed scenarios

def _enumerate(ctx):
    plan = enumeration_plan(ctx.tier)
    k = 0
    done = 0
    for (si, mode, depth) in plan:
        sc = SCENARIOS[si]
        base = {'mode': mode, 'setup': sc['setup'], 'actors': sc['actors'], 'preempts': []}
        nact = len(sc['actors'])
        _, info0 = O.run_concurrent(ctx.workdir, base)
        n0 = info0['yield_points']
        if k % ctx.nshards == ctx.shard:
            evaluate(ctx, base)          # the schedule without pre-emption
            done += 1
        k += 1
        for p1 in range(n0):
            for t1 in range(nact - 1):
                mine = (k % ctx.nshards == ctx.shard)
                k += 1
                if not mine:
                    continue
                ctx.check_time()
                c1 = dict(base, preempts=[[p1, t1]])
                info1 = _probe(ctx, c1)
                if info1 is None:
                    continue             # the pre-emption cannot fire there (same actor / not ready): same run as base
                done += 1
                if depth < 2:
                    continue
                n1 = info1['yield_points']
                for p2 in range(p1 + 1, n1):
                    for t2 in range(nact - 1):
                        ctx.check_time()
                        c2 = dict(base, preempts=[[p1, t1], [p2, t2]])
                        info2 = _probe(ctx, c2, need=2)
                        if info2 is not None:
                            done += 1
    ctx.extra['enumerated_schedules'] = done


def _probe(ctx, case, need=1):
    """evaluate an enumerated schedule; schedules whose last pre-emption did not fire duplicate a shorter one and are
    not counted"""
    return evaluate(ctx, case, sample_ok=(len(ctx.samples) < 3), need=need)


# ------------------------------------------------------------------------------------------------
# random part

def _strategies():
    from hypothesis import strategies as st
    n = st.sampled_from([1, 2, 3])
    name = st.sampled_from(['s', 'a', 'b'])
    k = st.sampled_from([1, 2, 3])
    templates = {
        'slice_gen': st.fixed_dictionaries({'op': st.just('slice_gen'), 'n': n}),
        'slice_str': st.fixed_dictionaries({'op': st.just('slice_str'), 'n': n}),
        'slice2_gen': st.fixed_dictionaries({'op': st.just('slice2_gen'), 'm': st.sampled_from([0, 1]), 'n': st.sampled_from([2, 3])}),
        'slice_ent': st.fixed_dictionaries({'op': st.just('slice_ent'), 'n': n, 'v': st.sampled_from(['a', 'al', 'br'])}),
        'getattr_gen': st.fixed_dictionaries({'op': st.just('getattr_gen'), 'name': name}),
        'getattr_str': st.fixed_dictionaries({'op': st.just('getattr_str'), 'name': name}),
        'chain': st.fixed_dictionaries({'op': st.just('chain'), 'k': k, 'n': n}),
        'where_getattr': st.fixed_dictionaries({'op': st.just('where_getattr'), 'name': name}),
        'lambda': st.fixed_dictionaries({'op': st.just('lambda'), 'which': st.sampled_from([0, 1, 2]), 'k': k}),
        'lambda_str': st.fixed_dictionaries({'op': st.just('lambda_str'), 'k': k}),
        'kw': st.fixed_dictionaries({'op': st.just('kw'), 'a': k}),
        'raw': st.fixed_dictionaries({'op': st.just('raw'), 'which': st.sampled_from([0, 1, 2]), 'k': k}),
        'rawfrag': st.fixed_dictionaries({'op': st.just('rawfrag'), 'k': k}),
        'get': st.fixed_dictionaries({'op': st.just('get'), 'id': st.sampled_from([1, 2, 3, 4, 99])}),
        'children': st.fixed_dictionaries({'op': st.just('children'), 'id': st.sampled_from([1, 2, 4])}),
        'count': st.fixed_dictionaries({'op': st.just('count'), 'which': st.sampled_from([0, 1]), 'k': k}),
        'log_insert': st.fixed_dictionaries({'op': st.just('log_insert'), 'k': st.just(0), 'tag': st.sampled_from(['x', 'y'])}),
        'db_insert': st.fixed_dictionaries({'op': st.just('db_insert'), 'k': st.just(0), 'tag': st.sampled_from(['x', 'y'])}),
        'log_read': st.fixed_dictionaries({'op': st.just('log_read'), 'tag': st.sampled_from(['x', 'y', 'seed'])}),
        'own_param': st.fixed_dictionaries({'op': st.just('own_param'), 'form': st.sampled_from(O.PARAM_FORMS),
                                            'id': st.sampled_from([1, 2, 3])}),
    }
    pinned = list(O.PINNED_OPS)
    others = [t for t in templates if t not in pinned]

    @st.composite
    def general_case(draw):
        # a small "theme" of operation kinds shared by all actors, so that they collide on the same cache keys
        theme = draw(st.lists(st.sampled_from(pinned), min_size=1, max_size=2, unique=True))
        theme += draw(st.lists(st.sampled_from(others), min_size=0, max_size=2, unique=True))
        op = st.sampled_from(theme).flatmap(lambda t: templates[t])
        nact = draw(st.sampled_from([2, 2, 2, 3]))
        setup = draw(st.lists(op, min_size=0, max_size=2))
        actors = []
        for _ in range(nact):
            sessions = draw(st.lists(st.lists(op, min_size=1, max_size=3), min_size=1, max_size=2))
            actors.append(sessions)
        return _finish_case(draw, setup, actors)

    @st.composite
    def foreign_case(draw):
        what = draw(st.sampled_from(['P', 'P', 'P', 'newP', 'C']))
        modes = O.FOREIGN_MODES_C if what == 'C' else O.FOREIGN_MODES_P
        # fillers include the legitimate use of OWN objects in the same query forms: whether the shared caches
        # already hold the translation / SQL of a query must not change what happens to a foreign object
        filler = st.sampled_from(['get', 'kw', 'children', 'lambda', 'slice_gen', 'own_param', 'own_param']
                                 ).flatmap(lambda t: templates[t])
        setup = draw(st.lists(templates['own_param'], min_size=0, max_size=2))
        pub = {'op': 'publish', 'what': what, 'id': draw(st.sampled_from([1, 2, 3]))}
        first = draw(st.lists(filler, min_size=0, max_size=1)) + [pub] + draw(st.lists(filler, min_size=0, max_size=2))
        a0 = [first] + draw(st.lists(st.lists(filler, min_size=1, max_size=1), min_size=0, max_size=1))
        uses = draw(st.lists(st.fixed_dictionaries({'op': st.just('foreign'), 'src': st.just(0), 'mode': st.sampled_from(modes)}),
                             min_size=1, max_size=3))
        tail = draw(st.lists(filler, min_size=0, max_size=2))
        a1 = [draw(st.lists(filler, min_size=0, max_size=2)) + uses + tail]
        actors = [a0, a1]
        if draw(st.booleans()):
            actors.append([draw(st.lists(filler, min_size=1, max_size=2))])
        return _finish_case(draw, setup, actors, op_level=True)

    def _finish_case(draw, setup, actors, op_level=False):
        # inserted primary keys are made unique per actor (position among the actor's writes)
        for sessions in actors:
            w = 0
            for ops in sessions:
                for i, o in enumerate(ops):
                    if o['op'] in O.WRITE_OPS:
                        ops[i] = dict(o, k=w)
                        w += 1
        setup = [o for o in setup if o['op'] not in O.WRITE_OPS]
        nops = sum(len(ops) for sessions in actors for ops in sessions)
        nsess = sum(len(sessions) for sessions in actors)
        mode = draw(st.sampled_from(['access', 'access', 'line']))
        if op_level:
            # foreign-object cases always run in access mode; what matters is WHEN the publishing session is alive /
            # over, i.e. pre-emptions near operation boundaries (two ranges of positions: tight and wide)
            bound = 3 * nops + 3 * nsess + 6 if mode == 'access' else 14 * nops
            mode = 'access'
        else:
            bound = (9 * nops + 3 * nsess + 4) if mode == 'access' else (90 * nops + 10)
        npre = draw(st.sampled_from([0, 1, 1, 2, 2, 2, 3, 3]))
        positions = sorted(draw(st.lists(st.integers(0, bound), min_size=npre, max_size=npre, unique=True)))
        preempts = [[p, draw(st.integers(0, len(actors) - 2))] for p in positions]
        return {'mode': mode, 'setup': setup, 'actors': actors, 'preempts': preempts}

    return general_case(), foreign_case()


def run(ctx):
    import pony
    assert pony.MODE != 'INTERACTIVE', 'run the harness from a script file'
    ctx.extra['traced_access_lines'] = O.describe_traced('access')
    _enumerate(ctx)
    general, foreign = _strategies()

    def t_general(case):
        evaluate(ctx, case)

    def t_foreign(case):
        evaluate(ctx, case)

    ctx.run_test(t_general, dict(case=general), max_examples=ctx.scale(170, 900), name='random_schedules')
    if ctx.violation is None:
        ctx.run_test(t_foreign, dict(case=foreign), max_examples=ctx.scale(40, 220), name='foreign_objects')


# ------------------------------------------------------------------------------------------------
# open known findings (root-cause predicates over the grouped mismatches of a case)

def _is_translator_del_race(case, message):
    """C22-translator-del-race: Query._get_translator looks a cached translator up, finds its fixed parameter values
    stale and removes it with `del database._translator_cache[query_key]`; when another thread removed the same stale
    entry between the lookup and the del, the del raises KeyError(query key).  Only a KeyError raised by
    _get_translator itself whose missing key is the query key (the only statement there that can raise it)."""
    mm = case.get('mismatches') or []
    return bool(mm) and all(
        m.get('kind') == 'spurious_error' and m.get('error') == 'KeyError'
        and m.get('at', '').startswith('_get_translator:') and m.get('missing_key_is_query_key') is True
        for m in mm)


def _is_foreign_query_param(case, message):
    """C22-foreign-object-query-param (open part): an entity instance of another thread's db_session that is ALREADY
    OVER, used as a parameter of a generator / lambda / aggregate query (scalar or inside a list), is accepted silently
    (only its primary key is used), while the same object in a kwargs filter, assignment or collection operation raises
    TransactionError.  An object of a session that is still open is rejected since the repair (Query._check_vars) and
    is NOT covered by this predicate."""
    mm = case.get('mismatches') or []
    return bool(mm) and all(m.get('kind') == 'foreign_accepted' and m.get('src_alive') is False
                            and m.get('mode') in ('query_param', 'lambda_param', 'list_param', 'count_param') for m in mm)


EXCLUSIONS = {'translator_del_race': _is_translator_del_race, 'foreign_query_param': _is_foreign_query_param}

MANIFEST = {
    'text': 'Deterministic thread scheduler (one runnable actor; hand-over between operations, at scheduler-aware provider '
            'locks and at sys.settrace line events inside the Pony functions that read-then-write shared caches) runs 2-3 '
            'actors on one Database; hypothesis generates scripts (value-pinned translators, first uses, raw SQL, inserts, '
            'objects of another session) and schedules with <=3 pre-emptions, and every position of 1-2 pre-emptions is '
            'enumerated completely for nine fixed scenarios. Each actor\'s results/errors are compared with its solo run on '
            'the same data; foreign-session objects must raise TransactionError. Sampled exploration plus a complete '
            'enumeration of a small finite schedule space; cannot establish the claim for all interleavings.',
    'note': 'Interleavings are at Python line granularity inside the traced functions only (no races inside C code, the '
            'SQLite driver, or the translator classes other than at their translation-stack accesses); SQLite only; the solo run of the same script is the reference, so a '
            'defect that also shows when running alone is out of scope here. Reading already-loaded attributes of a foreign '
            'object is not asserted to raise.',
    'technique': 'hypothesis-generated scripts and schedules + complete enumeration of 1-2 pre-emption positions, settrace-driven '
                 'deterministic scheduler, solo-run oracle',
}
