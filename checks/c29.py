"""C29 JSON and array operations in queries match Python semantics.

SQLite live, twice: with the JSON1 functions and with `provider.json1_available = False` forced before
generate_mapping (the pure-Python py_json_* fallback).  One case = a few stored rows (JSON documents to depth 3 with
awkward keys, or Int/Str/Float arrays) + ONE query operation, run as a string query or as a real generator object,
with every key / index / operand either written into the query or passed as a parameter.  Oracle: the same
operation on the decoded Python value (vlib/c29_model.py).  PostgreSQL: only the encoding of the path operand.
"""
import os
from vlib.runner import Violation
from vlib import c29_model as M

ID = 'C29'
LEVEL = 'exploration'
RULE = ('hypothesis: 1-4 rows of JSON documents (dict/list nesting <= 3; keys from a per-case vocabulary of plain, '
        'space/dot/quote/bracket/unicode/digit-only/empty/backslash keys; null/bool/int/exact-float/str leaves; empty '
        'containers; later rows are perturbed copies of the first so one path resolves in several rows) stored in an '
        'Optional and a Required Json attribute, or 1-3 rows of IntArray/StrArray/FloatArray (Optional) and a Required '
        'IntArray; ONE operation per case: JSON path projection, path ==,!=,<,>,<=,>= scalar, is [not] None, key/item '
        '[not] in path, len(path) (projection and comparison), [not] path truthiness; array a[i], a[i] cmp v, a[i:j], '
        'v [not] in a, [..] [not] in a (subset with set semantics: short lists, lists of members with repeats and longer '
        'than the array, permutations with repeats, supersets), len(a), [not] a; every key/index/operand as literal or parameter '
        '(array bounds also as column / omitted); or 2-3 JSON path operations over the same attribute in ONE query '
        '((c1) and (c2), (c1) or (c2), tuple projection), most often sharing the same query variable(s) and differing '
        'only in a literal path component, also all-literal and independent-variable mixes; every case is run in the '
        'four configurations mode json1|fallback x form string query | generator object. '
        'PostgreSQL: key lists -> PGSQLBuilder.eval_json_path -> own array-literal lexer -> same key list. '
        'A case is the whole (rows, operation, mode, form) tuple; it is non-trivial when at least one row is asserted '
        '(not unspecified) with the path present in that row (JSON), or at least one row asserted (array), or a key '
        'that is not an identifier / an index (PostgreSQL); distinct by hash of the tuple. Unspecified (skipped per row): '
        'ordering comparisons Python refuses (TypeError), len() of a non-list, `k in` a JSON string, `k not in` a '
        'non-container, array index out of range; a combined condition is asserted when a false operand decides `and`, '
        'a true one decides `or`, or no operand is unspecified. A comparison with a missing path / JSON null filters the row (SQL NULL).')
ASSUMPTIONS = ['SQLite 3.40 with JSON1 live through pony.orm.dbproviders.sqlite; the fallback is forced with '
               'provider.json1_available = False before generate_mapping',
               'Python evaluation on json-decoded values is the reference; floats are restricted to exactly '
               'representable values; BINARY collation = code point order',
               'PostgreSQL is not run: only the array-literal text of the #> operand is decoded, by a lexer written '
               'from the array_in() input rules (stub psycopg2 in vlib/stubs to import the real provider)']
SHARDS = {'quick': 4, 'thorough': 16}
MIN_EVALS = {'quick': 6000, 'thorough': 60000}
# fractions of ALL evaluations (JSON cases are about 2/3 of them, array cases 1/3, PostgreSQL paths a few percent;
# the PostgreSQL cases have no mode / form)
CLASS_FLOORS = {'mode:fallback': 0.3, 'mode:json1': 0.3, 'form:gen': 0.3, 'form:str': 0.3,
                'kind:json': 0.3, 'kind:array': 0.12, 'kind:pgpath': 0.01,
                'json:param_path': 0.08, 'json:quoted_key': 0.08, 'json:neg_index': 0.02, 'json:depth>=2': 0.06,
                'json:cmp': 0.03, 'json:in': 0.03, 'json:truth': 0.03, 'json:proj': 0.03, 'json:len': 0.015,
                'array:slice': 0.02, 'array:index': 0.02, 'array:contains': 0.01, 'array:subset': 0.01,
                'array:subset_repeats': 0.004, 'array:subset_longer_but_contained': 0.002,
                'json:multi': 0.08, 'multi:same_vars_other_literals': 0.04, 'multi:tuple': 0.015, 'multi:and': 0.015,
                'multi:or': 0.008, 'multi:all_literal': 0.008}

STUB_DIR = os.path.join(os.path.dirname(os.path.dirname(os.path.abspath(__file__))), 'vlib', 'stubs')


def _is_ident(s):
    import re
    return bool(re.match(r'^[A-Za-z_]\w*\Z', s))


def _classes(case):
    kind = case['kind']
    out = ['kind:' + kind]
    if kind == 'pgpath':
        return out
    out += ['mode:' + case['mode'], 'form:' + case['form'], kind + ':' + case['op']['t']]
    op = case['op']
    if kind == 'json':
        parts = M.op_parts(op)
        path = [el for part in parts for el in part['path']]
        out.append('json:attr_' + case['attr'])
        if op['t'] == 'multi':
            out.append('multi:' + op['shape'])
            out += ['multi:part_' + part['t'] for part in parts]
            used = [set(el['v'] for el in part['path'] if el['m'] == 'p' and 'v' in el) for part in parts]
            lits = [tuple((i, el['k']) for i, el in enumerate(part['path']) if el['m'] == 'c') for part in parts]
            for a in range(len(parts)):
                for b in range(a + 1, len(parts)):
                    if used[a] and used[a] == used[b] and lits[a] != lits[b]:
                        out.append('multi:same_vars_other_literals')
                        break
                else:
                    continue
                break
            if all(not u for u in used): out.append('multi:all_literal')
        if any(el['m'] == 'p' for el in path): out.append('json:param_path')
        if any(isinstance(el['k'], str) and not _is_ident(el['k']) for el in path): out.append('json:quoted_key')
        if any(isinstance(el['k'], int) and el['k'] < 0 for el in path): out.append('json:neg_index')
        if any(len(part['path']) >= 2 for part in parts): out.append('json:depth>=2')
        if not path: out.append('json:depth0')
        if any(part.get('vm') == 'p' or part.get('km') == 'p' for part in parts): out.append('json:param_operand')
    else:
        out.append('array:' + op['attr'])
        if op['t'] == 'subset':
            items = op['items']
            if len(set(items)) < len(items): out.append('array:subset_repeats')
            if any(len(items) > len(r[op['attr']]) and set(items) <= set(r[op['attr']]) for r in case['rows']):
                out.append('array:subset_longer_but_contained')
            if op.get('im') == 'p': out.append('array:subset_param')
        for b in ('i', 'j'):
            if b in op: out.append('array:bound_' + op[b]['m'])
    return out


def _nontrivial(case, rows):
    if case['kind'] == 'json':
        paths = [M.path_keys(part) for part in M.op_parts(case['op'])]
        for (i, got, exp, ok) in rows:
            asserted = exp is not M.SKIP and not (isinstance(exp, tuple) and all(e is M.SKIP for e in exp))
            if asserted and any(M.traverse(case['docs'][i], keys) is not M.MISSING for keys in paths):
                return True
        return False
    return any(exp is not M.SKIP for (i, got, exp, ok) in rows)


def _show(v):
    if isinstance(v, tuple) and v is not M.SKIP:
        return '(%s)' % ', '.join(_show(x) for x in v)
    return '<unspecified>' if v is M.SKIP else repr(v)


def judge(case):
    """-> (status, src, rows, failures) ; failures = [(focus_row_or_None, message)]"""
    if case['kind'] == 'pgpath':
        msgs = M.pg_evaluate(case, STUB_DIR)
        return 'ok', None, [], [(None, m) for m in msgs]
    src, params, outcome = M.evaluate(case)
    what = '%s [%s, %s]%s' % (src, case['mode'], case['form'], (' with %r' % (params,)) if params else '')
    if outcome[0] == 'rejected':
        return 'rejected', src, [], []
    if outcome[0] == 'error':
        return 'ok', src, [], [(None, '%s failed: %s' % (what, outcome[1]))]
    rows = outcome[1]
    stored = case['docs'] if case['kind'] == 'json' else case['rows']
    fails = []
    for (i, got, exp, ok) in rows:
        if not ok:
            shown = stored[i] if case['kind'] == 'json' else stored[i][case['op']['attr']]
            fails.append((i, '%s: row %d holding %r gives %s, Python gives %s'
                          % (what, i + 1, shown, _show(got), _show(exp))))
    return 'ok', src, rows, fails


COMBOS = [('json1', 'str'), ('fallback', 'gen'), ('fallback', 'str'), ('json1', 'gen')]


def _one(ctx, case):
    if case['kind'] == 'pgpath':
        return _one_combo(ctx, case)
    for mode, form in COMBOS:          # the same rows and operation in every configuration / query form
        _one_combo(ctx, dict(case, mode=mode, form=form))


def _one_combo(ctx, case):
    status, src, rows, fails = judge(case)
    if status == 'rejected':
        ctx.rejected += 1
        ctx.count('rejected:' + case['kind'] + ':' + case['op']['t'])
        return
    if case['kind'] == 'pgpath':
        nt = any(isinstance(k, int) or not _is_ident(k) for k in case['keys'])
        sample = {'keys': case['keys']}
    else:
        nt = _nontrivial(case, rows)
        sample = {'query': src, 'mode': case['mode'], 'form': case['form'],
                  'stored': (case['docs'] if case['kind'] == 'json' else [r[case['op']['attr']] for r in case['rows']]),
                  'got': [_show(r[1]) for r in rows]}
    ctx.case(key=case, nontrivial=nt, classes=_classes(case), sample=sample)
    for focus, msg in fails:
        c = dict(case)
        if focus is not None:
            c['focus'] = focus
        ctx.fail(c, msg)


def run(ctx):
    from vlib import c29_gen as G
    n = ctx.scale(400, 1600)
    # cheapest first, so that a wall-clock stop on a loaded machine still leaves every part exercised
    ctx.run_test(lambda keys: _one(ctx, {'kind': 'pgpath', 'keys': keys}), dict(keys=G.pg_keys_st),
                 max_examples=n // 2, name='pg_path')
    if ctx.violation is None:
        ctx.run_test(lambda case: _one(ctx, case), dict(case=G.array_case()), max_examples=n // 2, name='array_ops')
    if ctx.violation is None:
        ctx.run_test(lambda case: _one(ctx, case), dict(case=G.json_multi_case()), max_examples=n // 2, name='json_multi')
    if ctx.violation is None:
        ctx.run_test(lambda case: _one(ctx, case), dict(case=G.json_case()), max_examples=n, name='json_ops')


def replay(case):
    """re-execute one stored case without hypothesis; returns the violation message or None"""
    case = dict(case)
    focus = case.pop('focus', None)
    status, src, rows, fails = judge(case)
    for f, msg in fails:
        if focus is None or f is None or f == focus:
            return msg
    return None


# ---------------------------------------------------------------------------------------------------
# exclusions for OPEN known findings: each is decided on the focused row only and named by root cause
# ---------------------------------------------------------------------------------------------------
def _focus_docs(case):
    docs = case.get('docs', [])
    f = case.get('focus')
    return docs if f is None else [docs[f]]


def _str_key_hits_list(doc, keys):
    """walking doc along keys applies a string key to a list somewhere (Python raises TypeError there)"""
    v = doc
    for k in keys:
        if isinstance(k, str):
            if isinstance(v, list):
                return True
            if isinstance(v, dict) and k in v:
                v = v[k]
            else:
                return False
        else:
            if isinstance(v, list) and -len(v) <= k < len(v):
                v = v[k]
            else:
                return False
    return False


def _x_traverse_typeerror(case, message):
    """sqlite._traverse catches KeyError/IndexError but not the TypeError of list['key']: py_json_contains (both modes)
    and every py_json_extract of the fallback (which also looks up '$.__non_existent_json_attr_name__' first, so any
    top-level array fails) raise instead of treating the path as missing."""
    if case.get('kind') != 'json' or case.get('focus') is not None:
        return False
    if 'list indices must be integers' not in message and 'user-defined function raised exception' not in message:
        return False
    op = case['op']
    paths = [M.path_keys(op)]
    if op['t'] == 'in':
        pass                                                   # py_json_contains(expr, path, key): plain path, both modes
    elif case['mode'] != 'fallback':
        return False
    elif op['t'] not in ('cmp', 'isnone') and paths[0]:
        paths.append(['__non_existent_json_attr_name__'])      # JSON_QUERY: the sentinel path is extracted as well
    return any(_str_key_hits_list(d, keys) for d in case['docs'] for keys in paths)


def _x_json1_negative_index(case, message):
    """SQLBuilder.eval_json_path writes a negative index as [-N]; SQLite's JSON1 only accepts [#-N] and raises
    'JSON path error'. (The py_json_* fallback and PostgreSQL accept [-N].)"""
    return (case.get('kind') == 'json' and case.get('mode') == 'json1' and 'JSON path error near' in message
            and any(isinstance(k, int) and k < 0 for k in M.path_keys(case['op'])))


def _needs_json_escape(s):
    return any(ch in '"\\' or ord(ch) < 0x20 for ch in s)


def _x_key_needs_json_escape(case, message):
    """open finding C29-key-needs-json-escape, narrowed after the repair 5315d40 (keys are now written JSON-escaped and the
    fallback parser decodes them): what remains is JSON1 mode on SQLite older than 3.45, where json_extract() has no path
    syntax for a member name that contains a double quote TOGETHER WITH '.' or '[' (a quoted label ends at the first
    double quote, an unquoted one at the first '.' or '[')."""
    import sqlite3
    if case.get('kind') != 'json' or 'failed:' in message or case.get('mode') != 'json1':
        return False
    if sqlite3.sqlite_version_info >= (3, 45):
        return False
    return any(isinstance(k, str) and '"' in k and ('.' in k or '[' in k) for k in M.path_keys(case['op']))


def _x_float_zero_is_true(case, message):
    """JSON_NONZERO compares the JSON text with ('null','false','0','""','[]','{}'): 0.0 / -0.0 are rendered '0.0' /
    '-0.0' and count as true."""
    if case.get('kind') != 'json' or case['op']['t'] != 'truth' or case.get('focus') is None:
        return False
    v = M.traverse(case['docs'][case['focus']], M.path_keys(case['op']))
    return isinstance(v, float) and v == 0


_CMP_COMPATIBLE = {'str': ('str',), 'bool': ('bool', 'int'), 'int': ('bool', 'int'), 'float': ('bool', 'int', 'float')}


def _x_cmp_casts_other_types(case, message):
    """CmpMonad casts the JSON value to the type of the other operand (JSON_VALUE -> CAST(json_extract(..) AS
    integer|real|text)): a stored value of another JSON type is converted (1.5 -> 1, 'abc' -> 0, 5 -> '5', [] -> '[]')
    instead of comparing unequal."""
    if case.get('kind') != 'json' or case['op']['t'] != 'cmp' or case.get('focus') is None:
        return False
    v = M.traverse(case['docs'][case['focus']], M.path_keys(case['op']))
    return M.tclass(v) not in _CMP_COMPATIBLE[M.tclass(case['op']['val'])]


def _x_array_negative_bound_wraps(case, message):
    """ArrayMixin._index rewrites a negative slice bound b as len(array) - |b| for every dialect; on SQLite, where
    py_array_slice takes Python indexes, a bound below -len(array) becomes another negative index and wraps around
    instead of clamping (a[-5:] of 3 items gives the last 2 items)."""
    if case.get('kind') != 'array' or case['op']['t'] != 'slice' or case.get('focus') is None:
        return False
    row = case['rows'][case['focus']]
    n = len(row[case['op']['attr']])
    for b in ('i', 'j'):
        v = M.array_bound(case['op'][b], row)
        if v is not None and v < -n:
            return True
    return False


def _x_pg_backslash_key(case, message):
    """PGSQLBuilder.eval_json_path escapes only the double quote inside "..."; a backslash in a key is read by
    array_in() as an escape character (or leaves the literal unterminated)."""
    return case.get('kind') == 'pgpath' and any(isinstance(k, str) and '\\' in k for k in case['keys'])


def _x_pg_null_key(case, message):
    """PGSQLBuilder.eval_json_path leaves identifier-like keys unquoted; an unquoted NULL (any case) in an array
    literal is a NULL element, not the string."""
    return case.get('kind') == 'pgpath' and any(isinstance(k, str) and k.upper() == 'NULL' for k in case['keys'])


def _per_part(fn):
    """a query that combines several path operations falls under a finding when one of its operations does"""
    def lifted(case, message):
        if case.get('kind') == 'json' and case['op']['t'] == 'multi':
            return any(fn(dict(case, op=part), message) for part in case['op']['parts'])
        return fn(case, message)
    lifted.__doc__ = fn.__doc__
    return lifted


EXCLUSIONS = {
    'array_negative_bound_wraps': _x_array_negative_bound_wraps,
    'pg_backslash_key': _x_pg_backslash_key,
    'pg_null_key': _x_pg_null_key,
    'traverse_typeerror': _per_part(_x_traverse_typeerror),
    'json1_negative_index': _per_part(_x_json1_negative_index),
    'key_needs_json_escape': _per_part(_x_key_needs_json_escape),
    'float_zero_is_true': _per_part(_x_float_zero_is_true),
    'cmp_casts_other_types': _per_part(_x_cmp_casts_other_types),
}

MANIFEST = {
    'text': 'Hypothesis search on live SQLite in two configurations (JSON1 functions; forced pure-Python py_json_* fallback): '
            'rows of generated JSON documents (nesting <= 3, keys needing every kind of path quoting, all leaf types, empty '
            'containers) or Int/Str/Float arrays, one query operation per case (path projection, comparison with scalars, '
            'is None, key/item membership, len, truthiness; array index/slice/contains/subset/len/truthiness; or two to '
            'three JSON path operations combined with and / or / as a tuple, sharing query variables), operands as '
            'literals or parameters, string-query and generator forms, each row compared with the same operation on the '
            'decoded Python value. PostgreSQL is covered only at the level of the #> path operand: eval_json_path output '
            'decoded by an independent array-literal lexer must give back the key list. Sampled, not exhaustive.',
    'note': 'Trusts Python semantics on json-decoded values, the sandbox SQLite build and the hand-written PostgreSQL '
            'array_in() lexer; PostgreSQL/MySQL/Oracle operators themselves are never executed. Rows where Python itself '
            'raises or Pony documents no meaning (len of a non-array, ordering across types) are not asserted.',
    'technique': 'hypothesis random search against Python evaluation of the decoded value; round trip through an '
                 'independent lexer for the PostgreSQL path text',
}
