"""C16 -- decided by the session interpreter (vlib/sessmachine.py) against the reference store (vlib/refstore.py)."""
from vlib import sesscheck

ID = 'C16'
LEVEL = 'exploration'
RULE = "Same program space as C09 with creations and flushes weighted up (SQLite enforces foreign keys immediately). Oracle: if the reference store's pending new objects reference each other acyclically through columns, flush/commit must not raise a FOREIGN KEY integrity error or UnresolvableCyclicDependency; if they form a cycle, flush must raise and nothing is committed. UNIQUE failures from transient key conflicts are not judged here. Non-trivial = a flush with >=2 pending objects linked to each other or a delete and an insert in one flush; distinct by program hash. A share of the programs (one third; one half for C11/C13/C15) comes from the hub family: every relationship starts at one entity, with cascading/unlinking relationships declared around a refusing one, populated, and then aimed operations (pending updates of children, pending removals on the hub collections, new children with explicit keys) precede the delete of the hub, so that deletes refused after part of their cascade are common."
ASSUMPTIONS = ['live SQLite (in-memory) with foreign keys enforced immediately',
               'reference store vlib/refstore.py written from the documented relationship/cascade/key semantics (DESIGN.md section 7a)',
               'table and column names are taken from the mapping metadata (names only)']
SHARDS = {'quick': 8, 'thorough': 16}
MIN_EVALS = {'quick': 3000, 'thorough': 5000}
PROPS = {'C16'}
WEIGHTS = {'create': 9, 'flush': 4, 'commit': 2, 'set': 5, 'del': 3, 'read': 1}

run = sesscheck.make_run(ID, PROPS, 1000, 8000, weights=WEIGHTS,
                         nontrivial=lambda program, stats: stats.get('op:flush', 0) + stats.get('op:commit', 0) > 0 and stats.get('created', 0) > 2 and bool(program['spec']['rels']))
_replay_session = sesscheck.make_replay(ID, PROPS)
_run_session = run


def run(ctx):
    _run_session(ctx)
    if ctx.violation is not None:
        return
    # write histories over keys that contain references (vlib/nested_hist.py); this check judges the 'flush' category
    from vlib import nested_hist

    def th(case):
        msg = nested_hist.judge(case, 'flush')
        nops = sum(len(s_['ops']) for s_ in case['sessions'])
        ctx.case(key=case, nontrivial=nops >= 4, classes=['nested_hist'], sample={'sessions': [[o[0] for o in s_['ops']] for s_ in case['sessions']]} if nops >= 6 else None)
        if msg:
            ctx.fail(case, msg)
    ctx.run_test(th, dict(case=nested_hist.cases()), max_examples=ctx.scale(200, 2000), name='C16_nested_hist')


def replay(case):
    if case.get('kind') == 'nested_hist':
        from vlib import nested_hist
        return nested_hist.judge(case, 'flush')
    return _replay_session(case)


def _delete_after_pending_update(case, message):
    """history class of the open finding C16-delete-of-updated-object-after-referent-delete: the tag is computed by the
    interpreter from the history alone (flush-window bookkeeping in Harness.modify), not from Pony's behaviour"""
    return 'FOREIGN KEY' in message and '[history: an object with a pending update was deleted after another delete' in message


EXCLUSIONS = {'delete_after_pending_update': _delete_after_pending_update}

MANIFEST = {
    'text': 'Pending-reference graphs of generated histories classified by the reference store (orderable vs cyclic) and compared with flush outcomes under immediately enforced foreign keys.',
    'note': 'SQLite only; trusts the hand-written reference store (rules and sources in DESIGN.md 7a) and hypothesis generation; '
            'explores bounded histories (<= 4 sessions x 10 calls, <= 3 entities) and cannot establish absence.',
    'technique': 'model-based property testing: generated programs interpreted against Pony and an independent reference store',
}
