"""C12 -- decided by the session interpreter (vlib/sessmachine.py) against the reference store (vlib/refstore.py)."""
from vlib import sesscheck

ID = 'C12'
LEVEL = 'exploration'
RULE = 'Same program space as C09 with relationship changes weighted up; after every modifying call both ends of every relationship of every object the session holds are read through the public API and must agree with each other (b in a.coll <=> b.ref is a / a in b.coll; one-to-one mutual; symmetric relations symmetric) and with the single-fact reference store. Non-trivial = a program with at least one relationship assignment or collection change on a non-empty diagram; distinct by program hash. A share of the programs (one third; one half for C11/C13/C15) comes from the hub family: every relationship starts at one entity, with cascading/unlinking relationships declared around a refusing one, populated, and then aimed operations (pending updates of children, pending removals on the hub collections, new children with explicit keys) precede the delete of the hub, so that deletes refused after part of their cascade are common.'
ASSUMPTIONS = ['live SQLite (in-memory) with foreign keys enforced immediately',
               'reference store vlib/refstore.py written from the documented relationship/cascade/key semantics (DESIGN.md section 7a)',
               'table and column names are taken from the mapping metadata (names only)']
SHARDS = {'quick': 8, 'thorough': 16}
MIN_EVALS = {'quick': 2000, 'thorough': 5000}
PROPS = {'C12'}
WEIGHTS = {'cadd': 5, 'crem': 4, 'set': 6, 'setm': 3}

run = sesscheck.make_run(ID, PROPS, 700, 6000, weights=WEIGHTS,
                         nontrivial=lambda program, stats: bool(program['spec']['rels']) and (stats.get('op:cadd', 0) + stats.get('op:crem', 0) + stats.get('op:set', 0) + stats.get('op:setm', 0)) > 0)
replay = sesscheck.make_replay(ID, PROPS)

MANIFEST = {
    'text': "Mutual consistency of both relationship ends (judged on Pony's own answers) plus agreement with a single-fact reference store after every modifying call of generated histories, including data loaded in later sessions.",
    'note': 'SQLite only; trusts the hand-written reference store (rules and sources in DESIGN.md 7a) and hypothesis generation; '
            'explores bounded histories (<= 4 sessions x 10 calls, <= 3 entities) and cannot establish absence.',
    'technique': 'model-based property testing: generated programs interpreted against Pony and an independent reference store',
}
