"""C26 Generated schemas are well formed and match the entity model.

One case = (dialect, entity-diagram spec) -- pure JSON data drawn by vlib.c26_gen (1-4 entities, every pk kind, scalar
attributes with Required/Optional/unique/index/nullable/composite_key/composite_index, every relationship kind incl.
self-references and symmetric ones, inheritance with discriminators, explicit _table_/column(s)/table/reverse_column(s)/
index/fk_name names, long / mixed-case / near-identical names, names with spaces and quotes).

Pony may refuse a diagram with its own diagnostics (OrmError subclasses, TypeError, ValueError, NotImplementedError: counted as
rejected); an internal error escaping class creation / generate_mapping (AssertionError, KeyError, ...) is a violation: the
declaration was neither mapped nor rejected.  Names the declarations spell out (_table_, column(s)=, table=,
reverse_column(s)=, index= / fk_name= of to-one attributes) must be used exactly as declared: the catalog is looked up under the
DECLARED name, so a silently renamed table or column is a violation, and a declared link table that is already taken must be
rejected.

SQLite (live): generate_mapping(create_tables=True) on a fresh file must succeed once Pony accepted the declarations,
PRAGMA table_info/index_list/index_info/foreign_key_list must show exactly the structure the reference derives from the
spec (vlib.c26_model.Reference: column counts, nullability, primary key, unique constraints, indexes, foreign keys, ON
DELETE where cascade_delete is declared), one object per entity is inserted through Pony, and a second Database with
the same declarations bound to the same file passes generate_mapping(check_tables=True).

PostgreSQL / MySQL / Oracle (no server, no driver): the real provider class is bound over stub driver modules with a
mock pool, db.schema.generate_create_script() is tokenized and parsed; the script must parse, all names must be within
the dialect limit and distinct in their namespace after the dialect's case folding, foreign keys must reference an existing
table's key with the same number of columns, objects must be created in a workable order, and the parsed structure must
equal the reference expectation as on SQLite.
"""
import os, sys, json, traceback

from vlib.runner import Violation
from vlib import c26_gen, c26_model as M

ID = 'C26'
LEVEL = 'exploration'
RULE = ('A case is (dialect in sqlite/postgres/mysql/oracle, entity-diagram spec of 1-4 entities) drawn by hypothesis from '
        'vlib.c26_gen.cases (specs satisfy by construction the restrictions EntityMeta/Attribute/Index/_link_reverse_attrs_ '
        'enforce; about 1 in 6 allows colliding names on purpose). Evaluated = materialised with type(name,(db.Entity,),attrs) '
        'and either rejected by Pony (counted in rejected_by_pony) or judged by the oracle. Non-trivial = accepted by Pony AND '
        'the spec has a relationship, a composite key/index/pk, inheritance, an explicit name or a name within 6 characters of '
        'the dialect limit or beyond it. Distinct = distinct canonical JSON of (dialect, spec). A third of the explicit many-to-many '
        'table= names are already taken in the schema on purpose (must be rejected, never renamed); entities with multi-column '
        'primary keys (composite, or one reference to a composite pk) are preferred as ends of many-to-many relationships. '
        'An internal error (AssertionError, KeyError, IndexError, AttributeError, RecursionError ...) escaping class creation or '
        'generate_mapping is a violation, not a rejection.')
ASSUMPTIONS = ['SQLite 3.40 catalog PRAGMAs (table_info, index_list, index_info, foreign_key_list) report the created schema faithfully',
               'the reference rules in vlib/c26_model.py (Reference.holds_columns / notnull / pk_width) transcribe the documented mapping '
               'rules; optional Json/Array defaults, optional strings that are unique or in an index, ON DELETE without an explicit '
               'cascade_delete, and which end of an Optional-Optional one-to-one holds the column are NOT asserted',
               'PostgreSQL/MySQL/Oracle are represented by the DDL text of the real provider classes bound over stub driver modules '
               '(vlib/stubs) with a mock pool; name limits (63/64/30), case folding (MySQL column/index/constraint names '
               'case-insensitive, quoted PostgreSQL/Oracle names case-sensitive) and namespaces are my transcription of the manuals',
               'the DDL parser is cross-validated on every accepted SQLite case: the parsed SQLite script must equal the PRAGMA catalog',
               'exception types treated as a crash rather than a rejection (CRASH_TYPES) are those the mapping code never raises with '
               'throw(...): read from pony/orm/core.py, dbschema.py, dbapiprovider.py']
SHARDS = {'quick': 4, 'thorough': 16}
MIN_EVALS = {'quick': 600, 'thorough': 10000}
CLASS_FLOORS = {'accepted': 0.6, 'dialect:sqlite': 0.2, 'dialect:postgres': 0.1, 'dialect:mysql': 0.1, 'dialect:oracle': 0.1,
                'has:relationship': 0.4, 'has:explicit-name': 0.3,
                'has:link-table-name-taken': 0.01, 'has:m2m-wide-default-columns': 0.03,
                'has:m2m-on-single-reference-wide-pk': 0.005}

_counter = [0]


class Rejected(Exception):
    def __init__(self, stage, exc):
        Exception.__init__(self, '%s: %s: %s' % (stage, type(exc).__name__, exc))
        self.stage = stage
        self.exc = exc


class Crashed(Exception):
    """Pony neither mapped the declarations nor refused them with a diagnostic: an internal error escaped"""
    def __init__(self, stage, exc):
        import traceback as _tb
        frames = _tb.extract_tb(exc.__traceback__)
        where = ''
        for fr in reversed(frames):
            if os.sep + 'pony' + os.sep in fr.filename:
                where = ' at pony/%s:%d in %s (%s)' % (fr.filename.split(os.sep + 'pony' + os.sep)[-1], fr.lineno, fr.name, (fr.line or '').strip())
                break
        self.stage = stage
        self.exc = exc
        self.message = ('%s neither mapped the declarations nor rejected them with a diagnostic: %s%s%s'
                        % (stage, type(exc).__name__, (': %s' % exc) if str(exc) else ' (no message)', where))
        Exception.__init__(self, self.message)


# exception types Pony's mapping code never raises on purpose (checked: throw(...) in core.py/dbschema.py/dbapiprovider.py uses
# OrmError subclasses, TypeError, ValueError, NotImplementedError; the only deliberate AttributeError needs attribute NAMES given
# to composite_key(), which the generator never does).  One of these escaping generate_mapping()/class creation is a crash.
CRASH_TYPES = (AssertionError, KeyError, IndexError, AttributeError, RecursionError, NameError, UnboundLocalError, ZeroDivisionError)


def _classify(stage, e):
    """a refusal by Pony (its own diagnostics) is a rejection; an internal error is a crash (raised as Crashed);
    a database error after Pony accepted is neither (-> None)"""
    from pony.orm.dbapiprovider import DBException
    if isinstance(e, AssertionError) and 'generator bug' in str(e):
        raise e
    if isinstance(e, DBException):
        return None
    if isinstance(e, CRASH_TYPES):
        raise Crashed(stage, e)
    return Rejected(stage, e)


def features(case):
    spec = case['spec']
    limit = c26_gen.LIMITS[case['dialect']]
    if case['dialect'] == 'sqlite':
        limit = 63
    f = set()
    names = []
    for e in spec['entities']:
        names.append(e['name'])
        if e['bases']:
            f.add('has:inheritance')
        if len(e['bases']) > 1:
            f.add('has:diamond')
        if e['table'] is not None:
            f.add('has:explicit-name')
            names.extend(e['table'] if isinstance(e['table'], list) else [e['table']])
            if isinstance(e['table'], list):
                f.add('has:qualified-table')
        if e['pk']:
            f.add('has:composite-pk')
        if e['keys']:
            f.add('has:composite-key')
        if e['indexes']:
            f.add('has:composite-index')
        for a in e['attrs']:
            names.append(a['name'])
            o = a['opts']
            if a['type'].startswith('E:'):
                f.add('has:relationship')
                if a['cls'] == 'Set':
                    f.add('has:set')
                if a['type'][2:] == e['name']:
                    f.add('has:self-reference')
                if o.get('reverse') == a['name']:
                    f.add('has:symmetric')
                if a['cls'] == 'PrimaryKey' or (e['pk'] and a['name'] in e['pk']):
                    f.add('has:pk-reference')
            if a['cls'] == 'Discriminator':
                f.add('has:discriminator-attr')
            for k in ('column', 'columns', 'table', 'reverse_column', 'reverse_columns', 'fk_name', 'reverse_fk_name', 'reverse_index'):
                if k in o:
                    f.add('has:explicit-name')
                    v = o[k]
                    names.extend(v if isinstance(v, list) else [v])
            if isinstance(o.get('index'), str):
                f.add('has:explicit-name')
                names.append(o['index'])
            if o.get('unique'):
                f.add('has:unique')
            if o.get('index'):
                f.add('has:index')
            if 'cascade_delete' in o:
                f.add('has:cascade_delete')
    # many-to-many shapes worth counting: a declared link-table name that is already taken, and link-table halves that
    # span several columns with default names (esp. when the owner's pk is ONE reference to a multi-column pk)
    ref = M.Reference(spec, case['dialect'])
    taken = {}
    for e in spec['entities']:
        if isinstance(e['table'], str):
            taken[e['table']] = taken.get(e['table'], 0) + 1
        elif e['table'] is None and not e['bases']:
            # default table name of the entity under the dialect's convention (only used to classify generated cases and to
            # recognise the root cause of an open finding, never by the oracle)
            n = e['name']
            guess = {'sqlite': n, 'postgres': n.lower(), 'mysql': n.lower(), 'oracle': n.upper()}[case['dialect']]
            taken.setdefault(guess[:c26_gen.LIMITS[case['dialect']]], 1)
    link = {}
    for e in spec['entities']:
        for a in e['attrs']:
            if a['cls'] != 'Set':
                continue
            try:
                rn, r = ref.reverse_of(e['name'], a)
            except AssertionError:
                continue
            if r['cls'] != 'Set':
                continue
            f.add('has:m2m')
            t = a['opts'].get('table')
            if isinstance(t, str):
                key = tuple(sorted([(e['name'], a['name']), (rn, r['name'])]))
                link.setdefault(t, set()).add(key)
            w = ref.pk_width(e['name'])
            other_names_my_side = r['opts'].get('columns') or r['opts'].get('column') or (r is a and (a['opts'].get('columns') or a['opts'].get('column')))
            if w > 1 and not other_names_my_side:
                f.add('has:m2m-wide-default-columns')
                pk = ref.pk_attrs(ref.root(e['name']))
                if len(pk) == 1 and pk[0][1] is not None and pk[0][1]['type'].startswith('E:'):
                    f.add('has:m2m-on-single-reference-wide-pk')
    for t, rels in link.items():
        if t in taken or len(rels) > 1:
            f.add('has:link-table-name-taken')
    if any(len(n) >= limit - 6 for n in names):
        f.add('has:long-name')
    if any(not n.replace('_', 'a').isalnum() for n in names):
        f.add('has:odd-name')
    return f


def run_case(case, workdir):
    """-> (status, violations, info): status 'accepted' / 'crashed'; violations = [(tag, message)]; raises Rejected"""
    dialect = case['dialect']
    spec = case['spec']
    ref = M.Reference(spec, dialect)
    try:
        if dialect == 'sqlite':
            return _run_sqlite(ref, spec, workdir)
        return _run_ddl(ref, spec, dialect)
    except Crashed as c:
        return 'crashed', [('mapping:internal-error', c.message)], {}
    except Rejected as r:
        unfounded = _unfounded_rejection(case, r)
        if unfounded is None:
            raise
        return 'refused-without-ground', [unfounded], {}


def _unfounded_rejection(case, r):
    """A rejection is Pony's right, but its stated ground can be checked against the spec: when Pony refuses the declarations
    because some name 'is too long', the spec has to spell out a name longer than the dialect limit (my table: 63/64/30, 1024
    for SQLite as pony documents).  Default names are Pony's own product and have to fit; a name that uses the limit exactly fits."""
    text = str(r.exc)
    if 'too long' not in text.lower():
        return None
    limit = M.NAME_LIMIT.get(case['dialect'], 1024)
    longest = max([len(n) for n in explicit_names(case)] or [0])
    if longest > limit:
        return None
    return ('rejection:name-not-too-long',
            '%s refused the declarations with %s: %s -- but no declared name is longer than the %d characters %s allows (longest '
            'explicit name: %d characters); default names are generated by Pony and a name of exactly %d characters fits'
            % (r.stage, type(r.exc).__name__, text[:300], limit, case['dialect'], longest, limit))


def _define(spec, db):
    try:
        return M.materialise(spec, db)
    except Exception as e:
        r = _classify('class definition', e)
        if r is None:
            raise
        raise r


def _run_sqlite(ref, spec, workdir):
    from pony.orm import Database
    _counter[0] += 1
    path = os.path.join(workdir, 'c26_%d_%d.sqlite' % (os.getpid(), _counter[0]))
    if os.path.exists(path):
        os.remove(path)
    info = {}
    vio = []
    db = Database()
    db2 = None
    try:
        classes = _define(spec, db)
        db.bind('sqlite', path, create_db=True)
        try:
            db.generate_mapping(create_tables=True)
        except Exception as e:
            r = _classify('generate_mapping', e)
            if r is not None:
                raise r
            backend = 'creating the tables failed on SQLite with %s: %s' % (type(e).__name__, e)
            # explain the failure from the script Pony printed, so that the report names the root cause
            try:
                explained = M.ddl_wellformed(M.parse_ddl(db.schema.generate_create_script(), '"'), 'sqlite')
            except M.DDLError as pe:
                explained = [('malformed:parse', 'the SQLite DDL script cannot be parsed: %s' % pe)]
            if not any(k in str(e).lower() for k in ('duplicate', 'already')):
                explained = []       # only a backend complaint about clashing names is explained by a name clash in the script
            for tag, message in explained:
                vio.append((tag, '%s; %s' % (message, backend)))
            if not explained:
                vio.append(('create-tables:backend-error', 'Pony accepted the declarations but ' + backend))
            return 'accepted', vio, info
        cat = M.sqlite_catalog(path)
        vio.extend(M.compare(ref, classes, cat, 'sqlite'))
        # trust control for the DDL parser: the script Pony prints for SQLite, parsed, must describe the same schema as the PRAGMAs
        _cross_validate(db.schema.generate_create_script(), cat)
        if not vio:
            try:
                counts, skipped = M.insert_rows(ref, classes, db)
                info['inserted'] = sum(counts.values())
                info['insert_skipped'] = len(skipped)
                import sqlite3
                con = sqlite3.connect(path)
                try:
                    for t, n in sorted(counts.items()):
                        got = con.execute('select count(*) from %s' % M.q(t)).fetchone()[0]
                        if got != n:
                            vio.append(('insert:rows', 'created %d object(s) mapped to table %r through Pony, the table holds %d row(s)'
                                        % (n, t, got)))
                finally:
                    con.close()
            except Exception as e:
                if isinstance(e, AssertionError) and 'generator bug' in str(e):
                    raise
                vio.append(('insert:error', 'inserting one object per entity through Pony failed on the created schema: %s: %s'
                            % (type(e).__name__, e)))
        db2 = Database()
        try:
            M.materialise(spec, db2)
            db2.bind('sqlite', path)
            db2.generate_mapping(check_tables=True, create_tables=False)
        except Exception as e:
            vio.append(('check-tables', 'a second Database with the same declarations bound to the created file fails '
                        'generate_mapping(check_tables=True): %s: %s' % (type(e).__name__, e)))
        return 'accepted', vio, info
    finally:
        for d in (db, db2):
            if d is not None and d.provider is not None:
                try:
                    d.disconnect()
                except Exception:
                    pass
        if os.path.exists(path):
            os.remove(path)


def _norm_cat(cat):
    out = {}
    for t, tab in cat['tables'].items():
        t = M._tkey(t, 'sqlite')
        out[t] = {
            'columns': [(c['name'], bool(c['notnull']), c['pk']) for c in tab['columns']],
            'pk': list(tab['pk']),
            'uniques': sorted(tuple(u['cols']) for u in tab['uniques']),
            'indexes': sorted(tuple(i['cols']) for i in tab['indexes']),
            'fks': sorted((tuple(f['cols']), M._tkey(f['ref_table'], 'sqlite'), tuple(f['ref_cols']), f['on_delete']) for f in tab['fks']),
        }
    return out


def _cross_validate(script, pragma_cat):
    parsed = M.parse_ddl(script, '"')
    a, b = _norm_cat(parsed), _norm_cat(pragma_cat)
    if a != b:
        for t in sorted(set(a) | set(b), key=str):
            if a.get(t) != b.get(t):
                raise AssertionError('harness: DDL parser and SQLite PRAGMAs disagree on table %r:\nparsed  %r\npragmas %r\nscript:\n%s'
                                     % (t, a.get(t), b.get(t), script))


_providers = {}


def _provider(dialect):
    if dialect not in _providers:
        _providers[dialect] = M.provider_class(dialect)
    return _providers[dialect]


def _run_ddl(ref, spec, dialect):
    from pony.orm import Database
    P = _provider(dialect)
    info = {}
    vio = []
    db = Database()
    classes = _define(spec, db)
    try:
        db.bind(P, pony_pool_mockup=M.MockPool(dialect))
        db.generate_mapping(check_tables=False, create_tables=False)
    except Exception as e:
        r = _classify('generate_mapping', e)
        if r is None:
            raise
        raise r
    script = db.schema.generate_create_script()
    info['script_len'] = len(script)
    try:
        cat = M.parse_ddl(script, M.QUOTE[dialect])
    except M.DDLError as e:
        vio.append(('malformed:parse', 'the %s DDL script Pony generated for accepted declarations cannot be parsed: %s' % (dialect, e)))
        return 'accepted', vio, info
    vio.extend(M.ddl_wellformed(cat, dialect))
    vio.extend(M.compare(ref, classes, cat, dialect))
    return 'accepted', vio, info


def _msg(tag, message, dialect):
    return '[%s] %s: %s' % (tag, dialect, message)


def run(ctx):
    from hypothesis import strategies as st

    def t(case):
        f = features(case)
        classes = ['dialect:' + case['dialect']] + sorted(f)
        try:
            status, vio, info = run_case(case, ctx.workdir)
        except Rejected as r:
            ctx.rejected += 1
            kind = type(r.exc).__name__
            ctx.case(key=case, nontrivial=False, classes=classes + ['rejected', 'rejected:%s:%s' % (r.stage, kind)])
            return
        nontrivial = bool(f & {'has:relationship', 'has:composite-pk', 'has:composite-key', 'has:composite-index',
                               'has:inheritance', 'has:explicit-name', 'has:long-name'})
        sample = None
        if nontrivial and len(ctx.samples) < 6:
            sample = {'dialect': case['dialect'], 'entities': [_describe(e) for e in case['spec']['entities']]}
        ctx.case(key=case, nontrivial=nontrivial, classes=classes + [status] + (['inserted'] if info.get('inserted') else []),
                 sample=sample)
        for tag, message in vio:
            ctx.fail(case, _msg(tag, message, case['dialect']))

    ctx.run_test(t, dict(case=c26_gen.cases()), max_examples=ctx.scale(260, 2000), name='schemas')


def _describe(e):
    """compact human-readable form of an entity spec for evidence samples"""
    parts = []
    for a in e['attrs']:
        opts = ', '.join('%s=%r' % kv for kv in sorted(a['opts'].items()))
        parts.append('%s = %s(%s%s)' % (a['name'][:40], a['cls'], a['type'], (', ' + opts[:120]) if opts else ''))
    head = 'class %s(%s)' % (e['name'][:40], ', '.join(e['bases']) or 'db.Entity')
    extra = {k: e[k] for k in ('table', 'pk', 'keys', 'indexes', 'disc_value') if e[k]}
    return {'class': head, 'attrs': parts, 'options': extra}


def replay(case):
    """re-run one stored case without hypothesis; returns the first violation message or None"""
    import tempfile, shutil
    home = os.environ.get('VERIF_HOME') or os.path.dirname(os.path.dirname(os.path.abspath(__file__)))
    root = os.path.join(home, '.work')
    os.makedirs(root, exist_ok=True)
    workdir = tempfile.mkdtemp(prefix='c26replay_', dir=root)
    try:
        try:
            status, vio, info = run_case(case, workdir)
        except Rejected:
            return None
        if vio:
            return _msg(vio[0][0], vio[0][1], case['dialect'])
        return None
    finally:
        shutil.rmtree(workdir, ignore_errors=True)
        try:
            os.rmdir(root)
        except OSError:
            pass


# ---------------------------------------------------------------------------------------------------------------------
# exclusions for open known findings (each names one root cause in pony; see known_findings.json)
# ---------------------------------------------------------------------------------------------------------------------
import re as _re

_TAG = _re.compile(r'^\[([^\]]+)\] (\w+): ')


def _tag(message):
    m = _TAG.match(message)
    return (m.group(1), m.group(2)) if m else (None, None)


def explicit_names(case):
    """every name the declarations spell out themselves (pony passes these through unchanged)"""
    out = set()
    for e in case['spec']['entities']:
        if e['table'] is not None:
            out.update(e['table'] if isinstance(e['table'], list) else [e['table']])
        for a in e['attrs']:
            o = a['opts']
            for k in ('column', 'columns', 'table', 'reverse_column', 'reverse_columns', 'fk_name', 'reverse_fk_name',
                      'reverse_index', 'index'):
                v = o.get(k)
                if isinstance(v, str):
                    out.add(v)
                elif isinstance(v, list):
                    out.update(v)
    return out


def _limit(case):
    return M.NAME_LIMIT.get(case['dialect'])


def _is_explicit_name_too_long(case, message):
    """open finding C26-explicit-name-too-long: a name given explicitly (_table_, table=, column(s)=, reverse_column(s)=,
    index='..', fk_name=) that is longer than provider.max_name_len is accepted by generate_mapping and copied into the DDL;
    only generated default names go through provider.normalize_name()."""
    tag, dialect = _tag(message)
    limit = _limit(case)
    if limit is None or not tag or not tag.startswith('name-too-long:'):
        return False
    for n in explicit_names(case):
        if len(n) > limit and (repr(n) in message or repr(n + '_2') in message):     # '_2': default reverse column of a symmetric Set
            return True
    return False


def _is_oracle_sequence_trigger_name(case, message):
    """open finding C26-oracle-sequence-trigger-name-length: OraSequence / OraTrigger name their objects <table>_SEQ / <table>_BI
    without provider.normalize_name(), so a table name of 27..30 characters (default or explicit) gives a 31..34 character
    sequence / trigger name although OraProvider.max_name_len is 30."""
    tag, dialect = _tag(message)
    return dialect == 'oracle' and tag in ('name-too-long:sequence', 'name-too-long:trigger')


def _is_suffix_after_normalize(case, message):
    """open finding C26-suffix-after-normalize: the '_2' suffix of the second column set of a self-referencing many-to-many
    link table (Set.get_m2m_columns) and the '_<n>' suffix that makes a default link-table name unique (generate_mapping)
    are appended AFTER provider.normalize_name() truncated the name, so the result can exceed max_name_len."""
    tag, dialect = _tag(message)
    limit = _limit(case)
    if limit is None or tag not in ('name-too-long:column', 'name-too-long:table'):
        return False
    m = _re.search(r"name '([^']*)'", message)
    if not m:
        return False
    name = m.group(1)
    sm = _re.search(r'_(\d+)$', name)
    if not sm or name in explicit_names(case):
        return False
    return len(name) > limit and len(name) - len(sm.group(0)) <= limit


def _is_sqlite_qualified_table_name(case, message):
    """open finding C26-sqlite-qualified-table-name: with a schema-qualified table name (_table_ = (db_name, name) or
    table=(db_name, name)) SQLiteSchema emits REFERENCES "main"."T" (...) and CREATE INDEX "i" ON "main"."T" (...), which
    SQLite's grammar does not allow (the parent table / indexed table must be unqualified)."""
    tag, dialect = _tag(message)
    if dialect != 'sqlite' or tag != 'create-tables:backend-error' or 'near ".": syntax error' not in message:
        return False
    for e in case['spec']['entities']:
        if isinstance(e['table'], list):
            return True
        for a in e['attrs']:
            if isinstance(a['opts'].get('table'), list):
                return True
    return False


def _is_names_differ_only_by_case(case, message):
    """open finding C26-names-differ-only-by-case: the schema bookkeeping (dbschema.Table.column_dict, DBSchema.names) is keyed
    case-sensitively, so two columns of one table (attributes `name` and `Name`, or column='NAME' next to attribute `name`), or an
    index and a table (table='col' and index='Col'), whose names differ only in letter case are accepted by generate_mapping;
    SQLite and MySQL compare these names case-insensitively and refuse the DDL ('duplicate column name', 'there is already a
    table named ...').  Only collisions between two DIFFERENT spellings are excluded; the same spelling twice is not."""
    tag, dialect = _tag(message)
    return dialect in ('sqlite', 'mysql') and bool(tag) and tag.startswith('duplicate-name:') and tag.endswith(':case-only')


def _is_oracle_qualified_sequence_name(case, message):
    """open finding C26-oracle-qualified-sequence-name: for a schema-qualified table name (owner, table) OraSequence builds the
    sequence name from table_name[0] (the OWNER) instead of table_name[-1]: every auto-pk table of one owner gets the sequence
    (owner, owner + '_SEQ'), so two such tables collide (and the name has nothing to do with the table)."""
    tag, dialect = _tag(message)
    if dialect != 'oracle' or not tag or not tag.startswith('duplicate-name:sequence'):
        return False
    owners = set()
    for e in case['spec']['entities']:
        if isinstance(e['table'], list):
            owners.add(e['table'][0])
    return any(repr((o, o + '_SEQ')) in message for o in owners)


def _is_default_schema_qualified_duplicate(case, message):
    """open finding C26-default-schema-qualified-duplicate: DBSchema.tables / DBSchema.names are keyed by the table name as
    written, so a table declared as (default_schema, 'x') (e.g. _table_ = ('public', 'x') on PostgreSQL) and another table
    whose plain name is 'x' (default name of entity X, or _table_ = 'x') are taken for two tables although the server resolves
    both to the same one; generate_mapping accepts and the second CREATE TABLE fails."""
    tag, dialect = _tag(message)
    if tag != 'duplicate-name:table':
        return False
    default_schema = {'postgres': 'public', 'mysql': 'testdb', 'oracle': 'SCOTT', 'sqlite': 'main'}.get(dialect)
    qualified = []
    for e in case['spec']['entities']:
        if isinstance(e['table'], list):
            qualified.append(tuple(e['table']))
        for a in e['attrs']:
            if isinstance(a['opts'].get('table'), list):
                qualified.append(tuple(a['opts']['table']))
    for (sch, name) in qualified:
        if sch == default_schema and ('table %r ' % ((sch, name),)) in message + ' ' and ('table %r ' % (name,)) in message + ' ':
            return True
    return False


def _is_fk_name_ignored(case, message):
    """open finding C26-fk-name-ignored: generate_mapping names the foreign key of a to-one attribute after attr.reverse.fk_name
    (core.py, "table.add_foreign_key(attr.reverse.fk_name, ...)") although Attribute.linked() forbids fk_name on the Set end and
    tells the user to put it on the to-one attribute: fk_name= on a Required/Optional relationship attribute is silently ignored
    and the constraint gets the default name."""
    tag, dialect = _tag(message)
    return tag == 'explicit-name:fk'


def _is_link_table_name_of_later_entity(case, message):
    """open finding C26-link-table-name-of-later-entity: an explicit many-to-many table= name equal to the table name of an entity
    that generate_mapping processes AFTER the relationship is not reported as 'Table name ... is already in use' (that test only
    sees tables added earlier): the entity is then pushed onto the link table through Table.add_entity(), which dies with a bare
    AssertionError (assert '_table_options_' not in entity.__dict__)."""
    tag, dialect = _tag(message)
    return (tag == 'mapping:internal-error' and 'in add_entity' in message and '_table_options_' in message
            and 'has:link-table-name-taken' in features(case))


def _is_oracle_truncated_sequence_trigger_collision(case, message):
    """open finding C26-oracle-truncated-sequence-trigger-collision: OraSequence / OraTrigger truncate the table name to make room
    for the _SEQ / _BI suffix (fix 9816ebe) but nothing checks the result for uniqueness: two distinct table names of 27..30
    characters that share their first 26 (27) characters get the SAME sequence (trigger) name; generate_mapping accepts, the
    script creates the sequence twice (create_tables would silently skip the second sequence and trigger as 'already existing')."""
    tag, dialect = _tag(message)
    if dialect != 'oracle' or tag not in ('duplicate-name:sequence', 'duplicate-name:trigger'):
        return False
    m = _re.search(r"(?:sequence|trigger) \(?(?:'[^']*', )?'([^']*)'\)? collides", message)
    return bool(m) and len(m.group(1)) == M.NAME_LIMIT['oracle'] and m.group(1).endswith(('_SEQ', '_BI'))


EXCLUSIONS = {
    'oracle_truncated_sequence_trigger_collision': _is_oracle_truncated_sequence_trigger_collision,
    'fk_name_ignored': _is_fk_name_ignored,
    'link_table_name_of_later_entity': _is_link_table_name_of_later_entity,
    'default_schema_qualified_duplicate': _is_default_schema_qualified_duplicate,
    'names_differ_only_by_case': _is_names_differ_only_by_case,
    'oracle_qualified_sequence_name': _is_oracle_qualified_sequence_name,
    'explicit_name_too_long': _is_explicit_name_too_long,
    'oracle_sequence_trigger_name': _is_oracle_sequence_trigger_name,
    'suffix_after_normalize': _is_suffix_after_normalize,
    'sqlite_qualified_table_name': _is_sqlite_qualified_table_name,
}

MANIFEST = {
    'text': 'Hypothesis draws entity diagrams (1-4 entities; every primary-key kind; scalar attributes with unique/index/nullable/'
            'composite keys and indexes; 1-1, 1-n, n-n, self and symmetric relationships; inheritance with discriminators; explicit '
            'table/column/index/fk names; long, mixed-case, near-identical, quoted and spaced names) for SQLite, PostgreSQL, MySQL '
            'and Oracle. On SQLite the tables are really created and PRAGMA introspection is compared with a reference computed '
            'from the spec alone (columns, nullability, pk, unique, indexes, foreign keys, ON DELETE), a row per entity is inserted '
            'through Pony and a second Database passes check_tables. For the other dialects the real provider emits its DDL over '
            'stub drivers and a parser checks name limits, name uniqueness per namespace, foreign-key targets, creation order and '
            'the same structural expectation. Names the declarations spell out must be used exactly as declared (a silently renamed '
            'link table is a violation; a declared link-table name that is already taken must be rejected), and an internal error '
            '(AssertionError, KeyError, ...) escaping generate_mapping counts as a violation, not as a rejection. Sampled, not exhaustive.',
    'note': 'No PostgreSQL/MySQL/Oracle server exists in the sandbox: their DDL is parsed, not executed; limits, case folding and '
            'namespaces are transcribed from the manuals. Column types and DEFAULT clauses are not checked. Defaults Pony does not '
            'document (optional Json/array NOT NULL, nullable keyed optional strings, ON DELETE without cascade_delete) are not asserted.',
    'technique': 'hypothesis-generated entity diagrams; catalog introspection (SQLite) / DDL parsing (other dialects) against a spec-derived reference model',
}
