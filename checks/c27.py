"""C27 Objects keep their class and polymorphic queries are exact.

One case = an inheritance hierarchy given as pure data (chain / tree / diamond, 2..7 classes, implicit `classtype` /
explicit str / explicit int Discriminator, default and custom `_discriminator_` values incl. values that are the NAME of
another class, attributes at several levels, int or str primary key, optional `_table_`), materialised with
type(name, bases, attrs) on a fresh SQLite Database together with an entity Holder that has to-one (many-to-one, one-to-one
with the FK on either side) and to-many (one-to-many, many-to-many) relationships typed to arbitrary classes of the
hierarchy; 0..3 objects of every class linked from Holder objects; and a read program of 1..3 LATER db_sessions (a quarter
of the cases: through a second Database object bound to the same file) whose operations meet the objects by different paths
in a generated order.

Oracle (vlib/c27_model.Model, no Pony involved): the plain record of which class created which pk.
"""
import os, shutil, tempfile
from vlib import c27_model as M
from vlib.runner import HOME

ID = 'C27'
LEVEL = 'exploration'
RULE = ('hypothesis: hierarchy spec (2..7 classes; chain/tree/diamond; implicit, str or int discriminator; default/custom '
        '_discriminator_ values; attributes at several levels; int/str pk) + Holder with 1..4 relationships '
        '(many-to-one, one-to-one, one-to-many, many-to-many) typed to any class + 0..3 objects per class + links + '
        '1..3 later db_sessions of 1..6 read operations (Holder load first in half of them, so that referenced objects '
        'exist as base-class stubs before they are met by another path): C[pk], C.get(pk), C.get(attr=v), '
        'C.get(reverse=holder), select over C (3 forms), select_by_sql (full / pk+discriminator only), navigation from '
        'Holder (to-one; to-many by iteration/copy/select), queries with [not] isinstance(x, C | (C1, C2, ..)) on the '
        'iterated entity, on a to-one reference and on collection items, subclass-attribute filter/projection in a '
        'base-class query, attribute filter through a reference, related objects as query results, '
        'C.select_random(n) / C.select().random(n) for n in 1..3 on root and non-root classes (int pks optionally sparse, '
        'step 2 or 5, so that MAX(id) exceeds 2n; the `random` module is seeded per operation for replay), tuple queries '
        'with two entity columns (h.id, h.rA, h.rB) (often of the same declared type), 0..2 extra entities K<j> whose primary '
        'key is a reference to a hierarchy class (PrimaryKey(T)) or contains one ((ref, n)) and whose rows are loaded '
        'before the target is reached through the key attribute, and Holder objects / lists of Holders / lists of '
        'hierarchy objects pickled while their references are unloaded and unpickled in a later session, the '
        'references then being navigated through the unpickled object. On every object '
        'reached the FIRST look is, per case, at type(), at to_dict() or at an attribute only the subclass has (an '
        'unloaded base-class stub is repaired by the first base-attribute read); afterwards type, all attributes and '
        'to_dict() are compared with the creation record. One case = one spec; '
        'non-trivial = during the read program at least one object created as a strict subclass was met through a path '
        'declared for a strict ancestor (measured, not assumed); distinct by hash of the whole spec.')
ASSUMPTIONS = ['SQLite (sandbox build) live through pony.orm.dbproviders.sqlite; other providers share core.py and '
               'sqltranslation.py for everything asserted here',
               'Python type()/issubclass over the generated class graph is the reference',
               'documented defaults: Optional(str) in the root reads back "" when omitted, None in subclasses (nullable)',
               'isinstance(None, C) is False in Python, so a Holder whose reference is None must not match '
               '`isinstance(h.ref, C)` and must match `not isinstance(h.ref, C)`']
SHARDS = {'quick': 4, 'thorough': 16}
MIN_EVALS = {'quick': 500, 'thorough': 20000}
CLASS_FLOORS = {'shape:diamond': 0.15, 'shape:chain': 0.10, 'discr:int': 0.08, 'custom_discr': 0.20,
                'stub_first_session': 0.25, 'isinstance_query': 0.15, 'subclass_attr_query': 0.03, 'reopen': 0.10,
                'select_random_nonroot': 0.05, 'observe:dict': 0.10, 'observe:subattr': 0.10, 'sparse_pk': 0.10,
                'keyref_navigation': 0.03, 'tuple_two_columns_same_type': 0.015, 'unpickled': 0.15}


def _classes(spec, model, stats):
    out = ['shape:' + model.shape(), 'discr:' + spec['discr']['mode'], 'pk:' + spec['pk']['type']]
    if any(c['disc'] is not None and c['disc'] != c['name'] for c in spec['classes']) and spec['discr']['mode'] != 'int':
        out.append('custom_discr')
    names = set(c['name'] for c in spec['classes'])
    if any(c['disc'] in names and c['disc'] != c['name'] for c in spec['classes'] if isinstance(c['disc'], str)):
        out.append('discr_is_other_class_name')
    if spec.get('reopen'):
        out.append('reopen')
    if any(ops and ops[0][0] in ('holder', 'holders') and len(ops) > 1 for ops in spec['sessions']):
        out.append('stub_first_session')
    if stats.get('isinstance_queries'):
        out.append('isinstance_query')
    if stats.get('subclass_attr_queries'):
        out.append('subclass_attr_query')
    if stats.get('not_instance_lookups'):
        out.append('lookup_in_wrong_class')
    if stats.get('random_nonroot'):
        out.append('select_random_nonroot')
    if stats.get('to_dict_checks'):
        out.append('to_dict')
    out.append('observe:' + spec.get('observe', 'type'))
    if stats.get('keyref_navigations'):
        out.append('keyref_navigation')
    if stats.get('pair_same_type'):
        out.append('tuple_two_columns_same_type')
    if stats.get('unpickled'):
        out.append('unpickled')
    if spec.get('pk_step', 1) > 1:
        out.append('sparse_pk')
    for r in spec['refs']:
        out.append('ref:' + r['kind'])
    return sorted(set(out))


def run(ctx):
    def t(spec):
        stats = {}

        def report(focus, message):
            return ctx.fail(dict(spec, focus=focus), message)
        try:
            model = M.execute(spec, ctx.workdir, report, stats)
        except M.Rejected as e:
            ctx.rejected += 1
            ctx.extra.setdefault('first_rejection', str(e)[:300])
            return
        nt = stats.get('met_subclass_via_base', 0) > 0
        sample = None
        if nt:
            sample = {'classes': ['%s(%s)%s' % (c['name'], ','.join(spec['classes'][b]['name'] for b in c['bases']),
                                                '' if c['disc'] is None else '=%r' % (c['disc'],))
                                  for c in spec['classes']],
                      'discr': spec['discr']['mode'], 'objects': [spec['classes'][o['cls']]['name'] for o in spec['objects']],
                      'refs': ['%s->%s' % (r['kind'], spec['classes'][r['target']]['name']) for r in spec['refs']],
                      'sessions': spec['sessions'], 'met_subclass_via_base': stats.get('met_subclass_via_base', 0)}
        ctx.case(key=spec, nontrivial=nt, classes=_classes(spec, model, stats), sample=sample)

    ctx.run_test(t, dict(spec=M.spec_strategy()), max_examples=ctx.scale(250, 2000), name='hierarchies')
    total = ctx.evaluations + ctx.rejected
    if total and ctx.rejected > 0.05 * total:
        raise RuntimeError('generator health: Pony rejected %d of %d generated hierarchies (first: %s)'
                           % (ctx.rejected, total, ctx.extra.get('first_rejection')))


def replay(case):
    """re-execute one stored spec without hypothesis; first mismatch message or None"""
    spec = dict(case)
    spec.pop('focus', None)
    workdir = None
    if spec.get('reopen'):                 # only the two-Database variant needs a file
        root = os.path.join(HOME, '.work')
        os.makedirs(root, exist_ok=True)
        workdir = tempfile.mkdtemp(prefix='c27replay_', dir=root)

    def report(focus, message):
        raise M.Stop(message)
    try:
        M.execute(spec, workdir, report, {})
    except M.Stop as s:
        return s.message
    except M.Rejected:
        return None
    finally:
        if workdir:
            shutil.rmtree(workdir, ignore_errors=True)
    return None


# ------------------------------------------------------------------------------------------------------------------
# predicates for OPEN known findings (each named by root cause; `focus` carries facts computed by the oracle)
# ------------------------------------------------------------------------------------------------------------------
def _focus_model(case):
    spec = dict(case)
    focus = spec.pop('focus')
    return focus, M.Model(spec)


def _isinstance_related_wrong_table(case, message):
    """FuncIsinstanceMonad.call takes the table alias from obj.tableref.make_join(pk_only=True).  For a reference whose
    foreign key lives in the referring table (many-to-one, one-to-one with the column on that side) that alias is the
    REFERRING table, for a many-to-many collection item it is the intermediate table: the discriminator column does not
    exist there and the query dies with `no such column`.  Only reached when the class test is not constant, i.e. classinfo
    names strict subclasses of the declared type and no ancestor-or-self of it."""
    focus, m = _focus_model(case)
    if focus['kind'] not in ('isinst_rel', 'isinst_coll') or focus.get('mismatch') != 'exception':
        return False
    if focus.get('exc') != 'OperationalError' or 'no such column' not in focus.get('exc_text', ''):
        return False
    k, cs = focus['args'][0], focus['args'][1]
    r = m.spec['refs'][k]
    if not (r['kind'] in ('one', 'm2m') or (r['kind'] == 'o2o' and r['fk'] == 'holder')):
        return False
    t = r['target']
    cs = [c for c in cs if c != -1]
    if any(t in m.sub[c] for c in cs):
        return False                       # constant TRUE branch: no discriminator test is emitted
    return any(m.sub[c] & (m.sub[t] - {t}) for c in cs)


def _none_reference_only(focus):
    if focus['kind'] != 'isinst_rel' or focus.get('mismatch') != 'result':
        return False
    got, exp, none_refs = focus['got'], focus['expected'], focus['none_refs']
    if len(set(got)) != len(got):
        return False
    diff = set(got) ^ set(exp)
    return bool(diff) and diff <= set(none_refs)          # only holders whose reference is None differ


def _isinstance_declared_type_none_reference(case, message):
    """FuncIsinstanceMonad.call: when classinfo contains the declared type of the reference (or an ancestor) the test is
    translated to the constant 1 = 1 without regard to the reference being None.  Python: isinstance(None, C) is False,
    so `isinstance(h.ref, C)` must skip and `not isinstance(h.ref, C)` must return the holders without a reference."""
    focus, m = _focus_model(case)
    if not _none_reference_only(focus):
        return False
    k, cs = focus['args'][0], [c for c in focus['args'][1] if c != -1]
    t = m.spec['refs'][k]['target']
    return any(t in m.sub[c] for c in cs)


def _not_isinstance_none_reference(case, message):
    """FuncIsinstanceMonad.call, non-constant branch: `not isinstance(h.ref, Sub)` becomes NOT (discriminator IN (...)) over
    an inner join (or NULL for an outer join), which is never true for a holder whose reference is None."""
    focus, m = _focus_model(case)
    if not _none_reference_only(focus):
        return False
    k, cs, neg = focus['args'][0], [c for c in focus['args'][1] if c != -1], focus['args'][2]
    t = m.spec['refs'][k]['target']
    if not neg or any(t in m.sub[c] for c in cs):
        return False
    return any(m.sub[c] & (m.sub[t] - {t}) for c in cs)


def _diamond_sibling_stub_lookup(case, message):
    """EntityMeta._find_in_cache_: when the identity map holds an unloaded stub typed S (from a reference typed S) and
    C[pk] / C.get(pk) is asked for a class C that is neither an ancestor nor a descendant of S, ObjectNotFound is raised
    without loading -- wrong when the real class inherits from both S and C (diamond)."""
    focus, m = _focus_model(case)
    if focus['kind'] not in ('get', 'getk') or focus.get('mismatch') != 'not_found':
        return False
    c, o = focus['args'][0], focus['args'][1]
    kcls = m.objs[o]['cls']
    for k, r in _stub_refs(m):
        s_ = r['target']
        if (kcls in m.sub[s_] and s_ not in m.anc[c] and c not in m.anc[s_]
                and any(oo == o for (h, oo) in m.links[k])):
            return True
    return False


def _m2m_items_not_refined(case, message):
    """Set.load builds the items of a many-to-many collection with _get_by_raw_pkval_ (stubs of the DECLARED class) and
    iteration / copy() hands them out without the seed load that Attribute.get and Query._actual_fetch perform, so
    type(item) is the declared (or an intermediate) base class until something else loads the row."""
    focus, m = _focus_model(case)
    if focus['kind'] != 'nav' or focus.get('mismatch') != 'type':
        return False
    k, how = focus['args'][0], focus['args'][2]
    r = m.spec['refs'][k]
    if r['kind'] != 'm2m' or how not in ('iter', 'copy'):
        return False
    kcls = m.objs[focus['obj']]['cls']
    between = [j for j in m.anc[kcls] if j != kcls and j in m.sub[r['target']]]
    return focus['got_class'] in [m.cname(j) for j in between]


def _stub_refs(m):
    """relationships whose loading leaves unloaded stubs typed to the declared class in the identity map"""
    return [(k, r) for k, r in enumerate(m.spec['refs'])
            if r['kind'] in ('one', 'm2m') or (r['kind'] == 'o2o' and r['fk'] == 'holder')]


def _diamond_two_references_class_change(case, message):
    """EntityMeta._get_from_identity_map_: a stub typed B (first reference) met again as C (second reference, sibling base)
    is refused with TransactionError 'Unexpected class change' although a class inheriting from both exists and the
    object is one."""
    focus, m = _focus_model(case)
    if focus.get('mismatch') != 'exception' or focus.get('exc') != 'TransactionError':
        return False
    if 'Unexpected class change' not in focus.get('exc_text', ''):
        return False
    stub = set(k for k, r in _stub_refs(m))
    refs = list(enumerate(m.spec['refs']))
    for k1, r1 in refs:
        for k2, r2 in refs:
            s1, s2 = r1['target'], r2['target']
            # one side left an unloaded stub behind; the other may be any relationship (a query such as
            # select((h.id, h.ref) ...) also builds its items with _get_by_raw_pkval_)
            if k1 != k2 and k1 in stub and s1 not in m.anc[s2] and s2 not in m.anc[s1]:
                if set(o for (h, o) in m.links[k1]) & set(o for (h, o) in m.links[k2]):
                    return True
    return False


def _select_by_sql_virtual_subclass_attr(case, message):
    """EntityMeta._find_by_sql_ walks entity._subclass_attrs_ without skipping attributes that have no columns (the
    column-less side of a one-to-one declared in a subclass); their empty offsets list reaches _get_by_raw_pkval_([])."""
    focus, m = _focus_model(case)
    if focus['kind'] != 'sql' or focus.get('mismatch') != 'exception' or focus.get('exc') != 'IndexError':
        return False
    c = focus['args'][0]
    for k, r in enumerate(m.spec['refs']):
        if r['kind'] == 'o2o' and r['fk'] == 'holder' and r['target'] in m.sub[c] and r['target'] != c:
            if m.instances(r['target']):
                return True
    return False


def _unpickled_stub_with_reverse_value(case, message):
    """Entity.__reduce__/__setstate__: an unloaded reference target (a seed of the declared base class) that already holds a
    non-key value -- the column-less side of a one-to-one, set when the referring row was loaded -- travels with that value;
    __setstate__ -> _db_set_ removes the unpickled object from cache.seeds, so nothing reloads it and it keeps the base
    class.  (The bare-key variant is repaired by 0c47526.)"""
    focus, m = _focus_model(case)
    # the stale object stays in the identity map for the rest of the session in which something was unpickled, so
    # every later operation of that session can meet it
    ops = m.spec['sessions'][focus['session']][:focus['op'] + 1]
    if not any(op[0] == 'pickle_load' for op in ops):
        return False
    if focus.get('mismatch') == 'exception':
        # diamond: the unpickled B-typed object is no seed any more, so meeting it again as its sibling base C cannot
        # load it to find the common subclass (the seed-only path of fix 2506255)
        if focus.get('exc') != 'TransactionError' or 'Unexpected class change' not in focus.get('exc_text', ''):
            return False
        for k, r in enumerate(m.spec['refs']):
            if r['kind'] == 'o2o' and r['fk'] == 'holder':
                for (h, o) in m.links[k]:
                    for k2, r2 in enumerate(m.spec['refs']):
                        t1, t2 = r['target'], r2['target']
                        if k2 != k and t1 not in m.anc[t2] and t2 not in m.anc[t1] and any(oo == o for (hh, oo) in m.links[k2]):
                            return True
        return False
    if 'obj' not in focus:
        return False
    o = focus['obj']
    kcls = m.objs[o]['cls']
    mm = focus.get('mismatch')
    if mm == 'type':
        if focus['got_class'] not in [m.cname(j) for j in m.anc[kcls] if j != kcls]:
            return False
    elif not ((mm == 'dict' and m.observe == 'dict') or (mm == 'attr' and m.observe == 'subattr'
                                                         and 'cannot be read' in message)):
        return False                       # the same stub seen first through to_dict() / a subclass-only attribute
    for k, r in enumerate(m.spec['refs']):
        if r['kind'] == 'o2o' and r['fk'] == 'holder' and any(oo == o for (h, oo) in m.links[k]):
            return True
    return any(not kr['composite'] and o in m.keyrows[j] for j, kr in enumerate(m.keyrefs))


EXCLUSIONS = {
    'unpickled_stub_with_reverse_value': _unpickled_stub_with_reverse_value,
    'diamond_two_references_class_change': _diamond_two_references_class_change,
    'select_by_sql_virtual_subclass_attr': _select_by_sql_virtual_subclass_attr,
    'isinstance_related_wrong_table': _isinstance_related_wrong_table,
    'isinstance_declared_type_none_reference': _isinstance_declared_type_none_reference,
    'not_isinstance_none_reference': _not_isinstance_none_reference,
    'diamond_sibling_stub_lookup': _diamond_sibling_stub_lookup,
    'm2m_items_not_refined': _m2m_items_not_refined,
}

MANIFEST = {
    'text': 'Hypothesis search over inheritance hierarchies given as data (chains, trees, diamonds; implicit/str/int '
            'discriminators; default and custom discriminator values; attributes at several levels), materialised with '
            'type() on a fresh SQLite database together with a Holder entity whose to-one and to-many relationships are '
            'typed to arbitrary classes of the hierarchy. Later db_sessions (a quarter of them through a second Database bound '
            'to the same file) run a generated read program that meets every object by different paths in different '
            'orders; the oracle is the plain record of which class created which primary key: type() by every path, '
            'C[pk]/C.get for non-instances, exact result sets of select over every class, [not] isinstance forms in '
            'queries against Python isinstance, subclass attributes and to_dict() read back (first look at the class, at '
            'to_dict() or at a subclass-only attribute), select_random / random(n) return only stored instances of the '
            'class asked for; objects are also reached through tuple queries with several entity columns, through '
            'references that are (part of) a primary key and through unpickled objects. Sampled, not exhaustive.',
    'note': 'SQLite only. NULL semantics of `not isinstance(h.ref, C)` for a missing reference are not asserted. Raw-SQL '
            'loading is limited to statements whose WHERE clause already restricts the discriminator to the class asked for.',
    'technique': 'hypothesis data-driven model-based testing against a creation-record oracle',
}
