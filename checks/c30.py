"""C30 Raw SQL parameter substitution is faithful.

Three generated searches, all against the reference adapter in vlib/c30_ref.py (written from the documented
behaviour; it never re-scans a text, it knows the pieces the text was assembled from):

  styles   one text x the five DB-API paramstyles (in a drawn order, each adapted twice) + the raw_sql() parser:
           `adapt_sql(sql, style)` text and the evaluated argument code must equal the reference text / values.
  history  sequences of adaptations over a few texts and their `%` <-> `%%` variants under drawn styles: every
           result must equal the reference whatever was adapted before (caches are cleared at the start of a case,
           so a case is the complete history); the thorough tier also recomputes sampled steps in a fresh process.
  live     SQLite (qmark): db.select / get / exists / execute, Entity.select_by_sql / get_by_sql and raw_sql()
           fragments in declarative queries (generator, lambda, filter, where, expression position, two fragments);
           the caller scope is given either as explicit globals/locals or implicitly, by calling from inside a
           generated function frame; the (sql, arguments) seen by the sqlite3 driver and the rows that come back
           must equal the reference.
  retype   ONE query location (a query string, or a real function = one code object) holding raw_sql() fragment(s)
           in filter / projection / ordering position is executed two or three times from a brand-new Database with
           values of DIFFERENT Python types for the same `$` names (int, float, Decimal, str, date, datetime, time,
           timedelta, bool, None), and again in the reversed order; every execution is judged on its own (driver
           argument values AND types, fragment text, rows / ordering) -- see vlib/c30_retype.py.
"""
import os, sys, json, subprocess

from vlib import c30_ref as R

ID = 'C30'
LEVEL = 'exploration'
RULE = ('A text is assembled by construction from literal pieces (SQL words, quotes, %, %%, newlines, non-ASCII, '
        'placeholder look-alikes), `$$`, and `$`-expressions of every accepted form (name, attribute chain, call with '
        'string/bracket/keyword arguments, subscripts, parenthesised expression, builtin call, optional trailing `;`), '
        'each followed by text that must not be consumed; the caller scope (globals/locals with ints, strs, objects, '
        'dicts, lists, callables, shadowing) is generated with it. One case = one (text, paramstyle) adaptation, one '
        'raw_sql() parse, or one live execution through an entry point (scope passed explicitly or taken from the calling frame). Non-trivial = the text has at least one '
        '$-expression AND (a literal %, a `$$`, a trailing `;`, or an expression that is not a bare name); for history '
        'steps additionally: an earlier step of the same case adapted the same text under another style or its '
        '%/%%-variant under the same style, or a text whose adapted form is this step\'s source text (`$$$$` then `$$`, `$x` then a literal placeholder). Re-typing cases: one query location with raw_sql() fragments (filter, '
        'projection, ordering position; string query or function) run 2-3 times, forward and reversed, with values of '
        'different Python types for the same $ names; one case = one execution, non-trivial = some name is bound to a '
        'type that differs from an earlier execution at the same location. '
        'Distinct = hash of (sql text, style or entry point[, preceding steps / preceding value types]).')
ASSUMPTIONS = ['Python eval() of the generated expression source in the generated globals/locals is the value that must be bound',
               'DB-API format/pyformat drivers apply `sql % params` only when parameters are passed; qmark/numeric/named drivers do not touch the text',
               'SQLite 3 through the stdlib sqlite3 module echoes bound values and string literals unchanged and ignores comments',
               "Pony's documented SQLite storage formats give the bound form of non-primitive values (Decimal -> str, date/datetime/time -> ISO text, timedelta -> days as float)",
               'styles other than qmark are judged at adapt_sql level (text + evaluated argument code); no format-style driver is available']
SHARDS = {'quick': 4, 'thorough': 16}
MIN_EVALS = {'quick': 12000, 'thorough': 300000}
CLASS_FLOORS = {'live': 0.05, 'history': 0.12, 'hist:pct_pair': 0.004, 'hist:dependent_step': 0.25, 'f:pct': 0.15,
                'f:dd': 0.10, 'f:semi': 0.10, 'f:paren': 0.10, 'f:call': 0.15, 'f:subscript': 0.08, 'f:attr': 0.15,
                'f:nonascii': 0.06, 'f:newline': 0.06, 'style:pyformat': 0.07, 'style:raw': 0.05, 'entry:raw_if': 0.004,
                'retype': 0.01, 'retype:retyped': 0.005,
                'hist:adapted_source_pair': 0.004}

HOME = os.path.dirname(os.path.dirname(os.path.abspath(__file__)))


# ---------------------------------------------------------------------------------------------------
# history cases (the 'styles' search produces them too)
# ---------------------------------------------------------------------------------------------------
def history_outcomes(case):
    """run the whole history from cold caches; -> list of (obs, verdict) per step"""
    g, l = R.build_scope(case['scope'])
    R.clear_caches()
    out = []
    for step in case['steps']:
        obs = R.observe_adapt(step['parts'], step['style'], g, l)
        out.append((obs, R.judge_adapt(step['parts'], step['style'], g, l, obs)))
    return out


def cold_verdict(case, k):
    g, l = R.build_scope(case['scope'])
    R.clear_caches()
    step = case['steps'][k]
    obs = R.observe_adapt(step['parts'], step['style'], g, l)
    return R.judge_adapt(step['parts'], step['style'], g, l, obs)


def step_is_history_nontrivial(steps, k):
    sql, style = R.assemble(steps[k]['parts']), steps[k]['style']
    for j in range(k):
        sj, tj = R.assemble(steps[j]['parts']), steps[j]['style']
        if sj == sql and tj != style:
            return True
        if tj == style and sj != sql and (sj.replace('%', '%%') == sql or sql.replace('%', '%%') == sj):
            return True
    return False


def is_pct_pair(steps, k):
    """an earlier step adapted, under the same %-style, a text whose %-doubled form is this step's text"""
    sql, style = R.assemble(steps[k]['parts']), steps[k]['style']
    if style not in R.PERCENT_STYLES:
        return False
    for j in range(k):
        sj = R.assemble(steps[j]['parts'])
        if steps[j]['style'] == style and sj != sql and sj.replace('%', '%%') == sql:
            return True
    return False


def is_adapted_source_pair(steps, k):
    """an earlier step adapted, under the same paramstyle, a text whose ADAPTED form is this step's source text"""
    sql, style = R.assemble(steps[k]['parts']), steps[k]['style']
    if style == 'raw':
        return False
    for j in range(k):
        if steps[j]['style'] == style:
            sj = R.assemble(steps[j]['parts'])
            if sj != sql and R.ref_adapt(steps[j]['parts'], style)[0] == sql:
                return True
    return False


def run_history_case(ctx, case, cls):
    outcomes = history_outcomes(case)
    steps = case['steps']
    for k, (obs, verdict) in enumerate(outcomes):
        parts, style = steps[k]['parts'], steps[k]['style']
        sql = R.assemble(parts)
        feats = R.features(parts)
        hist_nt = step_is_history_nontrivial(steps, k)
        classes = [cls, 'style:' + style] + ['f:' + f for f in sorted(feats)]
        if hist_nt:
            classes.append('hist:dependent_step')
        if is_pct_pair(steps, k):
            classes.append('hist:pct_pair')
        asp = is_adapted_source_pair(steps, k)
        if asp:
            classes.append('hist:adapted_source_pair')
            hist_nt = True
        key = [sql, style, [[R.assemble(s['parts']), s['style']] for s in steps[:k]] if hist_nt else None]
        ctx.case(key=key, nontrivial=R.nontrivial(parts) or ('expr' in feats and hist_nt) or asp, classes=classes,
                 sample={'sql': sql, 'style': style, 'observed': R.jsonable_obs(obs),
                         'preceding_steps': k} if 'error' not in obs else None)
        if verdict is not None:
            what, msg = verdict
            cold = cold_verdict(dict(case, steps=steps), k)
            if cold is None:
                msg = 'ORDER-DEPENDENT (correct from a cold cache, wrong after the %d preceding adaptations): %s' % (k, msg)
            fc = {'kind': 'history', 'scope': case['scope'], 'steps': steps[:k + 1],
                  'fail': {'step': k, 'what': what, 'cold_ok': cold is None}}
            ctx.fail(fc, msg)
    return outcomes


# ---------------------------------------------------------------------------------------------------
# fresh-process comparison (thorough tier)
# ---------------------------------------------------------------------------------------------------
def fresh_observe(scope, step):
    """adapt ONE text in a brand-new interpreter -> observation dict"""
    payload = json.dumps({'scope': scope, 'step': step})
    p = subprocess.run([sys.executable, os.path.join(HOME, 'vlib', 'c30_fresh.py')], input=payload.encode('utf8'),
                       stdout=subprocess.PIPE, stderr=subprocess.PIPE, cwd=HOME)
    if p.returncode != 0:
        raise RuntimeError('fresh process failed: %s' % p.stderr.decode('utf8', 'replace')[-2000:])
    return json.loads(p.stdout.decode('utf8'))


def judge_fresh(scope, step):
    obs = fresh_observe(scope, step)
    g, l = R.build_scope(scope)
    if 'error' not in obs:
        p = obs['params']
        if isinstance(p, list):
            p = tuple(p)
        obs = {'sql': obs['sql'], 'params': p}
    return obs, R.judge_adapt(step['parts'], step['style'], g, l, obs)


# ---------------------------------------------------------------------------------------------------
# run
# ---------------------------------------------------------------------------------------------------
def run(ctx):
    from hypothesis import strategies as st
    from vlib import c30_gen as G
    from vlib import c30_live as LV

    # ---- 1. one text, all styles + raw_sql parser -------------------------------------------------
    @st.composite
    def style_cases(draw):
        scope = draw(G.scopes())
        parts = draw(G.texts(scope))
        order = draw(st.permutations(R.STYLES + (['raw'] if parts else [])))
        steps = []
        for s in order:
            steps.append({'parts': parts, 'style': s})
            steps.append({'parts': parts, 'style': s})       # second call is served from the cache
        return {'kind': 'history', 'scope': scope, 'steps': steps}

    def t_styles(case):
        run_history_case(ctx, case, 'styles')


    # ---- 2. histories with % / %% variants --------------------------------------------------------
    fresh_left = [0]          # fresh-interpreter comparisons left in this round (thorough tier only)

    @st.composite
    def history_cases(draw):
        scope = draw(G.scopes())
        bases = draw(st.lists(G.texts(scope, max_parts=5), min_size=1, max_size=3))
        variants = []
        for b in bases:
            variants.append(b)
            variants.append(G.double_pct(b, False))
            dbl = G.double_pct(b, True)
            try:
                R.ref_values(dbl, *R.build_scope(scope))     # `a %% 3`, d['%%'] are not valid here: keep valid variants only
                variants.append(dbl)
            except Exception:
                pass
            variants.append(G.double_pct(G.double_pct(b, False), False))
        styles = R.STYLES + ['raw', 'format', 'pyformat']
        steps = [{'parts': variants[i], 'style': s} for i, s in
                 draw(st.lists(st.tuples(st.integers(0, len(variants) - 1), st.sampled_from(styles)),
                               min_size=1, max_size=8))]
        # a forced pair: T and its %-doubled form under one style, in a drawn order, at drawn positions
        i = draw(st.integers(0, len(bases) - 1))
        b = bases[i]
        if not G.has_pct(b):
            b = b + [['lit', draw(st.sampled_from([' % 2', '%', ' %% 2', " like 'a%'", '%s', '%%%']))]]
        style = draw(st.sampled_from(styles + ['format', 'pyformat']))
        pair = [{'parts': b, 'style': style}, {'parts': G.double_pct(b, False), 'style': style}]
        if draw(st.booleans()):
            pair.reverse()
        for p in pair:
            steps.insert(draw(st.integers(0, len(steps))), p)
        # a forced chain: A changes when adapted; B's SOURCE is A's adapted text (`$$$$` -> `$$`, `$x` -> the placeholder
        # written literally); C likewise from B when possible -- same style, forward or reversed, at drawn positions
        a = draw(G.chain_texts(scope))
        cstyle = draw(st.sampled_from(R.STYLES))
        chain = [a]
        while len(chain) < 3:
            nxt = G.adapted_as_source(chain[-1], cstyle)
            if nxt is None or R.assemble(nxt) == R.assemble(chain[-1]):
                break
            chain.append(nxt)
        if draw(st.integers(0, 3)) == 0:
            chain.reverse()
        positions = sorted(draw(st.lists(st.integers(0, len(steps)), min_size=len(chain), max_size=len(chain))))
        for n, (pos, c) in enumerate(zip(positions, chain)):
            steps.insert(pos + n, {'parts': c, 'style': cstyle})
        steps = [s for s in steps if not (s['style'] == 'raw' and not s['parts'])]
        return {'kind': 'history', 'scope': scope, 'steps': steps}

    def t_history(case):
        outcomes = run_history_case(ctx, case, 'history')
        if fresh_left[0] > 0 and len(case['steps']) >= 2:
            fresh_left[0] -= 1
            k = len(case['steps']) - 1
            step = case['steps'][k]
            obs, verdict = judge_fresh(case['scope'], step)
            warm = R.jsonable_obs(outcomes[k][0])
            ctx.case(key=['fresh', R.assemble(step['parts']), step['style']], nontrivial=R.nontrivial(step['parts']),
                     classes=['fresh_process'])
            if verdict is not None:
                ctx.fail({'kind': 'history', 'scope': case['scope'], 'steps': [step], 'fresh': True,
                          'fail': {'step': 0, 'what': verdict[0], 'cold_ok': False}}, 'in a fresh process: ' + verdict[1])
            if R.jsonable_obs(obs) != warm:
                ctx.fail({'kind': 'history', 'scope': case['scope'], 'steps': case['steps'],
                          'fail': {'step': k, 'what': 'order', 'cold_ok': True}},
                         'ORDER-DEPENDENT: after %d adaptations %r under %r gives %r, a fresh process gives %r'
                         % (k, R.assemble(step['parts']), step['style'], warm, R.jsonable_obs(obs)))


    # ---- 3. live on SQLite ------------------------------------------------------------------------
    def t_live(batch):
        for case in batch:
            R.clear_caches()
            texts = LV.case_parts(case)
            verdict = LV.run_live(case)
            feats = set()
            for p in texts:
                feats |= R.features(p)
            ctx.case(key=[case['entry'], bool(case.get('frame'))] + [R.assemble(p) for p in texts],
                     nontrivial=any(R.nontrivial(p) for p in texts),
                     classes=['live', 'entry:' + case['entry'], 'live:frame' if case.get('frame') else 'live:explicit']
                             + ['f:' + f for f in sorted(feats)],
                     sample={'entry': case['entry'], 'caller_scope_from_frame': bool(case.get('frame')),
                             'sql': [R.assemble(p) for p in texts]})
            if verdict is not None:
                what, msg = verdict
                ctx.fail(dict(case, fail={'what': what}), msg)

    # ---- 4. one query location, differently typed values ---------------------------------------------
    from vlib import c30_retype as RT

    def t_retype(case):
        for variant, c in (('forward', case), ('reversed', RT.reversed_case(case))):
            verdicts = RT.run_case(c)
            pos = RT.SHAPES[c['shape']][0]
            for k, verdict in enumerate(verdicts):
                re_t = RT.retyped(c, k)
                classes = ['retype', 'retype:' + variant, 'retype:shape:' + c['shape'], 'retype:mode:' + c['mode']]
                classes += ['retype:pos:' + p for p in pos.split('+')]
                classes += ['retype:type:' + c['runs'][k]['v']['t']]
                if re_t:
                    classes.append('retype:retyped')
                ctx.case(key=['retype', c['shape'], c['mode'], [R.assemble(p) for _, p in RT.frag_texts(c)],
                              RT.type_names(c, k)], nontrivial=re_t, classes=classes,
                         sample={'location': RT.query_source(c['shape'], dict((n, repr(R.assemble(p)))
                                                                              for n, p in RT.frag_texts(c))),
                                 'mode': c['mode'], 'value_types_so_far': RT.type_names(c, k)} if re_t else None)
                if verdict is not None:
                    what, msg = verdict
                    cold = RT.cold_verdict(c, k) if k else verdict
                    if cold is None:
                        msg = ('ORDER-DEPENDENT (correct at a new location, wrong after %d earlier execution(s) with '
                               'other value types): ' % k) + msg
                    ctx.fail(dict(c, runs=c['runs'][:k + 1], fail={'run': k, 'what': what, 'cold_ok': cold is None}), msg)

    # the searches are interleaved in rounds, so that a wall-clock stop (overloaded machine) still leaves every
    # class represented; round 0 carries the plain names
    rounds = ctx.scale(1, 5)
    for r in range(rounds):
        suffix = '' if r == 0 else '_r%d' % r
        fresh_left[0] = ctx.scale(0, 6)
        for name, fn, strat, n in (('styles', t_styles, dict(case=style_cases()), ctx.scale(300, 400)),
                                   ('history', t_history, dict(case=history_cases()), ctx.scale(350, 450)),
                                   ('live', t_live, dict(batch=LV.live_batches()), ctx.scale(90, 150)),
                                   ('retype', t_retype, dict(case=RT.retype_cases()), ctx.scale(50, 90))):
            ctx.run_test(fn, strat, max_examples=n, name=name + suffix)
            if ctx.violation:
                return


# ---------------------------------------------------------------------------------------------------
# replay
# ---------------------------------------------------------------------------------------------------
def replay(case):
    if case['kind'] == 'live':
        from vlib import c30_live as LV
        R.clear_caches()
        verdict = LV.run_live(case)
        return verdict[1] if verdict else None
    if case['kind'] == 'retype':
        from vlib import c30_retype as RT
        verdicts = RT.run_case(case)
        k0 = case.get('fail', {}).get('run')
        order = ([k0] if k0 is not None and k0 < len(verdicts) else []) + list(range(len(verdicts)))
        for k in order:
            if verdicts[k] is not None:
                cold = RT.cold_verdict(case, k) if k else verdicts[k]
                pre = ('ORDER-DEPENDENT (correct at a new location, wrong after %d earlier execution(s) with other '
                       'value types): ' % k) if cold is None else ''
                return pre + verdicts[k][1]
        return None
    if case.get('fresh'):
        obs, verdict = judge_fresh(case['scope'], case['steps'][0])
        return ('in a fresh process: ' + verdict[1]) if verdict else None
    outcomes = history_outcomes(case)
    k0 = _fail_step(case)
    order = ([k0] if k0 is not None else []) + list(range(len(outcomes)))     # the recorded failing step first
    for k in order:
        obs, verdict = outcomes[k]
        if verdict is not None:
            cold = cold_verdict(case, k)
            pre = 'ORDER-DEPENDENT (correct from a cold cache, wrong after the %d preceding adaptations): ' % k \
                if cold is None else ''
            return pre + verdict[1]
    return None


# ---------------------------------------------------------------------------------------------------
# exclusions for open known findings (by root cause)
# ---------------------------------------------------------------------------------------------------
def _fail_step(case):
    if case.get('kind') != 'history' or 'fail' not in case:
        return None
    k = case['fail'].get('step')
    if k is None or k >= len(case['steps']):
        return None
    return k


def _cache_key_pct(case, message):
    """open finding C30-cache-key-percent: core.adapt_sql stores its cache entry under the %-doubled text but looks
    it up under the original text, so under format/pyformat a text T2 == T1.replace('%', '%%') (T2 != T1) adapted
    after T1 is answered with T1's entry.  Excluded: exactly the steps where that lookup hits -- same %-style, an
    earlier successfully adapted step whose doubled text equals this text, and the observed answer IS that earlier
    step's answer."""
    k = _fail_step(case)
    if k is None or not is_pct_pair(case['steps'], k):
        return False
    steps = case['steps']
    sql, style = R.assemble(steps[k]['parts']), steps[k]['style']
    outcomes = history_outcomes(case)
    obs_k = outcomes[k][0]
    for j in range(k):
        sj = R.assemble(steps[j]['parts'])
        if steps[j]['style'] == style and sj != sql and sj.replace('%', '%%') == sql:
            obs_j = outcomes[j][0]
            if 'error' not in obs_j and 'error' not in obs_k and obs_j['sql'] == obs_k['sql']:
                return True
    return False


def _pct_in_expression(case, message):
    """open finding C30-percent-in-expression: under format/pyformat core.adapt_sql doubles every '%' of the text
    BEFORE it cuts out the $-expressions, so `$f('%')` evaluates f('%%') and `$(a % 3)` is a SyntaxError.
    Excluded: steps of these two styles whose failing text has a '%' inside a $-expression, when the adapted TEXT is
    right and only the evaluated values / the expression compilation are wrong, and the observed outcome is the one
    this root cause predicts (expressions evaluated with their '%' doubled)."""
    k = _fail_step(case)
    if k is None:
        return False
    step = case['steps'][k]
    if step['style'] not in R.PERCENT_STYLES or case['fail'].get('what') not in ('params', 'error'):
        return False
    if not any(p[0] == 'expr' and '%' in p[1] for p in step['parts']):
        return False
    # predicted outcome of the root cause, computed without Pony
    g, l = R.build_scope(case['scope'])
    doubled = [src.replace('%', '%%') for src in R.expr_sources(step['parts'])]
    try:
        codes = [compile(src, '<?>', 'eval') for src in doubled]     # all compiled before any is evaluated
        predicted = [eval(code, g, l) for code in codes]
    except Exception as e:
        # e.g. `a %% 3` (SyntaxError), d['%%'] (KeyError)
        return case['fail']['what'] == 'error' and ('raised %s:' % type(e).__name__) in message
    if case['fail']['what'] != 'params':
        return False
    obs = history_outcomes(case)[k][0]
    if 'error' in obs:
        return False
    return R.compare_params(obs['params'], predicted, step['style']) is None


def _select_keyword_ws(case, message):
    """open finding C30-select-keyword-after-whitespace: Database.select/get/exists decide whether to prepend the
    omitted `select` keyword with core.select_re, which is defined twice in core.py; the second definition
    (r'select\\b', no leading white space) silently replaces the first (r'\\s*select\\b'), so a statement that starts
    with white space + `select` gets a second `select ` prepended.  Excluded: exactly those texts."""
    if case.get('kind') != 'live' or case.get('entry') not in ('select', 'get', 'exists'):
        return False
    from vlib import c30_live as LV
    sql = R.assemble(LV.case_parts(case)[0])
    return sql[:1].isspace() and sql.lstrip()[:6].lower() == 'select' and not sql.lstrip()[6:7].isalnum()


EXCLUSIONS = {'cache_key_pct': _cache_key_pct, 'pct_in_expression': _pct_in_expression,
              'select_keyword_ws': _select_keyword_ws}

MANIFEST = {
    'text': 'Raw SQL texts are assembled by construction from literal pieces (%, %%, quotes, newlines, non-ASCII, $$) and '
            '$-expressions of every accepted form inside generated caller scopes; adapt_sql for all five paramstyles and the '
            'raw_sql() parser are compared with an independent reference adapter (placeholders in order, $$ -> $, % doubled '
            'only where a %-formatting driver would otherwise eat it, values = eval of the expression in the caller scope); '
            'sequences of adaptations over %/%% variants and styles check that each result equals the cold-cache reference '
            '(thorough tier: also a fresh interpreter); on live SQLite every public entry point (db.select/get/exists/execute, '
            'select_by_sql/get_by_sql, raw_sql() in generator, lambda, filter, where, expression and two-fragment queries) is '
            'executed, with the caller scope passed explicitly or found through a generated calling frame, and both the (sql, arguments) seen by the sqlite3 driver and the returned rows are compared with the '
            'reference; one query location with raw_sql() fragments in filter, projection and ordering position is re-executed '
            'from a new Database with int/float/Decimal/str/date/datetime/time/timedelta/bool/None values for the same $ names '
            '(forward and reversed order), each execution judged on its own. Sampled, not exhaustive: it cannot establish the claim for all texts, scopes and histories.',
    'note': 'Only SQLite (qmark) is executed; numeric/named/format/pyformat are judged on the adapted text and evaluated '
            'argument code, and raw_sql() fragments under non-qmark providers are not covered. Expressions with white space '
            'between their trailers, `$` not followed by an identifier or parenthesis, and identifiers glued to following word '
            'characters are outside the accepted forms and are not generated.',
    'technique': 'hypothesis by-construction generation against a reference adapter, cache-history sequences, live SQLite with a logging driver connection',
}
