"""C06 Values reach the database unchanged: parameters, literals and identifiers.

Four generated searches, each judged by oracles written from the dialect manuals (vlib/c06_lex.py: lexers for SQLite /
PostgreSQL / MySQL / Oracle-standard string, number, date, interval and binary literals, quoted identifiers and comments; a
LIKE-pattern decoder; models of how qmark / numeric / named / format / pyformat drivers bind arguments):

 values  a Python value rendered by each dialect's Value class under each parameter style must lex as ONE literal of that
         dialect (after the driver's %-formatting for format styles) and denote the original value.
 asts    generated SQL ASTs (SELECT / INSERT / UPDATE / DELETE with nested conditions, repeated, tuple-item and composite
         JSON-path parameters, inline values) built by each dialect's SQLBuilder under all five styles: the k-th placeholder in
         text order must receive the value of the k-th PARAM operand of the AST, the same as under qmark; the texts must be
         equal after normalising placeholders and un-doubling %%; named / pyformat mappings hold exactly the used keys.
 queries real queries `select((x.id, consts...) for x in E if <atoms>)` on live SQLite and on the real PostgreSQL / MySQL /
         Oracle providers (stub drivers, recording mock connection): every constant / parameter must reach the comparison
         with its column as exactly that value (literal decoded by the dialect lexer, placeholder resolved by the driver
         model, LIKE patterns decoded with the dialect's escape rules), the statement's token-kind sequence must equal that
         of the same query with harmless values, and on SQLite the returned rows and echoed constants must equal Python's
         evaluation (==, in, startswith, endswith, %) over the stored rows.
 names   adversarial _table_ / column= / table= names: CREATE script and INSERT / UPDATE / SELECT / DELETE statements keep the
         token structure they have with harmless names, every quoted identifier decodes to the declared name, placeholders
         stay aligned; on SQLite the rows round-trip (raw read-back with this check's own quoting).
 histories several statements of one shape on one fresh Database, so that Pony's statement caches are hit: db.insert(table,
         **kwargs) (optionally returning=), entity creation, obj.set(**kwargs) / assignments after reading some attributes,
         Entity.get / exists(**kwargs), delete -- the same column sets again and again with the keyword arguments written in
         varying orders.  Oracle: a reference model in plain dicts; on SQLite both tables are read back through the raw
         connection after every operation and lookups are compared with the model; on every dialect the INSERT / UPDATE /
         DELETE / SELECT of each operation is split into (column, operand) pairs by the dialect lexer + driver model and every
         operand must denote the value supplied for that very column.
"""
from vlib import c06_lib as C
from vlib import c06_lex as L

ID = 'C06'
LEVEL = 'exploration'
RULE = ('random (hypothesis). A case is (a) one value x dialect Value class x parameter style, (b) one SQL AST spec (1-4 '
        'conditions nested to depth 2, 1-4 parameter values, repeated / tuple-item / JSON-path-composite parameters, inline '
        'strings with % and quotes, optionally adversarial identifiers) x dialect builder, judged under all five styles, (c) one '
        'query (0-2 echoed constants, 1-4 atoms ==, !=, in, in/not in/startswith/endswith on strings, % on ints; operands '
        'constant or parameter, parameters may repeat) x dialect, plus 1-4 stored rows on SQLite built around the operands, '
        '(e) one history of 2-9 operations (db.insert / entity create / set / get / exists / delete with 1-4 keyword arguments in a '
        'drawn order, a column set is reused with probability 0.7) x dialect on a fresh Database, non-trivial when one column set '
        'occurs in two keyword orders for one kind of operation or a value is special; '
        '(d) one set of 9-10 identifiers (two tables, link table, five columns, optional schema) x dialect with a fixed script (CREATE, check_tables, INSERT incl. RETURNING, UPDATE, SELECT, DELETE). One evaluation = one case on one dialect. '
        'Non-trivial = the case contains a character that is special in some literal / LIKE / identifier / placeholder syntax '
        '(quotes, backslash, %, _, !, control or non-ASCII characters, negative or exponent numbers, sub-second / negative / '
        'pre-1000 temporal values, empty or non-ASCII bytes), or an AST with a repeated / composite parameter; distinct by '
        'hash of (case, dialect). Values: NUL-free text, int64, finite floats / Decimals, date 0001-9999, time, datetime, '
        'timedelta within +-10000 days, bytes. Not asserted: Oracle interval literals and names containing a double quote on '
        'Oracle (not representable there); floats whose text SQLite itself parses inexactly are counted inconclusive.')
ASSUMPTIONS = ['the lexical rules transcribed in vlib/c06_lex.py (SQLite lang_expr, PostgreSQL 16 ch. 4.1 / 8.5 / 9.7, MySQL 8.0 '
               'ch. 9.1 / 9.2 / 9.5 / 12.8 default sql_mode, Oracle / standard SQL) and its DB-API binding models (PEP 249; '
               'MySQLdb / psycopg2 build the statement with % whenever arguments are passed)',
               'SQLite 3.40 live through pony.orm.dbproviders.sqlite; PostgreSQL / MySQL / Oracle only as SQL text + arguments '
               'handed to cursor.execute by the real providers over stub driver modules (no server)',
               'Python ==, in, str.startswith / endswith and % on non-negative ints are the reference for the live part']
SHARDS = {'quick': 4, 'thorough': 16}
MIN_EVALS = {'quick': 20000, 'thorough': 300000}
CLASS_FLOORS = {'nontrivial': 0.3, 'kind:query': 0.02, 'kind:ast': 0.01, 'kind:names': 0.005, 'kind:history': 0.01,
                'hist:same-columns-other-order': 0.004}

MANIFEST = {
    'text': 'Generated values (strings with quotes, backslashes, %, _, !, control and non-ASCII characters; ints, floats, '
            'Decimals, dates, times, datetimes, timedeltas, bytes), SQL ASTs, real queries and identifier sets are pushed through '
            "every dialect's Value class / SQLBuilder / provider under all five DB-API parameter styles; small lexers written from "
            'the SQLite, PostgreSQL, MySQL and Oracle manuals decode what would reach the server (after modelling the driver\'s '
            'own %-formatting) and require the original value at the original position and an unchanged statement structure; on '
            'SQLite the same queries and names are executed and compared with Python. Histories of db.insert / create / set / get / '
            'exists / delete calls that reuse one column set with the keyword arguments in varying orders check that cached '
            'statements still bind every value to its own column (reference model + raw read-back on SQLite, column/operand '
            'pairs of each statement on every dialect).',
    'note': 'PostgreSQL / MySQL / Oracle are judged as text against transcribed lexical rules (no server or driver in the '
            'sandbox); server-side type coercion, collations and charset conversion are not modelled; Oracle interval literals '
            'are skipped. Sampled, cannot establish the unbounded claim.',
    'technique': 'property-based testing (hypothesis) with independent dialect lexers, DB-API driver binding models, a benign-twin '
                 'structure comparison and live SQLite evaluation against Python semantics',
}


# ---------------------------------------------------------------------------------------------------------------------
# one evaluation
# ---------------------------------------------------------------------------------------------------------------------

def _case_strings(case):
    kind = case['kind']
    if kind == 'value':
        v = C.dec(case['v'])
        return [v] if isinstance(v, str) else []
    if kind == 'query':
        return [v for v in C.case_all_values(case) if isinstance(v, str)]
    if kind == 'ast':
        return C.spec_all_strings(case['stmt']) + [v for v in (C.dec(x) for x in case['values']) if isinstance(v, str)] + \
            C.spec_idents(case)
    if kind == 'names':
        return list(case['names'].values()) + [case['data']['s'], case['data']['s2']]
    if kind == 'history':
        return [v for v in C.history_values(case) if isinstance(v, str)]
    return []


def _nontrivial(case):
    kind = case['kind']
    if kind == 'value':
        return C.is_special_value(C.dec(case['v']))
    if kind == 'query':
        return any(C.is_special_value(v) for v in C.case_all_values(case))
    if kind == 'ast':
        order = [e for e in C.reference_order(case['stmt']) if e[0] in ('p', 'comp')]
        keys = [e[1:] for e in order if e[0] == 'p']
        return len(keys) != len(set(keys)) or any(e[0] == 'comp' for e in order) or any(C.is_special_text(s) for s in _case_strings(case))
    if kind == 'names':
        return any(C.is_special_text(s) for s in case['names'].values())
    if kind == 'history':
        return C.history_reorders(case) or any(C.is_special_value(v) for v in C.history_values(case))
    return False


def evaluate(case):
    """-> (status, [(tag, message, extra case fields)], info); status in ok | rejected | skipped"""
    kind = case['kind']
    if kind == 'value':
        return 'ok', [(t, m, {}) for (t, m) in C.judge_value(case)], {}
    if kind == 'ast':
        fails = C.judge_ast(case, styles=[case['style']] + (['qmark'] if case['style'] != 'qmark' else [])
                            if case.get('style') else L.STYLES)
        if fails and fails[0][0] == 'unsupported':
            return 'skipped', [], {}
        return 'ok', [(t, m, {'style': s}) for (t, m, s) in fails if not case.get('style') or s == case['style']], {}
    if kind == 'query':
        if case['dialect'] == 'oracle' and any(v == '' for v in C.case_all_values(case)):
            return 'skipped', [], {}          # documented: '' is NULL in Oracle, Pony turns it into IS NULL
        status, fails, info = C.judge_query(case)
        return status, [(t, m, {}) for (t, m) in fails], info
    if kind == 'names':
        if case['dialect'] == 'oracle' and any('"' in n for n in case['names'].values()):
            return 'skipped', [], {}          # an Oracle identifier cannot contain a double quote at all
        if case['dialect'] == 'sqlite' and 'schema' in case['names']:
            case = dict(case, names={k: v for k, v in case['names'].items() if k != 'schema'})    # no schemas on SQLite
        status, fails, info = C.judge_names(case)
        return status, [(t, m, {}) for (t, m) in fails], info
    if kind == 'history':
        if case['dialect'] == 'oracle' and any(v == '' for v in C.history_values(case)):
            return 'skipped', [], {}          # '' is NULL in Oracle
        status, fails, info = C.judge_history(case)
        return status, [(t, m, {}) for (t, m) in fails], info
    raise ValueError(kind)


def _one(ctx, case):
    status, fails, info = evaluate(case)
    if status == 'skipped':
        ctx.count('skipped:' + case['kind'] + ':' + case['dialect'])
        return
    if status == 'rejected':
        ctx.rejected += 1
        ctx.count('rejected:' + case['kind'])
        return
    nt = _nontrivial(case)
    classes = ['kind:' + case['kind'], 'dialect:' + case['dialect']]
    if nt:
        classes.append('nontrivial')
    if case['kind'] == 'query':
        classes += ['op:' + a['op'] for a in case['atoms']]
        if any('p' in o for a in case['atoms'] for o in a['args']):
            classes.append('query:with-params')
        if case['dialect'] == 'sqlite' and case.get('rows'):
            classes.append('query:live')
    if case['kind'] == 'history':
        classes += sorted(set('hist:' + op[0] for op in case['ops']))
        if C.history_reorders(case):
            classes.append('hist:same-columns-other-order')
    sample = None
    seen = ctx.__dict__.setdefault('_c06_samples_by_kind', {})
    if nt and seen.get(case['kind'], 0) < (1 if case['kind'] == 'value' else 2) and len(ctx.samples) < 6 \
            and (case['kind'] == 'value' or ctx.evaluations % 7 == 0):
        seen[case['kind']] = seen.get(case['kind'], 0) + 1
        sample = {'kind': case['kind'], 'dialect': case['dialect']}
        if case['kind'] == 'query':
            sample.update(source=info.get('source'), vars=case.get('vars'), sql=info.get('sql'), args=repr(info.get('args')))
        elif case['kind'] == 'names':
            sample.update(names=case['names'], statements=info.get('statements'))
        elif case['kind'] == 'ast':
            sample.update(stmt=case['stmt'], values=case['values'])
        elif case['kind'] == 'history':
            sample.update(ops=[C._op_show(op) for op in case['ops']])
        else:
            sample.update(style=case['style'], v=case['v'])
    ctx.case(key=case, nontrivial=nt, classes=classes, sample=sample)
    if info.get('inconclusive'):
        ctx.inconclusive += 1
    for tag, msg, extra in fails:
        if tag == 'unmodelled':
            ctx.inconclusive += 1
            continue
        ctx.count('fail:' + tag)
        ctx.fail(dict(case, **extra), msg)


def run(ctx):
    from hypothesis import strategies as st
    from vlib import c06_gen as G
    n = ctx.scale

    def t_value(v):
        for dialect in L.DIALECTS:
            if dialect == 'oracle':
                continue                       # Oracle uses the generic Value class: covered by 'generic'
            for style in L.STYLES:
                _one(ctx, {'kind': 'value', 'dialect': dialect, 'style': style, 'v': C.enc(v)})
    ctx.run_test(t_value, {'v': G.value_any_st}, max_examples=n(500, 2500), name='values')

    def t_ast(case):
        for dialect in L.DIALECTS:
            _one(ctx, dict(case, dialect=dialect))
    if ctx.violation is None:
        ctx.run_test(t_ast, {'case': G.ast_case()}, max_examples=n(220, 1000), name='asts')

    def t_query(case):
        for dialect in C.QUERY_DIALECTS:
            _one(ctx, dict(case, dialect=dialect))
    try:
        if ctx.violation is None:
            ctx.run_test(t_query, {'case': G.query_case()}, max_examples=n(260, 1300), name='queries')
        if ctx.violation is None:
            ctx.run_test(t_query, {'case': G.query_case(like_focus=True)}, max_examples=n(160, 800), name='like')
    finally:
        C.close_worlds()

    def t_names(case):
        for dialect in C.QUERY_DIALECTS:
            _one(ctx, dict(case, dialect=dialect))
    if ctx.violation is None:
        ctx.run_test(t_names, {'case': G.names_case()}, max_examples=n(90, 450), name='names')

    def t_history(case):
        for dialect in C.QUERY_DIALECTS:
            _one(ctx, dict(case, dialect=dialect))
    if ctx.violation is None:
        ctx.run_test(t_history, {'case': G.history_case()}, max_examples=n(120, 600), name='histories')


def replay(case):
    """re-execute one stored case (one dialect) without hypothesis; returns the violation message or None"""
    try:
        status, fails, info = evaluate(case)
    finally:
        C.close_worlds()
    for tag, msg, extra in fails:
        if tag != 'unmodelled':
            return msg
    return None


# ---------------------------------------------------------------------------------------------------------------------
# exclusions for OPEN known findings, each named by root cause and decided from the case alone
# ---------------------------------------------------------------------------------------------------------------------

def _inline_values(case):
    kind = case.get('kind')
    if kind == 'value':
        return [C.dec(case['v'])]
    if kind == 'query':
        return C.case_consts(case)
    if kind == 'ast':
        return [e[1] for e in C.reference_order(case['stmt']) if e[0] == 'v']
    return []


def _mysql_backslash_literal(case, message):
    """MySQLValue / Value.quote_str do not escape the backslash, which is an escape character inside MySQL string literals
    (default sql_mode): any inline string constant containing a backslash denotes another string or un-terminates the literal"""
    return case.get('dialect') == 'mysql' and any(isinstance(v, str) and '\\' in v for v in _inline_values(case))


def _like_default_escape(case, message):
    """StringMixin._like writes no ESCAPE clause for a constant without % and _; PostgreSQL and MySQL then use the backslash as
    escape character, so a backslash in the constant is not matched literally"""
    if case.get('kind') != 'query' or case.get('dialect') not in ('postgres', 'mysql'):
        return False
    for a in case['atoms']:
        if a['op'] in C.LIKE_OPS and 'c' in a['args'][0]:
            v = C.dec(a['args'][0]['c'])
            if '\\' in v and '%' not in v and '_' not in v:
                return True
    return False


def _percent_in_identifier(case, message):
    """quote_name does not double % for the format / pyformat styles although the driver %-formats the whole statement"""
    if case.get('kind') == 'names':
        return case.get('dialect') in ('postgres', 'mysql') and any('%' in n for n in case['names'].values())
    if case.get('kind') == 'ast':
        return case.get('style') in ('format', 'pyformat') and any('%' in n for n in C.spec_idents(case))
    return False


def _inline_time_constant(case, message):
    """Value.__str__ has no branch for datetime.time: `assert False`"""
    import datetime
    return any(isinstance(v, datetime.time) for v in _inline_values(case))


def _sqlite_inline_timedelta(case, message):
    """SQLiteValue renders total_seconds() / 86400 while SQLiteTimedeltaConverter.py2sql stores days + (seconds + us / 1e6) / 86400:
    for the values where the two doubles differ the inline constant does not equal the stored value of the same timedelta"""
    import datetime
    if case.get('kind') != 'query' or case.get('dialect') != 'sqlite':
        return False
    for a in case['atoms']:
        if C.COLUMNS.get(a['col']) == 'timedelta':
            for o in a['args']:
                if 'c' in o:
                    v = C.dec(o['c'])
                    if isinstance(v, datetime.timedelta) and \
                            v.total_seconds() / 86400 != v.days + (v.seconds + v.microseconds / 1000000.0) / 86400.0:
                        return True
    return False


def _pg_bytes_literal(case, message):
    """Value.__str__ writes bytes as X'..' which PostgreSQL reads as a bit-string constant, not bytea"""
    return case.get('dialect') == 'postgres' and any(isinstance(v, (bytes, bytearray)) for v in _inline_values(case))


EXCLUSIONS = {
    'mysql_backslash_literal': _mysql_backslash_literal,
    'like_default_escape': _like_default_escape,
    'percent_in_identifier': _percent_in_identifier,
    'inline_time_constant': _inline_time_constant,
    'sqlite_inline_timedelta': _sqlite_inline_timedelta,
    'pg_bytes_literal': _pg_bytes_literal,
}
