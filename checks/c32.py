"""C32 Objects from a finished session are read-only snapshots.

A case = (diagram, data, in-session script, how the session ends, with-block or decorator, strict flag,
sequence of operations on the leftover objects).  The grid enumerates, for fixed diagrams, every status
preset x every session end x strict x form and applies EVERY operation the diagram admits (read / collection
read / to_dict / assign / set / collection change / delete / flush / load / use as query parameter / global
commit, flush, select; each also inside a fresh db_session) to every leftover object, in a seed-dependent
order on the same leftovers; hypothesis then generates diagrams, data, scripts and operation sequences.

Oracle (vlib/c32_model.py): values come from the database read through plain sqlite3 and from what the script
assigned; loaded values must be readable iff the session was not strict; every change / flush / load that needs
the database must raise DatabaseSessionIsOver (OperationWithDeletedObjectError for deleted objects);
after all operations and two fresh committed sessions the sqlite dump equals the dump taken at session end;
after the operations every attribute of every leftover object is read again and judged by the same oracle.
"""
import os, json, copy, hashlib, tempfile, shutil

from vlib.runner import Violation, chash, HOME
from vlib import c32_model as M

ID = 'C32'
LEVEL = 'exploration'
RULE = ('grid: fixed diagrams (pk kinds int/auto/str/composite, required/optional to-one, unique, inheritance, one-to-one, '
        'lazy collection) x status presets (loaded, stub, partially loaded, lazy loaded, collection loaded / partially '
        'loaded, query result, created, created into a loaded collection, created+flushed, modified, modified+flushed, committed-then-modified, deleted, '
        'deleted+flushed, fully loaded) x session end (commit, rollback(), exception, commit()+exception) x strict x '
        'session kind (with-block, decorated function, @db_session generator: exhausted with each of the four ends, or '
        'left suspended and closed with .close(), broken out of a for loop and dropped, ended by a thrown Exception, '
        'GeneratorExit or KeyboardInterrupt), and for each such scenario every operation the diagram admits on every leftover '
        'object, outside a session and inside a fresh one, all applied to the same leftovers in a seed-dependent order '
        '(complete in the thorough tier; the quick tier is complete for with-block sessions of the first diagram, applies a '
        'seed-dependent half of the operations elsewhere and uses decorator, generator and two-database sessions with the '
        'first diagram only); sessions may also span a second '
        'database (touched first or last, read or written) and end with a COMMIT that fails on either database, and the '
        'connection may die at the end of any session so that its final ROLLBACK / release fails; diagrams '
        'may carry Json / int-array attributes whose values are changed in place (through the attribute or through the '
        'container kept from the session); random: hypothesis-generated diagrams, rows, in-session scripts and operation sequences of length '
        '1..12. A case is one (scenario, operation) evaluation; non-trivial = anything but a plain read of an object '
        'left by a non-strict committed read-only session; distinct by the hash of (scenario, operation).')
ASSUMPTIONS = ['SQLite 3 live through pony.orm.dbproviders.sqlite; the database content is read with the sqlite3 module '
               '(table/column names taken from the generated mapping)',
               'the reference model is conservative: a value is required to be readable only when the script certainly '
               'loaded it; otherwise the correct value or DatabaseSessionIsOver is accepted',
               'values assigned and rolled back: the in-memory value may be the assigned or the database value '
               '(the statement leaves it open)']
SHARDS = {'quick': 4, 'thorough': 16}
MIN_EVALS = {'quick': 20000, 'thorough': 200000}
CLASS_FLOORS = {'strict': 0.2, 'write-op': 0.1, 'in-new-session': 0.2, 'end:rollback': 0.1, 'end:exception': 0.05,
                'form:generator': 0.1, 'gen:close': 0.01, 'gen:break': 0.01, 'gen:throw_exit': 0.01}

ENDS = ['commit', 'rollback', 'exception', 'commit_exception']
FORMS = ['with', 'decorator']
# the third session kind: a @db_session GENERATOR function.  'exhaust' runs it to its end (the script's own end applies:
# StopIteration commits, rollback(), an exception raised in the body); the others leave it suspended at its last yield
# (everything committed, as Pony demands) and end it from outside
AUX_SCRIPTS = {'read': [['get', 1], ['get', 2]],
               'write': [['get', 1], ['get', 2], ['assign', 1, 77], ['create', 9, 5]]}
GEN_ENDS = ['exhaust', 'close', 'break', 'throw_exc', 'throw_exit', 'throw_kbd']


def session_variants():
    """(form, gen, end) combinations; 'commit_fault' = the session is left normally and its final COMMIT fails"""
    out = []
    for form in FORMS:
        for end in ENDS + ['commit_fault']:
            out.append((form, None, end))
    for gen in GEN_ENDS:
        if gen == 'exhaust':
            for end in ENDS + ['commit_fault']:
                out.append(('generator', gen, end))
        else:
            out.append(('generator', gen, 'rollback'))
    return out


# ------------------------------------------------------------------------------------------------
# diagrams and data of the grid
# ------------------------------------------------------------------------------------------------

GRID_DIAGRAMS_QUICK = [
    {'json': True},
    {'ppk': 'auto', 'cpk': 'auto', 'ref': 'optional', 'unique': True, 'o2o': True},
    {'ppk': 'str', 'cpk': 'composite', 'tpk': 'str', 'inherit': True, 'lazy_set': True,
     'extra': [['bool', 0, 0], ['float', 1, 0]]},
]
GRID_DIAGRAMS_THOROUGH = GRID_DIAGRAMS_QUICK + [
    {'ref': 'optional'},
    {'inherit': True, 'o2o': True, 'json': True},
    {'cpk': 'composite', 'unique': True, 'o2o': True, 'ref': 'optional'},
    {'ppk': 'auto', 'tpk': 'str', 'lazy_set': True, 'extra': [['int', 0, 1], ['str', 1, 0]]},
    {'ppk': 'str', 'cpk': 'auto', 'inherit': True, 'unique': True, 'ref': 'optional'},
]


def pkof(d, e, i):
    d = M.norm_diagram(d)
    if e == 'P':
        return 'p%d' % i if d['ppk'] == 'str' else i
    if e == 'C':
        return [(i - 1) // 2 + 1, (i - 1) % 2 + 1] if d['cpk'] == 'composite' else i
    if e == 'T':
        return 't%d' % i if d['tpk'] == 'str' else i
    return i


def extra_value(t, i):
    return {'int': 10 + i, 'str': 'xs%d' % i, 'bool': bool(i % 2), 'float': 0.5 * i}[t]


def grid_data(d):
    d = M.norm_diagram(d)

    def prow(i, title, note, blob, rank):
        r = {'id': pkof(d, 'P', i), 'title': title, 'note': note, 'blob': blob, 'rank': rank}
        if d['json']:
            r['meta'] = {'m': i, 'seen': [i]}
        return r

    def crow(i, name, nick, bio, num, parent, tags, cls=None):
        r = {'name': name, 'nick': nick, 'bio': bio, 'num': num,
             'parent': None if parent is None else pkof(d, 'P', parent), 'tags': [pkof(d, 'T', t) for t in tags]}
        pk = pkof(d, 'C', i)
        if d['cpk'] == 'composite':
            r['a'], r['b'] = pk
        else:
            r['id'] = pk
        if d['unique']:
            r['code'] = 100 + i if i != 2 else None
        if d['json']:
            r['doc'] = {'n': i, 'tags': ['a%d' % i], 'k': 'v'}
            r['arr'] = [i, i + 1]
        for j, (t, req, lazy) in enumerate(d['extra']):
            r['x%d' % j] = extra_value(t, i + j) if (req or i % 2) else None
            if r['x%d' % j] is None and t == 'str':
                r['x%d' % j] = ''
        if cls:
            r['_cls'] = cls
            r['extra2'] = 'sub%d' % i
        return r
    data = {'P': [prow(1, 'p one', 'n1', 'B1', 5), prow(2, 'p two', '', '', None), prow(3, 'p three', 'n3', 'B3', 0)],
            'T': [{'id': pkof(d, 'T', 1), 'label': 'red', 'memo': 'm1'}, {'id': pkof(d, 'T', 2), 'label': 'blue', 'memo': ''},
                  {'id': pkof(d, 'T', 3), 'label': 'green', 'memo': 'm3'}],
            'C': [crow(1, 'c one', 'nk', 'bio1', 7, 1, [1, 2]),
                  crow(2, 'c two', '', '', None, 1, [1]),
                  crow(3, 'c three', 'k3', 'bio3', 3, 2, [], 'C2' if d['inherit'] else None),
                  crow(4, 'c four', '', 'bio4', 0, None if d['ref'] == 'optional' else 2, [2])]}
    if d['o2o']:
        data['O'] = [{'id': 1, 'serial': 's-1', 'owner': pkof(d, 'C', 1)}]
    return data


def create_vals(d, e, i, parent=None, tags=None, cls=None):
    d = M.norm_diagram(d)
    if e == 'P':
        return {'title': 'new p%d' % i, 'rank': i}
    if e == 'T':
        return {'label': 'new t%d' % i}
    v = {'name': 'new c%d' % i, 'num': i}
    if parent is not None:
        v['parent'] = {'$obj': parent}
    if tags is not None:
        v['tags'] = [{'$obj': t} for t in tags]
    for j, (t, req, lazy) in enumerate(d['extra']):
        if req:
            v['x%d' % j] = extra_value(t, i)
    if cls:
        v['_cls'] = cls
    return v


def new_pk(d, e, i):
    """pk to use for an object created by the script (symbolic when the pk is automatic)"""
    d = M.norm_diagram(d)
    if (e == 'P' and d['ppk'] == 'auto') or (e == 'C' and d['cpk'] == 'auto'):
        return 'new%d' % i
    return pkof(d, e, i)


def presets(d):
    """(status name, in-session script) for the grid"""
    d = M.norm_diagram(d)
    P = lambda i: ['P', pkof(d, 'P', i)]
    C = lambda i: ['C', pkof(d, 'C', i)]
    T = lambda i: ['T', pkof(d, 'T', i)]
    g = lambda k: ['get', k[0], k[1]]
    out = []
    out.append(('loaded', [g(P(1)), g(P(2)), g(T(1)), g(T(2)), g(C(1)), g(C(2))]))
    out.append(('stub', [g(C(1)), ['ref', C(1), 'parent'], ['members', C(1), 'tags'], g(P(2))]))
    out.append(('stub_child', [g(T(1)), ['members', T(1), 'cs'], g(P(2))]))
    out.append(('partial', [g(C(1)), ['ref', C(1), 'parent'], ['loadattr', P(1), 'title'], ['members', C(1), 'tags'],
                            ['loadattr', T(1), 'label']]))
    out.append(('lazy_loaded', [g(P(1)), g(T(1)), g(C(1)), ['read', P(1), 'blob'], ['read', C(1), 'bio'],
                                ['loadattr', T(1), 'memo']]))
    out.append(('coll_loaded', [g(P(1)), ['members', P(1), 'kids'], ['members', C(1), 'tags'], ['members', T(1), 'cs'],
                                g(P(3)), ['members', P(3), 'kids']]))
    out.append(('coll_partial', [g(P(1)), g(T(1)), g(C(1)), ['contains', P(1), 'kids', C(1)], ['count', P(1), 'kids'],
                                 ['contains', C(1), 'tags', T(1)], ['count', C(1), 'tags'], ['count', T(1), 'cs']]))
    out.append(('query_result', [['query_all', 'C'], ['query_all', 'P'], ['query_all', 'T']]))
    out.append(('full', [g(C(1)), ['ref', C(1), 'parent'], ['loadobj', P(1)], ['loadobj', C(1)]]))
    p9, c9, t9 = ['P', new_pk(d, 'P', 9)], ['C', new_pk(d, 'C', 9)], ['T', new_pk(d, 'T', 9)]
    out.append(('created', [['create', 'P', p9[1], create_vals(d, 'P', 9)], ['create', 'T', t9[1], create_vals(d, 'T', 9)],
                            ['create', 'C', c9[1], create_vals(d, 'C', 9, parent=p9, tags=[t9])]]))
    out.append(('created_linked', [g(P(1)), g(T(1)), ['create', 'C', c9[1], create_vals(d, 'C', 9, parent=P(1), tags=[T(1)],
                                                                                    cls='C2' if d['inherit'] else None)]]))
    out.append(('created_in_loaded_collection', [g(P(1)), ['members', P(1), 'kids'], g(T(1)), ['members', T(1), 'cs'],
                                                 ['create', 'C', c9[1], create_vals(d, 'C', 9, parent=P(1), tags=[T(1)])]]))
    out.append(('created_flushed', [g(P(1)), ['create', 'C', c9[1], create_vals(d, 'C', 9, parent=P(1))],
                                    ['create', 'P', p9[1], create_vals(d, 'P', 9)], ['flush']]))
    mod = [g(P(1)), g(P(2)), g(T(1)), g(T(2)), g(T(3)), g(C(1)), ['assign', C(1), 'name', 'changed'],
           ['assign', C(1), 'num', 99], ['assign', C(1), 'parent', {'$obj': P(2)}], ['remove', C(1), 'tags', T(1)],
           ['add', C(1), 'tags', T(3)], ['assign', P(1), 'title', 'p changed'], ['assign', T(2), 'label', 'blue2']]
    if d['unique']:
        mod.append(['assign', C(1), 'code', 555])
    if d['json']:
        mod += [['mutate', C(1), 'doc', ['setitem', 'n', 100]], ['mutate', C(1), 'arr', ['append', 9]],
                ['assign', P(1), 'meta', {'m': 99}]]
    out.append(('modified', mod))
    out.append(('modified_flushed', mod + [['flush']]))
    out.append(('committed_then_modified', [g(C(1)), g(P(1)), ['assign', C(1), 'name', 'v1'], ['assign', P(1), 'rank', 41],
                                            ['commit'], ['assign', C(1), 'name', 'v2'], ['assign', C(1), 'nick', 'nn']]))
    out.append(('modified_collection', [g(P(1)), g(P(3)), ['members', P(1), 'kids'], g(T(3)), ['members', C(2), 'tags'],
                                        ['add', P(3), 'kids', C(1)], ['add', C(2), 'tags', T(3)]]))
    out.append(('deleted', [g(P(1)), g(T(1)), g(T(3)), g(C(2)), ['delete', C(2)], ['delete', T(3)]]))
    out.append(('deleted_flushed', [g(P(1)), g(T(1)), g(C(2)), ['delete', C(2)], ['flush']]))
    if d['json']:
        out.append(('json_held', [g(P(1)), g(C(1)), g(C(2)), ['read', C(1), 'doc'], ['read', C(1), 'arr'], ['read', P(1), 'meta']]))
        out.append(('json_mutated', [g(P(1)), g(C(1)), ['mutate', C(1), 'doc', ['nested_append', 'tags', 'z']],
                                     ['mutate', C(1), 'doc', ['delitem', 'k']], ['mutate', C(1), 'arr', ['setidx', 0, 42]],
                                     ['mutate', P(1), 'meta', ['update', {'m': 7}]]]))
        out.append(('json_mutated_flushed', [g(C(1)), ['mutate', C(1), 'doc', ['setitem', 'n', 5]],
                                             ['mutate', C(1), 'arr', ['extend', [7, 8]]], ['flush']]))
    if d['o2o']:
        out.append(('one_to_one', [g(C(1)), ['read', C(1), 'badge'], g(C(2)), ['read', C(2), 'badge'],
                                   ['get', 'O', 1], ['ref', ['O', 1], 'owner']]))
    if d['inherit']:
        out.append(('subclass', [g(C(3)), ['read', C(3), 'extra2'], g(P(2)), ['members', P(2), 'kids']]))
    return out


# ------------------------------------------------------------------------------------------------
# the operations a diagram admits on the leftover objects
# ------------------------------------------------------------------------------------------------

def fresh_value(a, salt):
    return {'int': 1000 + salt, 'str': 'w%d' % salt, 'bool': bool(salt % 2), 'float': 0.25 * salt,
            'json': {'n': salt, 'tags': ['f']}, 'intarray': [salt, 1]}[a['type']]


JSON_MUTS = [['setitem', 'x', 1], ['setitem', 'n', -1], ['delitem', 'n'], ['nested_append', 'tags', 'zz'],
             ['nested_append', 'seen', 0], ['update', {'u': 2}], ['pop', 'k'], ['pop', 'm'], ['clear']]
ARRAY_MUTS = [['append', 77], ['extend', [5, 6]], ['setidx', 0, -3], ['pop_last']]


def all_ops(model, d, level='full'):
    """every operation on every captured leftover object (plain and inside a fresh session)"""
    d = M.norm_diagram(d)
    meta = model.meta
    keys = sorted((h for h, o in model.mem.items() if o['captured']), key=repr)
    by_ent = {}
    for h in keys:
        by_ent.setdefault(h[0], []).append(h)
    plain, newonly = [], []
    salt = 0
    for h in keys:
        o = model.mem[h]
        key = M.jk(h)
        attrs = [a for a in meta[h[0]] if not a['sub'] or model.sub_ok(h)]
        plain += [['pk', key], ['repr', key], ['delete', key], ['oflush', key], ['load', key, []]]
        pknames = M.pk_attrs(meta, h[0])
        first_scalar = [a['name'] for a in attrs if a['kind'] == 'scalar' and a['required']][0]
        for opts in ({}, {'with_collections': True}, {'with_lazy': True}, {'with_collections': True, 'related_objects': True},
                     {'only': pknames + [first_scalar]}, {'with_collections': True, 'with_lazy': True}):
            plain.append(['to_dict', key, opts])
        for how in ('obj_eq', 'ref_eq', 'in_coll', 'in_kids'):
            if M.q_texts(meta, h[0], how) is not None:
                newonly.append(['q_param', key, how])
        newonly.append(['q_param', key, 'attr', first_scalar])
        newonly.append(['q_param', key, 'attr', pknames[0]])
        if h[0] == 'P':
            newonly.append(['q_kw', key, 'C', 'parent'])
            newonly.append(['live_assign', key, 'C', pkof(d, 'C', 4), 'parent'])
            newonly.append(['live_create', key, 'C', dict(create_vals(d, 'C', 8), **_pk_kwargs(d, 'C', 8)), 'parent'])
        if h[0] == 'C':
            newonly.append(['live_add', key, 'P', pkof(d, 'P', 3), 'kids'])
            newonly.append(['live_add', key, 'T', pkof(d, 'T', 2), 'cs'])
        if h[0] == 'T':
            newonly.append(['live_add', key, 'C', pkof(d, 'C', 4), 'tags'])
        setkw = {}
        for a in attrs:
            n = a['name']
            salt += 1
            if a['kind'] == 'pk':
                plain.append(['read', key, n])
            elif a['kind'] == 'scalar':
                plain.append(['read', key, n])
                plain.append(['load', key, [n]])
                v = fresh_value(a, salt)
                plain.append(['assign', key, n, v])
                if not a['unique']:
                    setkw[n] = v
                if not a['required'] and a['type'] != 'str':
                    plain.append(['assign', key, n, None])
                if a['type'] in M.JSON_TYPES:
                    # in-place changes of the Json / array value: through the attribute, and through the container the
                    # in-session script kept
                    cur = (model.row(h) or {}).get(n)
                    for mut in (JSON_MUTS if a['type'] == 'json' else ARRAY_MUTS):
                        if cur is None or not M.mut_fits(cur, mut, a['type']):
                            continue
                        plain.append(['mutate', key, n, mut, 'attr'])
                        if n in o['held']:
                            plain.append(['mutate', key, n, mut, 'held'])
            elif a['kind'] in ('ref', 'o2orev'):
                plain.append(['read', key, n])
                t_attrs = meta[a['type']]
                for a2 in t_attrs:
                    if a2['kind'] == 'pk' or (a2['kind'] == 'scalar' and (a2['required'] or a2['lazy']) and not a2['sub']):
                        plain.append(['read2', key, n, a2['name']])
                if a['kind'] == 'ref':
                    plain.append(['load', key, [n]])
                    for t in by_ent.get(a['type'], [])[:2]:
                        plain.append(['assign', key, n, {'$obj': M.jk(t)}])
                        plain.append(['set', key, {n: {'$obj': M.jk(t)}}])
                    if not a['required']:
                        plain.append(['assign', key, n, None])
            elif a['kind'] == 'coll':
                for k in ('c_iter', 'c_len', 'c_bool', 'c_count', 'c_empty', 'c_copy', 'c_str', 'c_load', 'c_select', 'c_clear'):
                    plain.append([k, key, n])
                plain.append(['c_assign', key, n, []])
                items = by_ent.get(a['type'], [])[:3]
                for t in items:
                    it = {'$obj': M.jk(t)}
                    for k in ('c_in', 'c_add', 'c_remove', 'c_iadd', 'c_isub'):
                        plain.append([k, key, n, it])
                    plain.append(['c_assign', key, n, [it]])
                    plain.append(['set', key, {n: [it]}])
                if n == 'kids':
                    plain.append(['c_create', key, n, dict(create_vals(d, 'C', 7), **_pk_kwargs(d, 'C', 7))])
        if setkw:
            plain.append(['set', key, setkw])
            one = sorted(setkw)[0]
            plain.append(['set', key, {one: setkw[one]}])
    for pk in sorted(model.aux):      # objects of the second database
        plain += [['x_read', pk], ['x_pk', pk], ['x_assign', pk, 555], ['x_set', pk, 556], ['x_delete', pk],
                  ['x_load', pk], ['x_flush', pk]]
    glob = [['g_commit'], ['g_flush'], ['g_rollback']] + [['g_select', e] for e in sorted(meta)]
    ops = list(plain) + glob
    ops += [['new', op] for op in plain + newonly]
    ops += [['new', ['g_select', e]] for e in sorted(meta)] + [['new', ['g_commit']], ['new', ['g_flush']]]
    return ops


def _pk_kwargs(d, e, i):
    d = M.norm_diagram(d)
    pk = new_pk(d, e, i)
    if M.is_symbolic(pk):
        return {}
    names = M.pk_attrs(M.attr_meta(d), e)
    if len(names) == 1:
        return {names[0]: pk}
    return dict(zip(names, pk))


def op_kind(op):
    return op[1][0] if op[0] == 'new' else op[0]


def op_classes(op, case, status):
    k = op_kind(op)
    cl = ['op:' + k, 'end:' + case['end'], 'form:' + case.get('form', 'with')]
    if case.get('gen'):
        cl.append('gen:' + case['gen'])
    if case.get('aux'):
        cl.append('two-databases')
    if case.get('fault'):
        cl.append('fault:' + case['fault'])
    if case.get('rb_fault'):
        cl.append('rollback-fault')
    if k == 'mutate':
        cl.append('mutate-via:' + (op[1] if op[0] == 'new' else op)[4])
    if status:
        cl.append('status:' + status)
    if case['strict']:
        cl.append('strict')
    if op[0] == 'new':
        cl.append('in-new-session')
    if k in M.WRITE_OPS or k in ('oflush', 'load', 'c_load', 'c_create'):
        cl.append('write-op')
    elif k.startswith('q_') or k.startswith('live_') or k.startswith('g_') or k == 'c_select':
        cl.append('use-op')
    else:
        cl.append('read-op')
    return cl


def nontrivial(op, case):
    k = op_kind(op)
    plain_read = k in ('read', 'pk', 'repr') and op[0] != 'new'
    readonly = all(a[0] in ('get', 'query_all') for a in case['prep'])
    return not (plain_read and readonly and not case['strict'] and case['end'] == 'commit')


# ------------------------------------------------------------------------------------------------
# running one case
# ------------------------------------------------------------------------------------------------

def run_case(env, case, on_op=None, on_fail=None):
    """-> (message or None, info).  info['failing'] describes the operation the message is about.
    on_fail(msg, info) -> True means: counted as an open known finding, go on with the next operation"""
    M.cleanup_session_state(env)
    p = M.prepare(env, case)
    oracle = p.oracle
    for i, op in enumerate(case['ops']):
        out = M.exec_op(env, p.objs, op)
        if out.get('skip'):
            continue
        msg = oracle.judge(op, out)
        if on_op is not None:
            on_op(i, op, out, msg)
        if msg:
            info = {'failing': {'index': i, 'op': op, 'outcome': out, 'stage': 'op'}}
            if on_fail is not None and on_fail(msg, info):
                continue
            return msg, info
    # every attribute of every leftover object again: refused operations must not have changed anything readable
    for op in M.sweep_ops(p.model):
        if not op[0].startswith('x_') and M.hk(op[1]) not in p.objs:
            continue
        out = M.exec_op(env, p.objs, op)
        msg = oracle.judge(op, out)
        if msg:
            info = {'failing': {'op': op, 'outcome': out, 'stage': 'sweep'}}
            if on_fail is not None and on_fail('after the operations: ' + msg, info):
                continue
            return 'after the operations: ' + msg, info
    msg = M.finish_check(p)
    if msg:
        info = {'failing': {'stage': 'database'}}
        if on_fail is not None and on_fail(msg, info):
            return None, {}
        return msg, info
    return None, {}


def describe(case):
    return ('diagram=%s prep=%s end=%s form=%s strict=%s' %
            (json.dumps(case['diagram'], sort_keys=True), json.dumps(case['prep']), case['end'],
             case.get('form', 'with') + ('/' + case['gen'] if case.get('gen') else ''), case['strict'])
            + ((' fault=%s' % case['fault']) if case.get('fault') else '')
            + ((' final ROLLBACK/release fails on %s' % case['rb_fault']) if case.get('rb_fault') else '')
            + ((' second database %s: %s' % (case['aux']['order'], json.dumps(case['aux']['script']))) if case.get('aux') else ''))


def full_message(case, msg):
    return '%s | after a session with %s' % (msg, describe(case))


def minimise_ops(env, case, info):
    """shrink the operation list of a failing grid case (each try re-runs the whole scenario)"""
    ops = case['ops']
    budget = [400]

    def fails(sub):
        if budget[0] <= 0:
            return None
        budget[0] -= 1
        c = dict(case, ops=sub)
        try:
            msg, inf = run_case(env, c)
        except (M.Rejected, M.InSessionError):
            return None
        return (msg, inf) if msg else None
    f = info.get('failing', {})
    if f.get('stage') == 'op':
        i = f['index']
        r = fails([ops[i]])
        if r:
            return dict(case, ops=[ops[i]]), r[0], r[1]
        ops = ops[:i + 1]
    # shortest failing prefix, then greedy removal
    lo, hi = 1, len(ops)
    best = (ops, None)
    while lo < hi:
        mid = (lo + hi) // 2
        r = fails(ops[:mid])
        if r:
            hi = mid
            best = (ops[:mid], r)
        else:
            lo = mid + 1
    cur = ops[:hi]
    r = fails(cur)
    if not r:
        return case, None, None
    i = len(cur) - 2
    while i >= 0 and budget[0] > 0:
        trial = cur[:i] + cur[i + 1:]
        r2 = fails(trial)
        if r2:
            cur, r = trial, r2
        i -= 1
    return dict(case, ops=cur), r[0], r[1]


def order_ops(ops, seed, sk):
    """seed-dependent order of the complete operation list (no random module: sort by a keyed hash)"""
    def key(op):
        return hashlib.sha1(('%d|%s|%s' % (seed, sk, json.dumps(op, sort_keys=True))).encode()).hexdigest()
    return sorted(ops, key=key)


class EnvPool(object):
    """one Database per diagram per shard (rows are restored raw before every scenario)"""

    def __init__(self, workdir):
        self.workdir = workdir
        self.envs = {}
        self.n = 0

    def get(self, diagram, data):
        k = chash([diagram, data])
        env = self.envs.get(k)
        if env is None:
            self.n += 1
            env = M.build_env(diagram, os.path.join(self.workdir, 'c32_%d.sqlite' % self.n))
            M.load_data(env, data)
            self.envs[k] = env
        return env

    def close(self):
        for env in self.envs.values():
            M.close_env(env)
        self.envs = {}


def grid_scenarios(tier):
    diagrams = GRID_DIAGRAMS_QUICK if tier == 'quick' else GRID_DIAGRAMS_THOROUGH
    out = []
    for di, d in enumerate(diagrams):
        d = M.norm_diagram(d)
        data = grid_data(d)
        for status, prep in presets(d):
            for form, gen, end in session_variants():
                for strict in (False, True):
                    if tier == 'quick' and form != 'with' and (di > 0 or (form == 'decorator' and end == 'commit_exception')):
                        continue        # quick tier: decorator and generator forms only with the first diagram
                    case = {'diagram': d, 'data': data, 'prep': prep, 'end': end, 'form': form, 'strict': strict}
                    if gen:
                        case['gen'] = gen
                    if end == 'commit_fault':
                        case['fault'] = 'main'
                    out.append((status, case))
                    # the same session whose connection dies at its end: the final ROLLBACK / release fails
                    if gen in (None, 'exhaust') and end != 'commit_exception':
                        if tier == 'quick' and not (form == 'with' or (form == 'decorator' and end == 'exception')):
                            continue
                        out.append((status, dict(case, rb_fault='main')))
        # sessions that span two databases: the second one is touched before or after the first, read or written,
        # and the final commit may fail on either of them
        two = [x for x in presets(d) if x[0] in (('loaded', 'modified', 'created_linked') if tier == 'quick' else
                                                 ('loaded', 'modified', 'created_linked', 'deleted', 'coll_loaded', 'stub'))]
        if tier == 'quick' and di > 0:
            two = []
        for status, prep in two:
            for order in ('first', 'last'):
                for akind, ascript in sorted(AUX_SCRIPTS.items()):
                    for end, fault in [('commit', None), ('rollback', None), ('exception', None),
                                       ('commit_fault', 'main'), ('commit_fault', 'aux')]:
                        for strict in (False, True):
                            for form in FORMS:
                                if tier == 'quick' and form == 'decorator' and end != 'commit_fault':
                                    continue
                                case = {'diagram': d, 'data': data, 'prep': prep, 'end': end, 'form': form, 'strict': strict,
                                        'aux': {'order': order, 'script': ascript}}
                                if fault:
                                    case['fault'] = fault
                                out.append((status + '+db2_' + akind, case))
    return out


def evaluate(ctx, env, case, status, shrink_ops):
    """run a case, account for every operation, report violations (open known findings are counted and skipped)"""
    sk = chash([case['diagram'], case['data'], case['prep'], case['end'], case.get('form'), case.get('gen'), case['strict'],
                case.get('aux'), case.get('fault'), case.get('rb_fault')])

    def on_op(i, op, out, msg):
        sample = None
        if len(ctx.samples) < 6 and (i % 97 == 5):
            sample = {'session': describe(case), 'op': op, 'outcome': out}
        ctx.case(key=chash([sk, op]), nontrivial=nontrivial(op, case),
                 classes=op_classes(op, case, status) + (['grid'] if status else ['random', 'random:seq%d' % min(len(case['ops']), 5)]),
                 sample=sample)

    def on_fail(msg, info):
        f = info['failing']
        fcase, fmsg, finfo = case, msg, info
        pre = dict(case, failing=f)
        if ctx.excluded_by(pre, full_message(pre, msg)) is not None:
            ctx.fail(pre, full_message(pre, msg))       # counted as excluded, returns
            ctx.count('excluded-known-finding')
            return True
        if shrink_ops:
            # grid: try the operation alone on a fresh copy of the scenario (a second Database on another file)
            c2, m2, i2 = minimise_ops(env_for_shrinking(), case, info)
            if m2:
                fcase, fmsg, finfo = c2, m2, i2
        fcase = dict(fcase, failing=finfo.get('failing'))
        ctx.fail(fcase, full_message(fcase, fmsg))      # raises unless it is an open known finding
        ctx.count('excluded-known-finding')
        return f.get('stage') != 'database' or True

    def env_for_shrinking():
        if shrink_env[0] is None:
            shrink_env[0] = M.build_env(case['diagram'], os.path.join(ctx.workdir, 'c32_shrink.sqlite'))
            M.load_data(shrink_env[0], case['data'])
        return shrink_env[0]
    shrink_env = [None]
    try:
        try:
            run_case(env, case, on_op, on_fail)
        except M.InSessionError as r:
            ctx.inconclusive += 1
            ctx.count('in-session-script-failed')
            rs = ctx.extra.setdefault('in_session_failure_samples', [])
            if len(rs) < 3:
                rs.append({'script': case['prep'], 'pony_says': str(r)[:200]})
        except M.Rejected as r:
            ctx.rejected += 1
            ctx.count('rejected-script')
            rs = ctx.extra.setdefault('rejection_samples', [])
            if len(rs) < 4:
                rs.append({'script': case['prep'], 'end': case['end'], 'pony_says': str(r)[:200]})
    finally:
        if shrink_env[0] is not None:
            M.cleanup_session_state(shrink_env[0])
            M.close_env(shrink_env[0])


def run_grid(ctx, pool):
    scen = grid_scenarios(ctx.tier)
    for k, (status, base) in enumerate(scen):
        if k % ctx.nshards != ctx.shard:
            continue
        ctx.check_time()
        env = pool.get(base['diagram'], base['data'])
        model = M.Model(base['diagram'], base['data'])
        for act in M.effective_script(base)[0]:
            if not model.apply(act):
                raise M.HarnessError('grid script step %r invalid (%s)' % (act, status))
        for act in (base.get('aux') or {}).get('script', []):
            model.apply_aux(act)
        ops = order_ops(all_ops(model, base['diagram']), ctx.seed, k)
        if ctx.tier == 'quick' and (base['form'] != 'with' or base.get('aux') or base.get('rb_fault') or
                                    base['diagram'] != M.norm_diagram(GRID_DIAGRAMS_QUICK[0])):
            ops = ops[::2]      # quick tier: complete for with-block sessions of the first diagram, a seed-dependent
                                # half of the operations everywhere else
        evaluate(ctx, env, dict(base, ops=ops), status, shrink_ops=True)


# ------------------------------------------------------------------------------------------------
# hypothesis part
# ------------------------------------------------------------------------------------------------

def case_strategy(tier):
    from hypothesis import strategies as st

    words = st.sampled_from(['a', 'bb', 'Zed', 'x y', 'q1', u'été', 'o\'k', '%'])

    @st.composite
    def diagrams(draw):
        d = {'ppk': draw(st.sampled_from(['int', 'auto', 'str'])),
             'cpk': draw(st.sampled_from(['int', 'auto', 'composite'])),
             'tpk': draw(st.sampled_from(['int', 'str'])),
             'ref': draw(st.sampled_from(['required', 'optional'])),
             'unique': draw(st.booleans()), 'inherit': draw(st.booleans()), 'o2o': draw(st.booleans()),
             'lazy_set': draw(st.booleans()), 'json': draw(st.booleans()),
             'extra': draw(st.lists(st.tuples(st.sampled_from(['int', 'str', 'bool', 'float']), st.integers(0, 1),
                                              st.integers(0, 1)).map(list), max_size=2))}
        return M.norm_diagram(d)

    def scalar_value(draw, a, allow_none=True):
        t = a['type']
        if not a['required'] and t != 'str' and t not in M.JSON_TYPES and allow_none and draw(st.integers(0, 3)) == 0:
            return None
        if t == 'int':
            return draw(st.integers(-5, 50))
        if t == 'str':
            if a['required']:
                return draw(words)
            return draw(st.one_of(st.just(''), words))
        if t == 'bool':
            return draw(st.booleans())
        if t == 'json':
            return {'n': draw(st.integers(0, 9)), 'tags': draw(st.lists(st.sampled_from(['a', 'b']), max_size=2)),
                    'k': draw(st.sampled_from(['v', 'w'])), 'm': 1, 'seen': []}
        if t == 'intarray':
            return draw(st.lists(st.integers(0, 9), min_size=1, max_size=3))
        return draw(st.integers(-8, 8)) * 0.5

    @st.composite
    def cases(draw):
        d = draw(diagrams())
        meta = M.attr_meta(d)
        np_, nt, nc = draw(st.integers(1, 3)), draw(st.integers(0, 3)), draw(st.integers(0, 4))
        data = {'P': [], 'T': [], 'C': []}
        for i in range(1, np_ + 1):
            row = {'id': pkof(d, 'P', i)}
            for a in meta['P']:
                if a['kind'] == 'scalar':
                    row[a['name']] = scalar_value(draw, a)
            data['P'].append(row)
        for i in range(1, nt + 1):
            row = {'id': pkof(d, 'T', i)}
            for a in meta['T']:
                if a['kind'] == 'scalar':
                    row[a['name']] = scalar_value(draw, a)
            data['T'].append(row)
        codes = set()
        for i in range(1, nc + 1):
            row = {}
            pk = pkof(d, 'C', i)
            if d['cpk'] == 'composite':
                row['a'], row['b'] = pk
            else:
                row['id'] = pk
            sub = d['inherit'] and draw(st.booleans())
            for a in meta['C']:
                if a['kind'] == 'scalar':
                    if a['sub'] and not sub:
                        continue
                    v = scalar_value(draw, a)
                    if a['unique'] and v is not None:
                        if v in codes:
                            v = None
                        else:
                            codes.add(v)
                    row[a['name']] = v
            if sub:
                row['_cls'] = 'C2'
            if d['ref'] == 'optional' and draw(st.integers(0, 3)) == 0:
                row['parent'] = None
            else:
                row['parent'] = pkof(d, 'P', draw(st.integers(1, np_)))
            row['tags'] = sorted(set(pkof(d, 'T', t) for t in draw(st.lists(st.integers(1, nt), max_size=3)))
                                 if nt else [], key=repr)
            data['C'].append(row)
        if d['o2o']:
            data['O'] = []
            owners = draw(st.lists(st.integers(1, nc), max_size=2, unique=True)) if nc else []
            for j, oi in enumerate(owners):
                data['O'].append({'id': j + 1, 'serial': 's%d' % j, 'owner': pkof(d, 'C', oi)})
        model = M.Model(d, data)
        prep = []
        nfresh = [0]

        def try_add(act):
            m2 = copy.deepcopy(model)
            if m2.apply(act):
                model.apply(act)
                prep.append(act)
                return True
            return False

        def keys_of(e=None, pred=None):
            return sorted((h for h, o in model.mem.items() if o['captured'] and not o['deleted'] and not o['deleted_ok'] and (e is None or h[0] == e)
                           and (pred is None or pred(h, o))), key=repr)

        def attrs_of(h):
            return [a for a in meta[h[0]] if not a['sub'] or model.sub_ok(h)]

        def pairs(kinds, pred=None):
            out = []
            for h in keys_of():
                for a in attrs_of(h):
                    if a['kind'] in kinds and (pred is None or pred(h, a)):
                        out.append((h, a))
            return out

        def pick(seq):
            return draw(st.sampled_from(seq)) if seq else None

        # phase 1: acquisition
        for _ in range(draw(st.integers(0, 8))):
            kind = draw(st.sampled_from(['get', 'get', 'get', 'query_all', 'ref', 'ref', 'members', 'members', 'read',
                                         'loadattr', 'loadobj', 'contains', 'count']))
            if kind == 'get':
                e = draw(st.sampled_from(sorted(meta)))
                rows = sorted(model.pending[e], key=repr)
                if rows:
                    pk = draw(st.sampled_from(rows))
                    try_add(['get', e, M.jk((e, pk))[1]])
            elif kind == 'query_all':
                try_add(['query_all', draw(st.sampled_from(sorted(meta)))])
            elif kind == 'ref':
                c = pick(pairs(('ref',), lambda h, a: model.mem[h]['state'][a['name']] == M.L
                               and (model.row(h) or {}).get(a['name']) is not None))
                if c:
                    try_add(['ref', M.jk(c[0]), c[1]['name']])
            elif kind in ('members', 'count'):
                c = pick(pairs(('coll',), lambda h, a: not model.mem[h]['created']))
                if c:
                    try_add([kind, M.jk(c[0]), c[1]['name']])
            elif kind == 'contains':
                c = pick(pairs(('coll',), lambda h, a: not model.mem[h]['created'] and keys_of(a['type'])))
                if c:
                    try_add(['contains', M.jk(c[0]), c[1]['name'], M.jk(pick(keys_of(c[1]['type'])))])
            elif kind == 'read':
                c = pick(pairs(('pk', 'scalar', 'ref', 'o2orev')))
                if c:
                    try_add(['read', M.jk(c[0]), c[1]['name']])
            elif kind == 'loadattr':
                c = pick(pairs(('scalar', 'ref')))
                if c:
                    try_add(['loadattr', M.jk(c[0]), c[1]['name']])
            else:
                h = pick(keys_of())
                if h:
                    try_add(['loadobj', M.jk(h)])
        # phase 2: modifications
        for _ in range(draw(st.integers(0, 7))):
            kind = draw(st.sampled_from(['assign', 'assign', 'assign_ref', 'create', 'add', 'remove', 'delete', 'flush',
                                         'commit', 'read', 'get'] + (['mutate', 'mutate'] if d['json'] else [])))
            if kind in ('flush', 'commit'):
                try_add([kind])
            elif kind == 'get':
                e = draw(st.sampled_from(sorted(meta)))
                rows = sorted((pk for pk in model.pending[e] if not M.is_symbolic(pk)), key=repr)
                if rows:
                    pk = draw(st.sampled_from(rows))
                    if (e, pk) not in model.mem or not model.mem[(e, pk)]['created']:
                        try_add(['get', e, M.jk((e, pk))[1]])
            elif kind == 'create':
                e = draw(st.sampled_from(['P', 'C', 'C', 'T']))
                nfresh[0] += 1
                i = 20 + nfresh[0]
                pk = new_pk(d, e, i)
                vals = {}
                for a in meta[e]:
                    if a['kind'] == 'scalar' and not a['sub'] and (a['required'] or draw(st.booleans())):
                        v = scalar_value(draw, a, allow_none=False)
                        if a['unique']:
                            v = 700 + i
                        vals[a['name']] = v
                if e == 'C':
                    ps = keys_of('P')
                    if ps and (d['ref'] == 'required' or draw(st.booleans())):
                        vals['parent'] = {'$obj': M.jk(draw(st.sampled_from(ps)))}
                    elif d['ref'] == 'required':
                        continue
                    ts = keys_of('T')
                    if ts and draw(st.booleans()):
                        vals['tags'] = [{'$obj': M.jk(t)} for t in draw(st.lists(st.sampled_from(ts), max_size=2, unique=True))]
                    if d['inherit'] and draw(st.booleans()):
                        vals['_cls'] = 'C2'
                try_add(['create', e, pk, vals])
            elif kind == 'delete':
                h = pick(keys_of())
                if h:
                    try_add(['delete', M.jk(h)])
            elif kind == 'read':
                c = pick(pairs(('pk', 'scalar', 'ref', 'o2orev')))
                if c:
                    try_add(['read', M.jk(c[0]), c[1]['name']])
            elif kind == 'assign':
                c = pick(pairs(('scalar',)))
                if c:
                    h, a = c
                    v = scalar_value(draw, a)
                    if a['unique'] and v is not None:
                        nfresh[0] += 1
                        v = 800 + nfresh[0]
                    try_add(['assign', M.jk(h), a['name'], v])
            elif kind == 'mutate':
                c = pick(pairs(('scalar',), lambda h, a: a['type'] in M.JSON_TYPES))
                if c:
                    h, a = c
                    mut = draw(st.sampled_from(JSON_MUTS if a['type'] == 'json' else ARRAY_MUTS))
                    try_add(['mutate', M.jk(h), a['name'], mut])
            elif kind == 'assign_ref':
                c = pick(pairs(('ref',), lambda h, a: a.get('reverse') != 'badge'))
                if c:
                    h, a = c
                    ts = keys_of(a['type'])
                    if not ts or (not a['required'] and draw(st.integers(0, 3)) == 0):
                        v = None
                    else:
                        v = {'$obj': M.jk(draw(st.sampled_from(ts)))}
                    try_add(['assign', M.jk(h), a['name'], v])
            else:
                c = pick(pairs(('coll',), lambda h, a: keys_of(a['type'])))
                if c:
                    h, a = c
                    try_add([kind, M.jk(h), a['name'], M.jk(pick(keys_of(a['type'])))])
        end = draw(st.sampled_from(ENDS + ['commit_fault']))
        form = draw(st.sampled_from(FORMS + ['generator']))
        strict = draw(st.booleans())
        case = {'diagram': d, 'data': data, 'prep': prep, 'end': end, 'form': form, 'strict': strict}
        if form == 'generator':
            case['gen'] = draw(st.sampled_from(GEN_ENDS))
            if case['gen'] != 'exhaust':
                case['end'] = 'rollback'
        elif draw(st.booleans()):
            # the session also works with a second database
            ascript = []
            for _ in range(draw(st.integers(1, 4))):
                act = draw(st.sampled_from([['get', 1], ['get', 2], ['get', 3], ['assign', 1, 71], ['assign', 2, 72],
                                            ['create', 8, 4], ['create', 9, 5]]))
                m2 = copy.deepcopy(model)
                if m2.apply_aux(act):
                    model.apply_aux(act)
                    ascript.append(act)
            if ascript:
                case['aux'] = {'order': draw(st.sampled_from(['first', 'last'])), 'script': ascript}
        if case['end'] == 'commit_fault':
            case['fault'] = draw(st.sampled_from(['main', 'aux'])) if case.get('aux') else 'main'
        if case.get('gen', 'exhaust') == 'exhaust' and draw(st.integers(0, 3)) == 0:
            case['rb_fault'] = draw(st.sampled_from(['main', 'aux'])) if case.get('aux') else 'main'
        pool_ops = all_ops(model, d)
        if not pool_ops:
            ops = []
        else:
            ops = draw(st.lists(st.sampled_from(pool_ops), min_size=1, max_size=12 if tier == 'quick' else 24))
        # random values instead of the fixed fresh ones for some assignments
        case['ops'] = ops
        return case
    return cases()


def adapt_live_targets(case):
    """grid operations name fixed 'live' rows (C4, P3, T2); random data may lack them -> drop such operations"""
    have = {e: set(M.hk([e, M.row_pk(M.attr_meta(case['diagram']), e, {k: (tuple(v) if isinstance(v, list) and k != 'tags' else v)
                                                                        for k, v in r.items()})])[1]
                   for r in case['data'].get(e, [])) for e in ('P', 'C', 'T')}
    deleted = set(M.hk(a[1]) for a in case['prep'] if a[0] in ('delete', 'remove'))
    deleted |= set(M.hk(a[3]) for a in case['prep'] if a[0] == 'remove')
    any_delete = any(a[0] in ('delete', 'remove') for a in case['prep'])
    out = []
    for op in case['ops']:
        inner = op[1] if op[0] == 'new' else op
        if inner[0] in ('live_assign', 'live_add'):
            e, pk = inner[2], M._pkval(inner[3])
            if pk not in have[e] or any_delete:
                continue
        if inner[0] == 'live_create' and any_delete:
            continue
        out.append(op)
    return dict(case, ops=out)


def run_random(ctx):
    import pony.orm  # noqa
    counter = [0]

    def t(case):
        case = adapt_live_targets(case)
        if not case['ops']:
            return
        counter[0] += 1
        path = os.path.join(ctx.workdir, 'c32_r%d.sqlite' % (counter[0] % 7))
        env = M.build_env(case['diagram'], path, with_aux=bool(case.get('aux')))
        try:
            try:
                M.load_data(env, case['data'])
            except M.HarnessError:
                raise
            evaluate(ctx, env, case, None, shrink_ops=False)
        finally:
            M.cleanup_session_state(env)
            M.close_env(env)
    ctx.run_test(t, {'case': case_strategy(ctx.tier)}, max_examples=ctx.scale(120, 2000), name='random_cases')


def run(ctx):
    pool = EnvPool(ctx.workdir)
    try:
        run_grid(ctx, pool)
    finally:
        pool.close()
    if ctx.violation is None:
        run_random(ctx)


def replay(case):
    """re-run ONE stored case without hypothesis; returns the violation message or None"""
    root = os.path.join(HOME, '.work')
    os.makedirs(root, exist_ok=True)
    tmp = tempfile.mkdtemp(prefix='c32replay_', dir=root)
    try:
        case = {k: v for k, v in case.items() if k != 'failing'}
        case['diagram'] = M.norm_diagram(case['diagram'])
        env = M.build_env(case['diagram'], os.path.join(tmp, 'replay.sqlite'))
        try:
            M.load_data(env, case['data'])
            try:
                msg, info = run_case(env, case)
            except (M.Rejected, M.InSessionError):
                return None
            return full_message(case, msg) if msg else None
        finally:
            M.cleanup_session_state(env)
            M.close_env(env)
    finally:
        shutil.rmtree(tmp, ignore_errors=True)
        try:
            os.rmdir(root)
        except OSError:
            pass


# ------------------------------------------------------------------------------------------------
# open known findings (narrow, by root cause)
# ------------------------------------------------------------------------------------------------

def _failing(case):
    f = case.get('failing') or {}
    op = f.get('op')
    if op and op[0] == 'new':
        op = op[1]
    return f, op, f.get('outcome') or {}


def _entity_flush_unchecked(case, message):
    """Entity.flush() has no liveness check: on a leftover object with unsaved changes (created / modified / marked to
    delete in a session that was rolled back) it fails with a bare AssertionError instead of DatabaseSessionIsOver"""
    f, op, out = _failing(case)
    return bool(op) and op[0] == 'oflush' and out.get('exc') == 'AssertionError'


def _close_without_connection(case, message):
    """SessionCache.close() returns before detaching the objects when the cache never opened a connection (a session
    that only created objects and was rolled back): strict mode is not applied, values stay readable"""
    f, op, out = _failing(case)
    if not (case.get('strict') and M.session_needs_no_database(case)):
        return False
    return 'ok' in out and 'strict session' in message


def _is_empty_unchecked(case, message):
    """SetInstance.is_empty() on a collection that is not loaded goes to the database without a liveness check: outside a
    session it fails with TransactionError('db_session is required...') instead of DatabaseSessionIsOver; inside a later
    db_session it queries through that session, answers True for a non-empty one-to-many collection and marks the
    leftover collection as loaded and empty (so later reads of that collection are wrong too)"""
    f, op, out = _failing(case)
    if not op:
        return False
    if op[0] == 'c_empty':
        return ('ok' in out) or (out.get('exc') == 'TransactionError' and 'db_session is required' in out.get('msg', ''))
    # later reads of a collection that an earlier is_empty() call has marked as loaded
    if op[0] in M.COLL_READ_OPS or op[0] in ('c_select',):
        target = (json.dumps(op[1]), op[2])
    elif op[0] == 'to_dict':
        target = (json.dumps(op[1]), None)
    else:
        return False
    if 'ok' not in out:
        return False
    ops = case.get('ops', [])
    upto = f.get('index', len(ops)) if f.get('stage') == 'op' else len(ops)
    for prev in ops[:upto]:
        inner = prev[1] if prev[0] == 'new' else prev
        if inner[0] == 'c_empty' and json.dumps(inner[1]) == target[0] and target[1] in (None, inner[2]):
            return True
    return False


def _to_dict_unsaved_member(case, message):
    """to_dict(with_collections=True) sorts the raw pk values of the collection items; a loaded collection of a leftover
    object that still holds a never-saved object (created without a pk value in a session that was rolled back) makes
    the sort fail with TypeError (None compared with int)"""
    f, op, out = _failing(case)
    if not op or op[0] != 'to_dict' or out.get('exc') != 'TypeError' or "'<' not supported" not in out.get('msg', ''):
        return False
    opts = op[2] or {}
    if not opts.get('with_collections') or opts.get('related_objects'):
        return False
    prep, end = M.effective_script(case)
    last_commit = max([i for i, a in enumerate(prep) if a[0] == 'commit'] + [-1])
    unsaved = any(a[0] == 'create' and M.is_symbolic(a[2]) for a in prep[last_commit + 1:])
    return unsaved and end in ('rollback', 'exception')


def _tracked_mutation_before_check(case, message):
    """an in-place change of a tracked Json / array value of a leftover object (data[k] = v, list.append, ...) is applied
    first and refused afterwards: DatabaseSessionIsOver is raised, but the in-memory snapshot has already changed
    (ormtypes.tracked_method calls the list/dict method before _changed_())"""
    f, op, out = _failing(case)
    if not op or not case.get('diagram', {}).get('json'):
        return False
    ops = case.get('ops', [])
    upto = f.get('index', len(ops)) if f.get('stage') == 'op' else len(ops)
    earlier = set()
    for prev in ops[:upto]:
        inner = prev[1] if prev[0] == 'new' else prev
        if inner[0] == 'mutate':
            earlier.add((json.dumps(inner[1]), inner[2]))
    if not earlier:
        return False
    key = json.dumps(op[1]) if len(op) > 1 else None
    if op[0] == 'mutate':       # a later in-place change meets a value that an earlier refused change has altered
        return (key, op[2]) in earlier and out.get('exc') in ('KeyError', 'IndexError', 'TypeError', 'AttributeError')
    if 'ok' not in out:
        return False
    if op[0] == 'read':
        return (key, op[2]) in earlier
    if op[0] == 'to_dict':
        return any(k == key for k, a in earlier)
    if op[0] == 'q_param' and len(op) > 3:
        return (key, op[3]) in earlier
    return False


def _partial_commit_leaves_primary_alive(case, message):
    """a with-block session over two databases whose final commit succeeds on the primary database (the one whose cache
    was created last) and then fails on the other one (PartialCommitException): db_session.__exit__ never releases the
    committed primary cache, so the objects of that database stay attached to a live cache (assignments succeed, loads die
    with an AssertionError) and the next db_session of the thread adopts the stale cache"""
    aux = case.get('aux')
    if not aux or case.get('end') != 'commit_fault' or case.get('form', 'with') != 'with':
        return False
    fault_on_secondary = (case.get('fault') == 'aux' and aux.get('order') == 'first') or \
                         (case.get('fault') == 'main' and aux.get('order') != 'first')
    return fault_on_secondary


EXCLUSIONS = {'tracked_mutation_before_check': _tracked_mutation_before_check,
              'partial_commit_leaves_primary_alive': _partial_commit_leaves_primary_alive,
              'to_dict_unsaved_member': _to_dict_unsaved_member,
              'entity_flush_unchecked': _entity_flush_unchecked,
              'close_without_connection': _close_without_connection,
              'is_empty_unchecked': _is_empty_unchecked}

MANIFEST = {
    'text': 'Complete enumeration, per fixed diagram, of object status presets x session end (commit, rollback(), exception, '
            'commit()+exception) x strict x session kind (with-block, decorated function, @db_session generator exhausted / closed / '
            'dropped / ended by a thrown Exception, GeneratorExit or KeyboardInterrupt), with every admissible operation applied to every leftover '
            'object outside a session and inside a fresh one (on the same leftovers, in a seed-dependent order), plus '
            'hypothesis-generated diagrams, rows, in-session scripts and operation sequences. Oracle: expected values come from '
            'the database read with plain sqlite3 and from the values the script assigned; loaded values readable iff not '
            'strict; every change, flush or load that needs the database raises DatabaseSessionIsOver (or the deleted-object '
            'error); the sqlite dump after all operations and two fresh committed sessions equals the dump at session end; all '
            'attributes are re-read after the operations. Exhaustive for the stated grid, sampled beyond it.',
    'note': 'SQLite only. Which values a script "certainly loaded" is decided by a conservative reference model (when unsure, '
            'the correct value or DatabaseSessionIsOver is accepted). Values assigned and then rolled back may read as either '
            'the assigned or the database value. Leftovers of two different earlier sessions mixed in one operation, pickling, '
            'and multi-threaded use are not covered.',
    'technique': 'bounded-exhaustive scenario x operation grid + hypothesis-generated scripts against a raw-SQL/reference-model oracle',
}
