"""C08 Validation enforces declared attribute constraints.

For every attribute declaration of a finite grid (and for random declarations drawn by hypothesis) a fresh in-memory
SQLite Database with one entity is built; every candidate value on, next to and across each declared or size-implied
bound (plus None, '' and whitespace) is pushed through every path the property names:

  constructor E(a=v) . attribute assignment obj.a = v . obj.set(a=v) . creation with the attribute omitted (default)
  lookups E.get(a=v), E.exists(a=v), E.select(a=v), E.select().filter(a=v), E.select().where(a=v), E[v] for keys

Oracle: vlib.c08_ref.verdict -- a reference predicate written from the documented option semantics, independent of
pony's converters.  A value the reference rejects must raise ValueError/TypeError on every path (never be stored,
never be silently compared); a value it accepts must be taken, read back as the documented normalised value (exact
type), survive flush, and be found again by every lookup.
"""
import itertools
from decimal import Decimal
from vlib import c08_ref as ref
from vlib.c08_ref import enc, dec

ID = 'C08'
LEVEL = 'exploration'
RULE = ('grid (complete in both tiers): int x size {none,8,16,24,32,64} x unsigned x min in {none,-100,-1,0,1,implied limit,'
        'limit+1} x max in {none,-1,0,1,100,implied limit,limit-1} x Required/Optional; float and Decimal min,max in {none,-1,0,1,'
        '0.0,-0.0,fractions (Decimal: incl. 0.1, -0.7, 1.1),extremes; int- and exact-typed} (Decimal x 5 precision/scale pairs); str max_len {none,1,2,5,40} x '
        'autostrip {absent,True,False} x Required/Optional/nullable; bool; py_check callables; unique and '
        'PrimaryKey variants; default values (plain and callable) on and across bounds; sql_default/volatile variants (missing value unspecified, all other rules unchanged); canonical integer strings given to int attributes. random: hypothesis declarations with '
        'bounds to +-2^63 / 1e300 / any scale plus extra random candidates. A case is one (declaration, candidate value) pair '
        'evaluated on all paths (constructor, assignment, set(), get/exists/select/filter/where[/E[v]]); candidates are the '
        'values on, +-1/+-2 steps around every declared or size-implied bound, fixed probes, None, \'\' and whitespace; '
        'exact-type values plus, for float/Decimal attributes, the same numbers given as int/float (float -> Decimal incl. '
        'floats that are not binary fractions, on and around the bounds). Non-trivial = candidate is None or within one step (int 1, float 1.0 or 1 ulp, Decimal one quantum, '
        'str length within 1 of max_len / changed by strip) of a bound; distinct by (declaration, value).')
ASSUMPTIONS = ['SQLite in-memory through pony.orm.dbproviders.sqlite (other providers share Attribute.validate and the '
               'dbapiprovider converters but their sized column types are not exercised)',
               'vlib.c08_ref is the documented meaning of Required/Optional/nullable/min/max/size/unsigned/max_len/'
               'autostrip/py_check/default; int without size and unsigned is asserted only inside the signed 32-bit range',
               'a numeric input of another numeric type denotes the same number in the declared type: int -> float(v), '
               'int -> Decimal(v), float -> Decimal(repr(v)) (shortest round-trip string, Python semantics); not stated in the '
               'documentation, taken from the evident intent of the converters and the pinned suite (Required(Decimal, default=0))',
               'str(n) given to an int attribute denotes n (canonical literals only); sql_default/volatile only exempt a missing value',
               'Decimal candidates are limited to values representable at the declared precision/scale (<= 15 digits); '
               'float lookups allow neighbours within relative 1e-12 (pony compares floats with a tolerance)']
SHARDS = {'quick': 4, 'thorough': 16}
MIN_EVALS = {'quick': 40000, 'thorough': 400000}
CLASS_FLOORS = {'verdict:reject': 0.15, 'verdict:accept': 0.25, 'nontrivial': 0.10, 'zero_bound': 0.05, 'random': 0.05,
                'py_check': 0.03, 'key': 0.03, 'has_default': 0.03, 'coerced:float->Decimal': 0.02,
                'coerced:float->Decimal:not_binary': 0.01, 'coerced:int->Decimal': 0.01, 'coerced:int->float': 0.01, 'coerced:str->int': 0.03, 'db_filled': 0.02}
EXHAUSTIVE = {'quick': True, 'thorough': True}

LOOKUPS = ('get', 'exists', 'select', 'filter', 'where')


# ------------------------------------------------------------------------------------------------ grid
def _spec(kind, t, opts=None, py_check=None, **kw):
    s = {'kind': kind, 'type': t, 'opts': dict(opts or {})}
    if py_check: s['py_check'] = py_check
    s.update(kw)
    return s


def grid():
    out = []
    # int: size x unsigned x min x max x Required/Optional
    for size in (None,) + ref.SIZES:
        for unsigned in (None, True, False):
            base = {}
            if size is not None: base['size'] = size
            if unsigned is not None: base['unsigned'] = unsigned
            if size is None and unsigned is False: continue       # same as absent
            if size == 64 and unsigned: continue
            lo, hi = ref.int_range(base) or ref.INT32
            mins = [None, -1, 0, 1, lo, lo + 1, -100]
            maxs = [None, -1, 0, 1, hi, hi - 1, 100]
            for mn, mx in itertools.product(mins, maxs):
                o = dict(base)
                if mn is not None: o['min'] = enc(mn)
                if mx is not None: o['max'] = enc(mx)
                for kind in ('Required', 'Optional'):
                    if unsigned is False and kind == 'Optional': continue
                    out.append(_spec(kind, 'int', o))
    # float
    fb = [None, -1, 0, 1, 0.0, -0.0, -1.5, 2.25, 1e-300, -1e300]
    for mn, mx in itertools.product(fb, fb):
        o = {}
        if mn is not None: o['min'] = enc(mn)
        if mx is not None: o['max'] = enc(mx)
        for kind in ('Required', 'Optional'):
            out.append(_spec(kind, 'float', o))
    # Decimal
    db_ = [None, -1, 0, 1, Decimal('0'), Decimal('0.00'), Decimal('-0.5'), Decimal('2.25'), Decimal('0.005'),
           Decimal('0.1'), Decimal('-0.7'), Decimal('1.1')]        # the last three are not binary fractions
    for ps in (None, (5, 2), (4, 1), (3, 3), (15, 4)):
        for mn, mx in itertools.product(db_, db_):
            o = {}
            if ps: o['precision'], o['scale'] = ps
            if mn is not None: o['min'] = enc(mn)
            if mx is not None: o['max'] = enc(mx)
            for kind in ('Required', 'Optional'):
                if ps not in (None, (5, 2)) and kind == 'Optional': continue
                out.append(_spec(kind, 'Decimal', o))
    # str
    for ml in (None, 1, 2, 5, 40):
        for autostrip in (None, True, False):
            for kind, nullable in (('Required', None), ('Optional', None), ('Optional', True), ('Optional', False)):
                o = {}
                if ml is not None: o['max_len'] = ml
                if autostrip is not None: o['autostrip'] = autostrip
                if nullable is not None: o['nullable'] = nullable
                out.append(_spec(kind, 'str', o))
                out.append(_spec(kind, 'str', o, py_check='has_x'))
    # attributes whose missing value the database supplies (sql_default / volatile): every other rule is unchanged
    SQLDEF = {'str': "'zz'", 'int': '1', 'float': '1.5', 'Decimal': '1.5', 'bool': '1'}
    fills = lambda t: [{'sql_default': SQLDEF[t]}, {'sql_default': True}, {'volatile': True}, {'sql_default': SQLDEF[t], 'volatile': True}]
    for ml in (None, 1, 2, 5):
        for autostrip in (None, False):
            for kind in ('Required', 'Optional'):
                for f in fills('str'):
                    o = dict(f)
                    if ml is not None: o['max_len'] = ml
                    if autostrip is not None: o['autostrip'] = autostrip
                    out.append(_spec(kind, 'str', o))
    for t, olist in (('int', [{}, {'min': enc(0)}, {'size': 8}, {'size': 8, 'unsigned': True, 'max': enc(100)}]),
                     ('float', [{'min': enc(0), 'max': enc(1.5)}]), ('Decimal', [{'min': enc(Decimal('0.1')), 'max': enc(1)}]),
                     ('bool', [{}])):
        for o in olist:
            for f in fills(t):
                for kind in ('Required', 'Optional'):
                    out.append(_spec(kind, t, dict(o, **f)))
                    if t != 'bool': out.append(_spec(kind, t, dict(o, **f), py_check=ref.PY_CHECKS_FOR[t][-1]))
    # bool
    for kind in ('Required', 'Optional'):
        out.append(_spec(kind, 'bool'))
        for pc in ref.PY_CHECKS_FOR['bool']:
            out.append(_spec(kind, 'bool', py_check=pc))
    # py_check on numeric / string declarations, with and without bounds
    numo = {'int': [{}, {'min': enc(0)}, {'min': enc(-3), 'max': enc(100)}, {'size': 8}, {'size': 16, 'unsigned': True}],
            'float': [{}, {'min': enc(0.0)}, {'min': enc(-3.5), 'max': enc(100.0)}],
            'Decimal': [{}, {'min': enc(Decimal(0))}, {'min': enc(Decimal('-3.5')), 'max': enc(Decimal(100))}],
            'str': [{}, {'max_len': 2}, {'max_len': 3, 'autostrip': False}]}
    for t, olist in sorted(numo.items()):
        for o in olist:
            for pc in ref.PY_CHECKS_FOR[t]:
                for kind in ('Required', 'Optional'):
                    out.append(_spec(kind, t, o, py_check=pc))
    # unique attributes and primary keys (cache-index lookup path)
    keyo = {'int': [{}, {'min': enc(0)}, {'max': enc(0)}, {'min': enc(-1), 'max': enc(1)}, {'size': 8}, {'size': 8, 'unsigned': True},
                    {'size': 16, 'min': enc(0), 'max': enc(0)}, {'size': 64}, {'unsigned': True}],
            'str': [{}, {'max_len': 2}, {'max_len': 2, 'autostrip': False}, {'autostrip': False}],
            'Decimal': [{}, {'min': enc(Decimal(0))}, {'max': enc(0)}, {'precision': 4, 'scale': 1, 'min': enc(Decimal('-0.5')), 'max': enc(1)}]}
    for t, olist in sorted(keyo.items()):
        for o in olist:
            out.append(_spec('PrimaryKey', t, o))
            out.append(_spec('Required', t, dict(o, unique=True)))
            out.append(_spec('Optional', t, dict(o, unique=True)))
            if t != 'Decimal':
                pc = ref.PY_CHECKS_FOR[t][-1]
                out.append(_spec('PrimaryKey', t, o, py_check=pc))
                out.append(_spec('Required', t, dict(o, unique=True), py_check=pc))
    # defaults: every near-bound candidate of a few declarations becomes the default (plain and callable)
    defo = [('int', {'min': enc(0)}), ('int', {'max': enc(0)}), ('int', {'min': enc(-2), 'max': enc(3)}), ('int', {'size': 8}),
            ('int', {'size': 8, 'unsigned': True}), ('float', {'min': enc(0)}), ('float', {'max': enc(0.0)}),
            ('float', {'min': enc(-1.5), 'max': enc(2.25)}), ('Decimal', {'min': enc(Decimal(0)), 'max': enc(Decimal('2.25'))}),
            ('str', {'max_len': 2}), ('str', {'max_len': 2, 'autostrip': False}), ('str', {}), ('bool', {})]
    for t, o in defo:
        for kind in ('Required', 'Optional'):
            proto = _spec(kind, t, o, py_check='raise_neg' if t == 'int' and 'size' not in o else None)
            for v in ref.candidates(proto):
                if not ref.near_bound(proto, v): continue          # defaults on / next to / across the bounds only
                for call in ((False, True) if kind == 'Required' or t != 'str' else (False,)):
                    s = dict(proto, default=enc(v))
                    if call: s['default_callable'] = True
                    if ref.decl_problem(s) is None: out.append(s)
    res, seen = [], set()
    for s in out:
        if ref.decl_problem(s) is not None: continue
        k = repr(sorted(s.items(), key=repr))
        if k in seen: continue
        seen.add(k)
        res.append(s)
    return res


# ------------------------------------------------------------------------------------------------ harness
class DeclRejected(Exception):
    pass


def build(spec):
    from pony import orm
    db = orm.Database()
    o = spec['opts']
    kw = {}
    for name in ('size', 'unsigned', 'max_len', 'autostrip', 'nullable', 'precision', 'scale', 'unique', 'sql_default', 'volatile'):
        if o.get(name) is not None: kw[name] = o[name]
    for name in ('min', 'max'):
        if o.get(name) is not None: kw[name] = dec(o[name])
    if spec.get('py_check'): kw['py_check'] = ref.PY_CHECKS[spec['py_check']]
    if 'default' in spec:
        d = dec(spec['default'])
        kw['default'] = (lambda: d) if spec.get('default_callable') else d
    cls = {'Required': orm.Required, 'Optional': orm.Optional, 'PrimaryKey': orm.PrimaryKey}[spec['kind']]
    attrs = {}
    if spec['kind'] != 'PrimaryKey': attrs['id'] = orm.PrimaryKey(int, auto=True)
    attrs['a'] = cls(ref.PYTYPE[spec['type']], **kw)
    attrs['z'] = orm.Optional(int)
    try:
        E = type('E', (db.Entity,), attrs)
        db.bind('sqlite', ':memory:')
        db.generate_mapping(create_tables=True)
    except (TypeError, ValueError) as e:
        raise DeclRejected('%s: %s' % (type(e).__name__, e))
    return db, E


def _exc(e):
    return '%s: %s' % (type(e).__name__, str(e)[:200])


def decl_text(spec):
    o = spec['opts']
    parts = [spec['type']]
    for k in sorted(o):
        v = o[k]
        parts.append('%s=%r' % (k, dec(v) if isinstance(v, list) else v))
    if spec.get('py_check'): parts.append('py_check=%s' % spec['py_check'])
    if 'default' in spec:
        parts.append(('default=lambda: %r' if spec.get('default_callable') else 'default=%r') % (dec(spec['default']),))
    return 'a = %s(%s)' % (spec['kind'], ', '.join(parts))


class Runner(object):
    """evaluates candidates against one declaration; report(value, path, message) is called for every mismatch"""

    def __init__(self, spec, report):
        self.spec = spec
        text = decl_text(spec)
        self.report = lambda v, path, message: report(v, path, '%s: %s' % (text, message))
        self.db, self.E = build(spec)
        self.stored = {}        # normkey -> (pk, normalised value)
        self.base = None        # (pk, normalised value) of the object used by the assignment / set paths
        self.is_pk = spec['kind'] == 'PrimaryKey'
        self.is_key = self.is_pk or bool(spec['opts'].get('unique'))

    def close(self):
        self.db.disconnect()

    # -------------------------------------------------------------- creation
    def omitted(self):
        from pony.orm import db_session, flush, rollback
        spec, E = self.spec, self.E
        if self.is_pk: return
        want, exp = ref.omitted_verdict(spec)
        if want == 'unspecified': return
        with db_session:
            try: obj = E()
            except (ValueError, TypeError) as e:
                if want == 'accept':
                    self.report(None, 'omitted', 'E() with the attribute omitted raised %s; expected a == %r' % (_exc(e), exp))
                return
            try:
                got = obj.a
                if want == 'reject':
                    self.report(None, 'omitted', 'E() with the attribute omitted gave a == %r; expected an error (%s)' % (got, exp))
                elif not ref.same(got, exp):
                    self.report(None, 'omitted', 'E() with the attribute omitted gave a == %r; expected %r' % (got, exp))
                else:
                    try: flush()
                    except Exception as e:
                        self.report(None, 'omitted', 'E() with the attribute omitted was accepted (a == %r) but flush raised %s' % (got, _exc(e)))
            finally:
                rollback()

    def construct(self, v):
        """constructor path; an accepted, correctly normalised value is committed (one object per distinct value)"""
        from pony.orm import db_session, flush, commit, rollback
        spec, E = self.spec, self.E
        want, exp = ref.verdict(spec, v)
        with db_session:
            try: obj = E(a=v)
            except (ValueError, TypeError) as e:
                if want == 'accept':
                    self.report(v, 'constructor', 'E(a=%r) raised %s; the declaration admits the value (expected a == %r)' % (v, _exc(e), exp))
                return
            except Exception as e:
                self.report(v, 'constructor', 'E(a=%r) raised unexpected %s' % (v, _exc(e)))
                rollback()
                return
            keep = False
            try:
                got = obj.a
                if want == 'reject':
                    self.report(v, 'constructor', 'E(a=%r) was accepted (a == %r); the declaration forbids it: %s' % (v, got, exp))
                elif not ref.same(got, exp):
                    self.report(v, 'constructor', 'E(a=%r) gave a == %r; expected %r' % (v, got, exp))
                else:
                    key = ref.normkey(exp)
                    try:
                        if not self.is_key: flush()
                        elif key not in self.stored:     # an equal key value is already stored otherwise
                            found = E.get(a=v)           # same session: served from the cache index
                            if found is not obj:
                                self.report(v, 'get', 'E.get(a=%r) in the creating session returned %r, not the new object' % (v, found))
                            flush()
                    except Exception as e:
                        self.report(v, 'constructor', 'E(a=%r) was accepted (a == %r) but storing it raised %s' % (v, got, _exc(e)))
                    else:
                        if key not in self.stored:
                            pk = obj.get_pk()
                            commit()
                            keep = True
                            self.stored[key] = (pk, exp)
                            if self.base is None: self.base = (pk, exp)
            finally:
                if not keep: rollback()

    # -------------------------------------------------------------- assignment and set()
    def update(self, v, path):
        from pony.orm import db_session, flush, rollback
        spec, E = self.spec, self.E
        if self.is_pk or self.base is None: return False
        want, exp = ref.verdict(spec, v)
        pk, base_val = self.base
        call = 'obj.a = %r' % (v,) if path == 'assignment' else 'obj.set(a=%r)' % (v,)
        with db_session:
            obj = E[pk]
            try:
                try:
                    if path == 'assignment': obj.a = v
                    else: obj.set(a=v)
                except (ValueError, TypeError) as e:
                    if want == 'accept':
                        self.report(v, path, '%s raised %s; the declaration admits the value' % (call, _exc(e)))
                    elif not ref.same(obj.a, base_val):
                        self.report(v, path, '%s raised %s but left a == %r (was %r)' % (call, _exc(e), obj.a, base_val))
                    return True
                except Exception as e:
                    self.report(v, path, '%s raised unexpected %s' % (call, _exc(e)))
                    return True
                got = obj.a
                if want == 'reject':
                    self.report(v, path, '%s was accepted (a == %r); the declaration forbids it: %s' % (call, got, exp))
                elif not ref.same(got, exp):
                    self.report(v, path, '%s gave a == %r; expected %r' % (call, got, exp))
                elif not (self.is_key and ref.normkey(exp) in self.stored):
                    try: flush()
                    except Exception as e:
                        self.report(v, path, '%s was accepted (a == %r) but flush raised %s' % (call, got, _exc(e)))
            finally:
                rollback()
        return True

    # -------------------------------------------------------------- lookups
    def _near(self, v):
        if type(v) is not float: return set()
        out = set()
        for pk, u in self.stored.values():
            if type(u) is float and u != v and abs(u - v) <= 1e-12 * max(abs(u), abs(v)): out.add(pk)
        return out

    def lookups(self, v):
        from pony.orm import db_session, rollback, ObjectNotFound, MultipleObjectsFoundError
        spec, E = self.spec, self.E
        want, exp = ref.verdict(spec, v)
        if want == 'accept':
            hit = self.stored.get(ref.normkey(exp))
            if hit is None: return False          # the constructor path already failed for this value
            expected = {hit[0]}
        near = self._near(exp) if want == 'accept' else set()     # neighbours of the normalised value
        paths = LOOKUPS + (('getitem',) if self.is_pk else ())
        with db_session:
            try:
                for path in paths:
                    call = {'get': 'E.get(a=%r)', 'exists': 'E.exists(a=%r)', 'select': 'E.select(a=%r)',
                            'filter': 'E.select().filter(a=%r)', 'where': 'E.select().where(a=%r)', 'getitem': 'E[%r]'}[path] % (v,)
                    try:
                        if path == 'get':
                            o = E.get(a=v)
                            res = set() if o is None else {o.get_pk()}
                        elif path == 'exists':
                            res = E.exists(a=v)
                        elif path == 'select':
                            res = {o.get_pk() for o in E.select(a=v)}
                        elif path == 'filter':
                            res = {o.get_pk() for o in E.select().filter(a=v)}
                        elif path == 'where':
                            res = {o.get_pk() for o in E.select().where(a=v)}
                        else:
                            res = {E[v].get_pk()}
                    except (ValueError, TypeError) as e:
                        if want == 'accept':
                            self.report(v, path, '%s raised %s; the declaration admits the value' % (call, _exc(e)))
                        continue
                    except ObjectNotFound:
                        res = set()
                    except MultipleObjectsFoundError as e:
                        if want == 'accept' and near: continue
                        self.report(v, path, '%s raised %s' % (call, _exc(e)))
                        continue
                    except Exception as e:
                        self.report(v, path, '%s raised unexpected %s' % (call, _exc(e)))
                        continue
                    if want == 'reject':
                        self.report(v, path, '%s was answered (%r) instead of raising; the declaration forbids the value: %s'
                                    % (call, sorted(res, key=repr) if isinstance(res, set) else res, exp))
                    elif path == 'exists':
                        if res is not True:
                            self.report(v, path, '%s returned %r; an object with a == %r is stored' % (call, res, exp))
                    elif path in ('get', 'getitem'):
                        if not (res and res <= expected | near):
                            self.report(v, path, '%s returned %s; expected the object stored with a == %r (pk %r)'
                                        % (call, sorted(res, key=repr) or None, exp, sorted(expected, key=repr)))
                    elif not (expected <= res <= expected | near):
                        self.report(v, path, '%s returned pks %r; expected %r (objects stored with a == %r)'
                                    % (call, sorted(res, key=repr), sorted(expected, key=repr), exp))
            finally:
                rollback()
        return True


def evaluate(spec, values, report, on_case=None):
    """all paths for one declaration.  report(value, path, message); on_case(value) once per evaluated candidate"""
    want, why = ref.omitted_verdict(spec)
    try:
        r = Runner(spec, report)
    except DeclRejected as e:
        if want == 'unspecified':     # sql_default / volatile: the Python-side (implicit '') default is still validated
            want = ref.omitted_verdict(dict(spec, opts={k: x for k, x in spec['opts'].items() if k not in ('sql_default', 'volatile')}))[0]
        if want == 'reject' and ('default' in spec or spec['kind'] == 'Optional'):
            # the (declared or implicit '') default itself violates the declaration: refusing it when the mapping is
            # generated is as good as refusing it at creation time
            if on_case: on_case(None, 'default_rejected_at_mapping')
            return
        report(None, 'declaration', '%s: declaration inside the documented domain was refused: %s' % (decl_text(spec), e))
        return
    try:
        r.omitted()
        if on_case and ('default' in spec): on_case(None, 'default')
        # values the reference accepts first, so that the assignment/set paths have a stored object to work on
        order = sorted(range(len(values)), key=lambda i: (ref.verdict(spec, values[i])[0] != 'accept' or values[i] is None, i))
        for i in order:
            r.construct(values[i])
        for v in values:
            r.update(v, 'assignment')
            r.update(v, 'set')
            r.lookups(v)
            if on_case: on_case(v, None)
    finally:
        r.close()


def _case(spec, v, path, others=None):
    c = {'spec': spec, 'value': enc(v), 'path': path}
    if others is not None: c['others'] = [enc(x) for x in others]
    return c


def replay(case):
    spec = case['spec']
    if ref.decl_problem(spec) is not None:
        return None
    v = dec(case['value'])
    values = [dec(x) for x in case.get('others', [])]
    if case['path'] not in ('omitted', 'declaration') or v is not None:
        values = values + [v]
    problems = []

    def report(val, path, message):
        if repr(enc(val)) == repr(enc(v)):
            problems.append(message)
    evaluate(spec, values, report)
    return problems[0] if problems else None


def check_decl(ctx, spec, values, classes=()):
    """run one declaration under the accounting of ctx; mismatches go through ctx.fail (excluded ones are skipped)"""
    t = spec['type']

    def report(v, path, message):
        case = _case(spec, v, path)
        if ctx.excluded_by(case, message) is None:
            # minimal replayable case: the value alone if that reproduces, else together with its companions
            alone = [] if (v is None and path in ('omitted', 'declaration')) else [v]
            if not _problems_for(spec, alone, v):
                case = _case(spec, v, path, others=[x for x in values if repr(enc(x)) != repr(enc(v))])
        ctx.fail(case, message)

    def on_case(v, special):
        if special:
            ctx.case(key=[spec, special], nontrivial=True, classes=['type:' + t, special])
            return
        want = ref.verdict(spec, v)[0]
        nt = ref.near_bound(spec, v)
        cl = ['type:' + t, 'kind:' + spec['kind'], 'verdict:' + want] + list(classes)
        co = ref.coercion(t, v)
        if co:
            cl += ['coerced', 'coerced:' + co]
            if co == 'float->Decimal' and Decimal(v) != Decimal(repr(v)): cl.append('coerced:float->Decimal:not_binary')
        if nt: cl.append('nontrivial')
        if spec.get('py_check'): cl.append('py_check')
        if ref.db_filled(spec): cl.append('db_filled')
        if 'default' in spec: cl.append('has_default')
        if spec['opts'].get('unique') or spec['kind'] == 'PrimaryKey': cl.append('key')
        for b in ('min', 'max'):
            e = spec['opts'].get(b)
            if e is not None and dec(e) == 0: cl.append('zero_bound')
        ctx.case(key=[spec, enc(v)], nontrivial=nt, classes=cl,
                 sample={'decl': spec, 'value': enc(v), 'reference': want} if nt and ctx.evaluations % 97 == 0 else None)
    evaluate(spec, values, report, on_case)


def _problems_for(spec, values, v):
    out = []

    def report(val, path, message):
        if repr(enc(val)) == repr(enc(v)): out.append((path, message))
    try:
        evaluate(spec, values, report)
    except Exception:
        return []
    return out


# ------------------------------------------------------------------------------------------------ random declarations
def strategies():
    from hypothesis import strategies as st
    big = st.one_of(st.integers(-5, 5), st.integers(-300, 300), st.integers(-2 ** 63, 2 ** 63 - 1),
                    st.sampled_from([0, -1, 1, 127, 128, 255, 256, -128, -129, 32767, 65535, 2 ** 31 - 1, 2 ** 31, 2 ** 32 - 1, 2 ** 32]))
    fl = st.one_of(st.sampled_from([0.0, -0.0, 1.0, -1.0, 0.5]), st.floats(allow_nan=False, allow_infinity=False, width=64),
                   st.floats(-10, 10, allow_nan=False))
    text = st.text(st.sampled_from(list(u' \t\nxqa\xe9\xa0中')), max_size=8)

    @st.composite
    def case(draw):
        t = draw(st.sampled_from(['int', 'int', 'float', 'Decimal', 'str', 'bool']))
        kind = draw(st.sampled_from(['Required', 'Optional', 'Optional', 'PrimaryKey'] if t in ('int', 'str', 'Decimal')
                                    else ['Required', 'Optional']))
        o = {}
        extra = []
        if t == 'int':
            size = draw(st.sampled_from([None, 8, 16, 24, 32, 64]))
            unsigned = draw(st.sampled_from([None, True, False]))
            if size is not None: o['size'] = size
            if unsigned is not None and not (size == 64 and unsigned): o['unsigned'] = unsigned
            lo, hi = ref.int_range(o) or ref.INT32
            inr = st.one_of(st.integers(lo, hi), st.integers(max(lo, -3), min(hi, 3)), st.sampled_from([lo, hi, lo + 1, hi - 1]))
            for b in ('min', 'max'):
                if draw(st.booleans()): o[b] = enc(draw(inr))
            extra = draw(st.lists(st.one_of(big, inr, inr.map(str), big.map(str), st.sampled_from(['x', '1x', '--1'])), max_size=8))
        elif t == 'float':
            for b in ('min', 'max'):
                if draw(st.booleans()): o[b] = enc(draw(st.one_of(fl, st.integers(-3, 3))))
            extra = draw(st.lists(st.one_of(fl, st.integers(-5, 5), st.integers(-2 ** 53, 2 ** 53)), max_size=6))
        elif t == 'Decimal':
            if draw(st.booleans()):
                p = draw(st.integers(1, 15)); o['precision'] = p; o['scale'] = draw(st.integers(1, p))
            s = o.get('scale', 2); p = o.get('precision', 12)
            lim = 10 ** p - 1
            dv = st.integers(-lim, lim).map(lambda n: Decimal(n).scaleb(-s))
            small = st.integers(-min(lim, 500), min(lim, 500)).map(lambda n: Decimal(n).scaleb(-s))
            for b in ('min', 'max'):
                if draw(st.booleans()):
                    o[b] = enc(draw(st.one_of(dv, small, st.integers(-3, 3),
                                              st.integers(-5000, 5000).map(lambda n: Decimal(n).scaleb(-s - 1)))))
            asfloat = st.one_of(dv, small).map(float)          # kept only if the float prints as a fitting decimal
            extra = draw(st.lists(st.one_of(dv, small, asfloat, st.integers(-300, 300)), max_size=8))
        elif t == 'str':
            if draw(st.booleans()): o['max_len'] = draw(st.integers(1, 9))
            a = draw(st.sampled_from([None, True, False]))
            if a is not None: o['autostrip'] = a
            if kind == 'Optional':
                n = draw(st.sampled_from([None, True, False]))
                if n is not None: o['nullable'] = n
            extra = draw(st.lists(text, max_size=6))
        if kind != 'PrimaryKey' and t in ('int', 'str', 'Decimal') and draw(st.integers(0, 3)) == 0:
            o['unique'] = True
            if o.get('nullable') is False: del o['nullable']
        spec = {'kind': kind, 'type': t, 'opts': o}
        if kind != 'PrimaryKey' and draw(st.integers(0, 5)) == 0:
            fill = draw(st.sampled_from(['sql_default', 'sql_true', 'volatile', 'both']))
            lit = {'str': "'zz'", 'int': '1', 'float': '1.5', 'Decimal': '1.5', 'bool': '1'}[t]
            if fill in ('sql_default', 'both'): o['sql_default'] = lit
            if fill == 'sql_true': o['sql_default'] = True
            if fill in ('volatile', 'both'): o['volatile'] = True
        if draw(st.integers(0, 2)) == 0:
            spec['py_check'] = draw(st.sampled_from(ref.PY_CHECKS_FOR[t]))
        if kind != 'PrimaryKey' and not ref.db_filled(spec) and draw(st.integers(0, 3)) == 0:
            pool = [v for v in ref.candidates(spec, extra) if v is not None]
            pool = [v for v in pool if not (v == '' and kind != 'Optional')]
            if pool:
                spec['default'] = enc(draw(st.sampled_from(pool)))
                if draw(st.booleans()): spec['default_callable'] = True
        return spec, [enc(x) for x in extra]
    return case()


# ------------------------------------------------------------------------------------------------ entry points
def run(ctx):
    specs = grid()
    ctx.extra['grid_declarations'] = 0
    for k, spec in enumerate(specs):
        if k % ctx.nshards != ctx.shard: continue
        ctx.check_time()
        check_decl(ctx, spec, ref.candidates(spec), classes=['grid'])
        ctx.extra['grid_declarations'] += 1

    def t(c):
        spec, extra = c
        if ref.decl_problem(spec) is not None:
            ctx.count('generator:outside_domain')
            return
        check_decl(ctx, spec, ref.candidates(spec, [dec(x) for x in extra]), classes=['random'])

    ctx.run_test(t, dict(c=strategies()), max_examples=ctx.scale(250, 2500), name='random_declarations')


# ------------------------------------------------------------------------------------------------ known findings
def _zero_bound(case, message, t):
    """declared min == 0 and a negative candidate, or declared max == 0 and a positive candidate, that the reference
    rejects for that bound alone (the same declaration without the zero bound would admit the value)"""
    spec = case.get('spec') or {}
    if spec.get('type') != t: return False
    if not any(m in message for m in ('was accepted', 'was answered', 'expected an error')): return False
    v = dec(case['value'])
    if case.get('path') in ('omitted', 'declaration') and 'default' in spec: v = dec(spec['default'])
    if v is None or type(v) is not ref.PYTYPE[t]: return False
    o = spec['opts']
    mn, mx = ref.opt_value(o, 'min'), ref.opt_value(o, 'max')
    drop = None
    if mn is not None and mn == 0 and v < 0: drop = 'min'
    if mx is not None and mx == 0 and v > 0: drop = 'max'
    if drop is None: return False
    if ref.verdict(spec, v)[0] != 'reject': return False
    relaxed = dict(spec, opts={k: x for k, x in o.items() if k != drop})
    return ref.verdict(relaxed, v)[0] == 'accept'


def _int_zero_bound(case, message):
    """open finding C08-int-zero-bound: IntConverter.init stores `min_val or lowest` / `max_val or highest`, so a declared
    bound of 0 is replaced by the size-implied limit and values beyond 0 are accepted on every path"""
    return _zero_bound(case, message, 'int')


def _float_zero_bound(case, message):
    """open finding C08-float-zero-bound: RealConverter.validate tests `if converter.min_val and ...` /
    `if converter.max_val and ...`, so a declared float bound of 0 (0, 0.0, -0.0) is never enforced"""
    return _zero_bound(case, message, 'float')


EXCLUSIONS = {'int_zero_bound': _int_zero_bound, 'float_zero_bound': _float_zero_bound}

MANIFEST = {
    'text': 'Complete enumeration of a grid of attribute declarations (int size/unsigned/min/max incl. 0 and negative bounds, '
            'float and Decimal bounds, str max_len/autostrip/nullable, bool, py_check, unique/PrimaryKey, defaults) x candidate '
            'values on, next to and across every declared or size-implied bound, None and empty/blank strings, plus hypothesis-'
            'drawn declarations and values; each (declaration, value) is pushed through constructor, assignment, set(), omitted-'
            'attribute defaults and get/exists/select/filter/where/E[v] on live SQLite and compared with an independent reference '
            'predicate for acceptance and the normalised value. Exhaustive for the grid, sampled beyond it.',
    'note': 'Exact-type values plus int -> float, int -> Decimal and float -> Decimal inputs (a float denotes the decimal number it '
            'prints as); a canonical integer literal str(n) given to an int attribute denotes n, an unparseable str is rejected; other coercions (str -> float/Decimal, non-canonical strings, bool -> int, float -> int) are not asserted; for sql_default/volatile attributes a missing value (None/omitted) is not asserted; int without size/unsigned asserted only inside '
            'the signed 32-bit range; max_len=0, nan/inf, Decimal digits beyond precision/scale and non-SQLite providers are '
            'outside the asserted domain.',
    'technique': 'bounded-exhaustive declaration x boundary-value grid + hypothesis random declarations against a reference predicate',
}
