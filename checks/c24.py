"""C24 -- query methods agree with list semantics of the full ordered result.

For a generated, totally ordered query q with full result R (R itself is validated against the reference evaluator of
vlib/qgen.py), slicing, limit/offset, page(), first(), get(), exists(), count(), sum/min/max/avg/group_concat,
distinct()/without_distinct(), chained filter/where/order_by, random(), a limited query used as the source of another query
and bulk delete must return what the corresponding Python operation on R returns.
"""
import collections
from vlib import qgen
from checks import c01
from hypothesis import strategies as st

ID = 'C24'
LEVEL = 'exploration'
RULE = ('A case is (data set, base query, order, method operation): base query = entity or projection query with a generated '
        'condition from the C01 grammar; order = a total order (attribute keys asc/desc completed with the primary key); '
        'operation drawn from slices [a:b], limit/offset, page, first, get, exists, count, sum/min/max/avg/group_concat, '
        'distinct/without_distinct, filter/where chains, order_by variants, random(n), iteration over a limited subquery and '
        'bulk delete, with all non-negative bounds <= len+2. Non-trivial = the full result has >= 2 rows and the operation '
        'result differs from the full result or is an aggregate; distinct by (query text, operation, data hash).')
ASSUMPTIONS = ['live SQLite in-memory', 'reference evaluator vlib/qgen.py gives the full result R', 'ordering keys are non-null '
               'attributes (NULL ordering is not asserted)']
SHARDS = {'quick': 4, 'thorough': 16}
MIN_EVALS = {'quick': 600, 'thorough': 20000}
CLASS_FLOORS = {'accepted': 0.7}

OPS = ['slice', 'limit', 'page', 'first', 'get', 'exists', 'count', 'aggr', 'distinct', 'without_distinct', 'filter',
       'where', 'order_only', 'random', 'subquery', 'delete', 'len', 'order_twice', 'filter_twice', 'distinct_seq', 'subquery_slice']


@st.composite
def cases(draw):
    data = draw(qgen.datasets(max_a=5, max_b=7, max_c=3))
    ent = draw(st.sampled_from(['A', 'B', 'B', 'C']))
    cond = draw(st.one_of(st.none(), qgen.conditions('x', ent, 1)))
    shape = draw(st.sampled_from(['obj', 'obj', 'attr', 'tuple']))
    if cond is not None and qgen.has_coll_aggregate(cond):
        # with a projection (or an aggregate method) such a condition becomes HAVING over groups of the projected values
        # -- Pony's query-level aggregate semantics, not list semantics of per-object rows: entity results only
        shape = 'obj'
        agg_cond = True
    else:
        agg_cond = False
    attrs = [n for n in qgen.ENT_ATTRS[ent] if n in ('n', 's')]
    proj = None
    if shape == 'attr':
        proj = [draw(st.sampled_from(attrs))]
    elif shape == 'tuple':
        proj = ['id', draw(st.sampled_from(attrs))]
    order = [(draw(st.sampled_from(attrs)), draw(st.booleans())) for i in range(draw(st.integers(0, 2)))]
    op = draw(st.sampled_from([o for o in OPS if not (agg_cond and o == 'aggr')]))
    a = draw(st.integers(0, 9))
    b = draw(st.integers(0, 9))
    cond2 = draw(qgen.conditions('x', ent, 0, inner=True))
    fn = draw(st.sampled_from(['sum', 'min', 'max', 'avg', 'count', 'group_concat']))
    return {'data': data, 'ent': ent, 'cond': cond, 'proj': proj, 'order': order, 'op': op, 'a': a, 'b': b,
            'cond2': cond2, 'fn': fn, 'flag': draw(st.booleans())}


def sort_rows(envs, order, ent):
    """Python reference ordering: stable sorts applied from the last key to the first, completed by the primary key"""
    rows = sorted(envs, key=lambda o: o['id'])
    for name, desc_ in reversed(order):
        rows = sorted(rows, key=lambda o: o[name], reverse=desc_)
    return rows


def project(o, proj):
    if proj is None:
        return (o['_e'], o['id'])
    vals = tuple(o[n] for n in proj)
    return vals if len(vals) > 1 else vals[0]


def build_query(case, classes, env, order=True, extra_filter=None):
    """returns (pony query, description)"""
    from pony.orm import select, desc
    ent = case['ent']
    cls = classes[ent]
    proj = case['proj']
    if proj is None:
        elt = 'x'
    elif len(proj) == 1:
        elt = 'x.%s' % proj[0]
    else:
        elt = '(%s)' % ', '.join('x.%s' % n for n in proj)
    text = '%s for x in %s' % (elt, ent)
    if case['cond'] is not None:
        text += ' if %s' % qgen.render(case['cond'])
    params = qgen.params_of([case['cond'], case['cond2']])
    genv = dict(env)
    genv.update(params)
    q = select(text, genv, dict(params))
    desc_text = 'select(%s)' % text
    if order:
        if proj is None:
            keys = []
            for name, d in case['order']:
                keys.append(desc(getattr(cls, name)) if d else getattr(cls, name))
            keys.append(cls.id)
            q = q.order_by(*keys)
            desc_text += '.order_by(%s)' % ', '.join([('desc(%s.%s)' if d else '%s.%s') % (ent, n) for n, d in case['order']]
                                                     + ['%s.id' % ent])
        else:
            # attribute ordering is limited to entity results: projections are ordered by a lambda over the loop variable
            keys = ', '.join([('desc(x.%s)' if d else 'x.%s') % n for n, d in case['order']] + ['x.id'])
            q = eval(compile('q.order_by(lambda: (%s,))' % keys, '<q>', 'eval'), dict(genv, q=q, desc=desc))
            desc_text += '.order_by(lambda: (%s,))' % keys
    return q, desc_text, genv


def full_result(case, mirror):
    """R: ordered list of mirror objects selected by the base condition (reference evaluator)"""
    q = {'loops': [['x', ['ent', case['ent']]]], 'cond': case['cond'], 'result': ['obj', 'x']}
    rows, optional, unspecified = qgen.ref_rows(q, mirror)
    if optional or unspecified:
        return None
    objs = [mirror.objs[e][i] for (e, i) in rows]
    return sort_rows(objs, case['order'], case['ent'])


def check_case(ctx, case):
    from pony.orm import db_session, select, desc, MultipleObjectsFoundError
    data = case['data']
    db, classes = c01.World.get(data['opts'])
    c01.reset_data(db, classes, data)
    mirror = qgen.Mirror(data)
    env = c01.make_env(classes)
    R = full_result(case, mirror)
    op = case['op']
    if R is None:
        ctx.inconclusive += 1
        ctx.case(key=None, nontrivial=False, classes=['unspecified'])
        return
    proj = case['proj']
    ent = case['ent']
    cls = classes[ent]
    Rp = [project(o, proj) for o in R]                      # projected, ordered (bag)
    single_attr = proj is not None and len(proj) == 1
    # documented automatic DISTINCT for single-attribute projections: the *unordered* query is a set
    Rset = list(collections.OrderedDict.fromkeys(Rp)) if single_attr else Rp
    a, b = case['a'], case['b']
    n = len(R)
    a = a % (n + 3)
    b = b % (n + 3)
    msg = None
    desc_text = ''
    nontrivial = n >= 2
    accepted = True
    try:
        with db_session:
            q, desc_text, genv = build_query(case, classes, env)
            norm = lambda rows: [c01.norm_row(r) for r in rows]

            def expect(got, exp, what):
                if got != exp:
                    return '%s%s returned %r, list semantics give %r (full ordered result %r)' % (desc_text, what, got, exp, Rp)
                return None
            # the ordered bag a single-attribute projection yields is not asserted to be distinct or not (known
            # ambiguity: ORDER BY drops the automatic DISTINCT); list operations are asserted on queries whose result
            # cannot contain duplicates, or after an explicit distinct()/without_distinct()
            if single_attr:
                if case['flag']:
                    q = q.without_distinct()
                    desc_text += '.without_distinct()'
                    base = Rp
                else:
                    q = q.distinct()
                    desc_text += '.distinct()'
                    base = None        # ordered + distinct: the order of first occurrences is not specified
            else:
                base = Rp
            if op == 'slice':
                lo, hi = min(a, b), max(a, b)
                if base is not None:
                    msg = expect(norm(q[lo:hi]), base[lo:hi], '[%d:%d]' % (lo, hi))
                    nontrivial = nontrivial and (lo, hi) != (0, n)
            elif op == 'limit':
                if base is not None and a > 0:
                    msg = expect(norm(q.limit(a, offset=b)), base[b:b + a], '.limit(%d, offset=%d)' % (a, b))
            elif op == 'page':
                size = max(1, b)
                page = a + 1
                if base is not None:
                    msg = expect(norm(q.page(page, size)), base[(page - 1) * size:page * size], '.page(%d, %d)' % (page, size))
            elif op == 'first':
                if base is not None:
                    got = q.first()
                    msg = expect(c01.norm_row(got) if got is not None else None, base[0] if base else None, '.first()')
            elif op == 'get':
                exp_rows = Rset if single_attr and not case['flag'] else Rp
                try:
                    got = q.get()
                    got = ('value', c01.norm_row(got) if got is not None else None)
                except MultipleObjectsFoundError:
                    got = ('multiple',)
                exp = ('value', None) if not exp_rows else (('value', exp_rows[0]) if len(exp_rows) == 1 else ('multiple',))
                if single_attr and not case['flag'] and len(set(Rp)) == 1 and len(Rp) > 1:
                    exp = got      # distinct() of equal values: one row
                msg = expect(got, exp, '.get()')
                if msg is None and single_attr and not case['flag']:
                    # the unordered single-column query is DISTINCT (documented): get() must see the distinct result
                    q0, d0, _ = build_query(case, classes, env, order=False)
                    try:
                        got0 = q0.get()
                        got0 = ('value', c01.norm_row(got0) if got0 is not None else None)
                    except MultipleObjectsFoundError:
                        got0 = ('multiple',)
                    exp0 = ('value', None) if not Rset else (('value', Rset[0]) if len(Rset) == 1 else ('multiple',))
                    if got0 != exp0:
                        msg = '%s.get() gave %r, the distinct result is %r so list semantics give %r' % (d0, got0, Rset, exp0)
                if msg is None:
                    # a single-column query whose rows all hold the most frequent value: the DISTINCT result has one row
                    allrows = mirror.all(ent)
                    if allrows:
                        cnt_ = collections.Counter(o['n'] for o in allrows)
                        v = sorted(cnt_.items(), key=lambda kv: (-kv[1], kv[0]))[0][0]
                        try:
                            g1 = select('x.n for x in %s if x.n == v' % ent, dict(env), {'v': v}).get()
                            g1 = ('value', g1)
                        except MultipleObjectsFoundError:
                            g1 = ('multiple',)
                        if g1 != ('value', v):
                            msg = 'select(x.n for x in %s if x.n == %r).get() gave %r; %d rows hold that value and the distinct result is [%r]' % (
                                ent, v, g1, cnt_[v], v)
            elif op == 'exists':
                msg = expect(q.exists(), bool(Rp), '.exists()')
            elif op in ('count', 'len'):
                if single_attr and (not case['flag'] or op == 'count'):
                    exp = len(set(Rp))     # count() of a single column counts distinct values (documented default)
                else:
                    exp = len(Rp)
                got = q.count() if op == 'count' else len(q)
                msg = expect(got, exp, '.count()' if op == 'count' else ' len()')
            elif op == 'aggr':
                fn = case['fn']
                qa = select('x.%s for x in %s%s' % ('s' if fn == 'group_concat' else 'n', ent,
                                                    (' if ' + qgen.render(case['cond'])) if case['cond'] is not None else ''),
                            genv, {})
                vals = [o['s' if fn == 'group_concat' else 'n'] for o in R]
                if fn == 'group_concat':
                    got = qa.without_distinct().group_concat(',')
                    if any(',' in v for v in vals):
                        got = None
                    else:
                        got = sorted(got.split(',')) if got else []
                        msg = expect(got, sorted(vals), ' attribute s: .without_distinct().group_concat(",") (as multiset)')
                elif fn == 'count':
                    msg = expect(qa.count(), len(set(vals)), ' attribute n: .count() (distinct values)')
                    if msg is None:
                        msg = expect(qa.count(distinct=False), len(vals), ' attribute n: .count(distinct=False)')
                elif fn == 'sum':
                    msg = expect(qa.sum(), sum(vals), ' attribute n: .sum()')
                    if msg is None:
                        msg = expect(qa.sum(distinct=True), sum(set(vals)), ' attribute n: .sum(distinct=True)')
                elif fn == 'min':
                    msg = expect(qa.min(), min(vals) if vals else None, ' attribute n: .min()')
                elif fn == 'max':
                    msg = expect(qa.max(), max(vals) if vals else None, ' attribute n: .max()')
                elif fn == 'avg':
                    got = qa.avg()
                    exp = (sum(vals) / float(len(vals))) if vals else None
                    if (got is None) != (exp is None) or (got is not None and abs(got - exp) > 1e-9):
                        msg = expect(got, exp, ' attribute n: .avg()')
                nontrivial = n >= 2
            elif op == 'distinct':
                if proj is not None:
                    q0, d0, _ = build_query(case, classes, env, order=False)
                    got = norm(q0.distinct())
                    if len(got) != len(set(got)) or set(got) != set(Rp):
                        msg = '%s.distinct() returned %r, expected the distinct values of %r' % (d0, got, Rp)
            elif op == 'without_distinct':
                if proj is not None:
                    q0, d0, _ = build_query(case, classes, env, order=False)
                    got = norm(q0.without_distinct())
                    if collections.Counter(got) != collections.Counter(Rp):
                        msg = '%s.without_distinct() returned %r, expected the bag %r' % (d0, got, Rp)
            elif op in ('filter', 'where'):
                if base is not None and proj is None and 'attr' in qgen.features(case['cond2']):
                    c2 = case['cond2']
                    fn_src = '%s(lambda x: %s)' % (op, qgen.render(c2))
                    q2 = eval(compile('q.%s' % fn_src, '<q>', 'eval'), dict(genv, q=q))
                    keep = []
                    unspecified = False
                    for o in R:
                        envx = {'x': o, '__mirror__': mirror}
                        try:
                            if qgen.uses_missing_ref(c2, envx):
                                unspecified = True
                                break
                            if qgen.cond(c2, envx) is True:
                                keep.append(project(o, proj))
                        except qgen.Unspecified:
                            unspecified = True
                            break
                    if not unspecified:
                        msg = expect(norm(q2[:]), keep, '.' + fn_src)
            elif op == 'filter_twice':
                # one lambda code object applied several times with different captured values
                if base is not None and proj is None:
                    vals = [qgen.INTS[a % len(qgen.INTS)], qgen.INTS[b % len(qgen.INTS)], qgen.INTS[(a + b + 1) % len(qgen.INTS)]][:2 + case['flag']]

                    def ne(qq, v):
                        return qq.filter(lambda x: x.n != v)
                    q2 = q
                    for v in vals:
                        q2 = ne(q2, v)
                    keep = [project(o, proj) for o in R if all(o['n'] != v for v in vals)]
                    msg = expect(norm(q2[:]), keep, ''.join('.filter(lambda x: x.n != %r)' % v for v in vals) + ' [one lambda, applied repeatedly]')
                    if msg is None:
                        msg = expect(q2.count(), len(keep), ''.join('.filter(lambda x: x.n != %r)' % v for v in vals) + '.count()')
            elif op == 'distinct_seq':
                # the three distinct-ness variants of one query text, executed one after the other
                if proj is not None:
                    order3 = [['default', 'bag', 'set'], ['bag', 'default', 'set'], ['set', 'bag', 'default']][a % 3]
                    for variant in order3:
                        q0, d0, _ = build_query(case, classes, env, order=False)
                        if variant == 'bag':
                            got = norm(q0.without_distinct())
                            ok = collections.Counter(got) == collections.Counter(Rp)
                        elif variant == 'set':
                            got = norm(q0.distinct())
                            ok = len(got) == len(set(got)) and set(got) == set(Rp)
                        else:
                            got = norm(q0[:])
                            ok = set(got) == set(Rp) and (not single_attr or len(got) == len(set(got)))
                        if not ok:
                            msg = '%s as %s (after %s in the same process) returned %r; full bag is %r' % (d0, variant, order3, got, Rp)
                            break
            elif op == 'subquery_slice':
                # slicing a query that iterates over a limited subquery, including starts beyond the inner window
                if base is not None and proj is None and a > 0:
                    inner = q.limit(a, offset=b % 3)
                    outer = select(y for y in inner)
                    window = base[b % 3:b % 3 + a]
                    # starts inside and beyond the inner window (beyond it the remaining limit would become negative)
                    lo = (a + 1 + b % 2) if case['flag'] else (a + b) % (n + 4)
                    got = norm(outer[lo:])
                    exp = window[lo:]
                    if sorted(got, key=repr) != sorted(exp, key=repr):
                        msg = expect(sorted(got, key=repr), sorted(exp, key=repr),
                                     '.limit(%d, offset=%d) used as the source of another query, sliced [%d:]' % (a, b % 3, lo))
            elif op == 'order_only':
                # ordering only permutes the unordered result
                if single_attr:
                    q0, d0, _ = build_query(case, classes, env, order=False)
                    q1, d1, _ = build_query(case, classes, env, order=True)
                    unordered = norm(q0[:])
                    ordered = norm(q1[:])
                    if collections.Counter(unordered) != collections.Counter(ordered):
                        msg = '[order-changes-distinct] ordering changed the result as a multiset: %s gives %r, %s gives %r' % (
                            d0, unordered, d1, ordered)
                elif not single_attr:
                    q0, d0, _ = build_query(case, classes, env, order=False)
                    unordered = norm(q0[:])
                    ordered = norm(q[:])
                    if collections.Counter(unordered) != collections.Counter(ordered):
                        msg = 'ordering changed the result as a multiset: %s gives %r, %s gives %r' % (d0, unordered, desc_text, ordered)
                    elif base is not None and ordered != base:
                        msg = expect(ordered, base, '[:]')
            elif op == 'order_twice':
                if base is not None and proj is None:
                    # order_by by lambda / by attribute chains must agree
                    keys = ', '.join(('desc(x.%s)' if d else 'x.%s') % (nm,) for nm, d in case['order'])
                    keys = (keys + ', ' if keys else '') + 'x.id'
                    q0, d0, _ = build_query(case, classes, env, order=False)
                    q2 = eval(compile('q0.order_by(lambda x: (%s))' % keys, '<q>', 'eval'), dict(genv, q0=q0, desc=desc))
                    msg = expect(norm(q2[:]), base, ' vs .order_by(lambda x: (%s))' % keys)
                    if msg is None:
                        # the same ordering built step by step: every later order_by() becomes the primary key (like
                        # successive stable sorts), in mixed lambda / attribute forms
                        q3 = q0
                        steps = []
                        chain = [('id', False)] + list(reversed(case['order']))
                        for i_, (nm, d) in enumerate(chain):
                            if (a + i_) % 2:
                                q3 = eval(compile('q3.order_by(lambda x: %s)' % (('desc(x.%s)' if d else 'x.%s') % nm), '<q>', 'eval'),
                                          dict(genv, q3=q3, desc=desc))
                                steps.append('.order_by(lambda x: %s)' % (('desc(x.%s)' if d else 'x.%s') % nm))
                            else:
                                key = getattr(cls, nm)
                                q3 = q3.order_by(desc(key) if d else key)
                                steps.append('.order_by(%s)' % (('desc(%s.%s)' if d else '%s.%s') % (ent, nm)))
                        msg = expect(norm(q3[:]), base, ' vs the chain %s%s' % (d0, ''.join(steps)))
            elif op == 'random':
                k = a
                if k > 0:
                    q0, d0, _ = build_query(case, classes, env, order=False)
                    got = norm(q0.random(k))
                    pool = collections.Counter(Rset if single_attr else Rp)
                    gc = collections.Counter(got)
                    exp_len = min(k, sum(pool.values()))
                    if len(got) != exp_len or any(gc[r] > pool.get(r, 0) for r in gc):
                        tag = '[order-changes-distinct] ' if single_attr and set(got) <= set(Rp) and len(got) <= min(k, len(Rp)) else ''
                        msg = tag + '%s.random(%d) returned %r: expected %d rows drawn without repetition from %r' % (
                            d0, k, got, exp_len, sorted(pool.elements(), key=repr))
                    if msg is None and b > 0 and b != k:
                        # a second draw of another size in the same session (results of random() are never cacheable)
                        got2 = norm(q0.random(b))
                        gc2 = collections.Counter(got2)
                        exp_len2 = min(b, sum(pool.values()))
                        if len(got2) != exp_len2 or any(gc2[r] > pool.get(r, 0) for r in gc2):
                            tag = '[order-changes-distinct] ' if single_attr and set(got2) <= set(Rp) and len(got2) <= min(b, len(Rp)) else ''
                            msg = tag + '%s.random(%d) after .random(%d) in the same session returned %r: expected %d rows drawn ' \
                                        'without repetition from %r' % (d0, b, k, got2, exp_len2, sorted(pool.elements(), key=repr))
            elif op == 'subquery':
                if base is not None and proj is None and a > 0:
                    sub = q.limit(a, offset=b) if case['flag'] else q[b:b + a]
                    got = norm(select(y for y in sub)[:])
                    exp = base[b:b + a]
                    if sorted(got, key=repr) != sorted(exp, key=repr):
                        msg = expect(sorted(got, key=repr), sorted(exp, key=repr), ' limited to [%d:%d] used as the source of another query' % (b, b + a))
            elif op == 'delete':
                if proj is None:
                    q0, d0, _ = build_query(case, classes, env, order=False)
                    if case['flag']:
                        # the same queries are executed before the delete as well: their cached results must not survive it
                        q0[:]
                        select(x.id for x in cls)[:]
                    try:
                        cnt = q0.delete(bulk=True)
                    except Exception as e:
                        if type(e).__name__ in ('IntegrityError', 'TransactionIntegrityError'):
                            cnt = None       # a required dependent row exists: refused by the database
                        else:
                            raise
                    if cnt is not None:
                        con = db.get_connection()
                        left = sorted(r[0] for r in con.execute('select id from "%s"' % cls._table_).fetchall())
                        exp_left = sorted(o['id'] for o in mirror.all(ent) if o not in R)
                        if left != exp_left or cnt != len(R):
                            msg = '%s.delete(bulk=True) reported %r rows and left ids %r; the query selects ids %r, so %r should remain' % (
                                d0, cnt, left, sorted(o['id'] for o in R), exp_left)
                        if msg is None:
                            again = norm(q0[:])
                            ids_after = sorted(select(x.id for x in cls)[:])
                            if again or ids_after != exp_left:
                                msg = ('after %s.delete(bulk=True) in the same session the query itself returns %r (expected nothing) and '
                                       'select(x.id for x in %s) returns %r (expected %r)' % (d0, again, ent, ids_after, exp_left))
                    from pony.orm import rollback
                    rollback()
    except Exception as e:
        name = type(e).__name__
        if name in c01.REJECT:
            ctx.count('rejected:' + name)
            if getattr(ctx, 'debug', False):
                import traceback; traceback.print_exc()
            accepted = False
        else:
            ctx.count('error:' + name)
            accepted = False
    classes_ = ['op:' + op]
    if accepted:
        classes_.append('accepted')
    ctx.case(key=[desc_text, op, a, b, case['fn'], case['flag'], data], nontrivial=nontrivial and accepted, classes=classes_,
             sample={'query': desc_text, 'op': op, 'a': a, 'b': b, 'full_result_size': n} if nontrivial and accepted else None)
    if msg:
        ctx.fail(case, msg)


def run(ctx):
    def t(case):
        check_case(ctx, case)
    ctx.run_test(t, dict(case=cases()), max_examples=ctx.scale(1000, 6000), name='C24')


def replay(case):
    class Ctx(object):
        inconclusive = 0
        msg = None

        def count(self, *a, **k):
            pass

        def case(self, *a, **k):
            pass

        def fail(self, case, message):
            if self.msg is None:
                self.msg = message
    c = Ctx()
    check_case(c, case)
    return c.msg


def _order_drops_distinct(case, message):
    """open finding C24-order-by-drops-distinct: a single-attribute projection is DISTINCT by default, but adding
    order_by() drops the automatic DISTINCT, so the ordered query returns duplicates the unordered one does not."""
    # random(n) is ORDER BY RANDOM() LIMIT n: same root cause
    return (case.get('op') in ('order_only', 'random') and case.get('proj') is not None and len(case['proj']) == 1
            and '[order-changes-distinct]' in message)


EXCLUSIONS = {'order_by_drops_distinct': _order_drops_distinct}

MANIFEST = {
    'text': 'Generated ordered queries whose full result R is computed by the independent reference evaluator; every query method '
            'named in the property is applied with generated bounds and compared with the corresponding Python list/bag operation '
            'on R (validity predicates for random() and group_concat, raw table scan for bulk delete).',
    'note': 'SQLite only; ordering keys restricted to non-null attributes; the ordered result of a single-attribute projection is '
            'asserted only after an explicit distinct()/without_distinct(); trusts vlib/qgen.py.',
    'technique': 'property testing of query-method chains against list semantics of a reference result (hypothesis)',
}
