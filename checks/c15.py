"""C15 -- decided by the session interpreter (vlib/sessmachine.py) against the reference store (vlib/refstore.py)."""
from vlib import sesscheck

ID = 'C15'
LEVEL = 'exploration'
RULE = "Same program space as C09 with deletions weighted up over diagrams with every required/optional x cascade combination. Oracle: the reference store's cascade semantics decide whether a delete / collection removal must succeed or be refused (ConstraintError) and what it removes; after every commit a raw scan finds no foreign-key value or link row without a parent row and the tables equal the reference store. Non-trivial = a program with a delete that cascaded, cleared a reference or was refused; distinct by program hash. A share of the programs (one third; one half for C11/C13/C15) comes from the hub family: every relationship starts at one entity, with cascading/unlinking relationships declared around a refusing one, populated, and then aimed operations (pending updates of children, pending removals on the hub collections, new children with explicit keys) precede the delete of the hub, so that deletes refused after part of their cascade are common."
ASSUMPTIONS = ['live SQLite (in-memory) with foreign keys enforced immediately',
               'reference store vlib/refstore.py written from the documented relationship/cascade/key semantics (DESIGN.md section 7a)',
               'table and column names are taken from the mapping metadata (names only)']
SHARDS = {'quick': 8, 'thorough': 16}
MIN_EVALS = {'quick': 3000, 'thorough': 5000}
PROPS = {'C15', 'C09'}
WEIGHTS = {'del': 9, 'crem': 4, 'cclear': 2, 'create': 6}

run = sesscheck.make_run(ID, PROPS, 1000, 8000, weights=WEIGHTS, hub_share=(1, 2),
                         nontrivial=lambda program, stats: stats.get('op:del', 0) + stats.get('op:crem', 0) + stats.get('op:cclear', 0) > 0 and stats.get('commits', 0) > 1)
replay = sesscheck.make_replay(ID, PROPS)

MANIFEST = {
    'text': 'Reference cascade/refuse semantics vs Pony for generated deletion orders, with raw dangling-reference scans and full table comparison after each commit.',
    'note': 'SQLite only; trusts the hand-written reference store (rules and sources in DESIGN.md 7a) and hypothesis generation; '
            'explores bounded histories (<= 4 sessions x 10 calls, <= 3 entities) and cannot establish absence.',
    'technique': 'model-based property testing: generated programs interpreted against Pony and an independent reference store',
}
