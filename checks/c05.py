"""C05 -- query, SQL and result caches are transparent.

A generated sequence of calls to a fixed library of query functions (the same code objects / query strings / raw SQL texts
are re-used with different parameter VALUES and TYPES), interleaved with data modifications, is executed twice on identical
data: once in one warm process state (all caches accumulate: decompiler AST cache, extractor cache, string->AST cache,
translator cache, constructed-SQL cache, adapted raw SQL cache, per-session query result cache), and once "cold": before every
call a brand-new Database with new entity classes is created, every process-level cache is cleared and the current data are
loaded.  Every call must give the same rows, or raise the same exception type, in both runs.
"""
import collections, decimal, datetime
from vlib import qgen
from checks import c01
from hypothesis import strategies as st

ID = 'C05'
LEVEL = 'exploration'
RULE = ('A case is (data set, sequence of 3-12 steps); a step is a call of one of ~35 library query functions with a generated '
        'parameter (int, float, bool, str, None, Decimal, entity object, list/tuple of 0-3 values; slice bounds and attribute '
        'names that pin translators), or a data modification (update / create / delete), with drawn session boundaries. '
        'Warm run vs cold run (fresh Database + cleared process caches before each call) must agree step by step. '
        'Non-trivial = some library function or query text is executed at least twice in the sequence with parameters of '
        'different type or pinned value, or after a modification in the same session; distinct by (sequence, data hash).')
ASSUMPTIONS = ['live SQLite in-memory', 'cold = new Database and entity classes + cleared adapted_sql_cache, string2ast_cache, '
               'extractors_cache, ast_cache, lambda_args_cache, raw_sql_cache (utils.codeobjects deliberately kept: it only pins '
               'code objects)', 'metamorphic oracle: Pony compared with itself under a different cache history (the property '
               'is itself a metamorphic relation)']
SHARDS = {'quick': 4, 'thorough': 16}
MIN_EVALS = {'quick': 1000, 'thorough': 20000}


def clear_process_caches():
    from pony.orm import core, asttranslation, decompiling, ormtypes
    from pony.utils import utils
    core.adapted_sql_cache.clear()
    core.string2ast_cache.clear()
    asttranslation.extractors_cache.clear()
    decompiling.ast_cache.clear()
    utils.lambda_args_cache.clear()
    ormtypes.raw_sql_cache.clear()


# ------------------------------------------------------------------------------------------------ query library
# every function has a fixed code object; E = dict of entity classes of the database in use, p = parameter
def _lib():
    from pony.orm import select, count, sum as psum, max as pmax, min as pmin, avg, exists, desc, raw_sql, between, coalesce
    L = collections.OrderedDict()

    def reg(kind):
        def deco(fn):
            L[fn.__name__] = (kind, fn)
            return fn
        return deco

    @reg('scalar')
    def eq_n(E, db, p):
        A = E['A']
        return select(x for x in A if x.n == p)[:]

    @reg('scalar')
    def ne_on(E, db, p):
        A = E['A']
        return select(x for x in A if x.on != p)[:]

    @reg('scalar')
    def lt_n(E, db, p):
        B = E['B']
        return select(x.id for x in B if x.n < p)[:]

    @reg('scalar')
    def eq_s(E, db, p):
        A = E['A']
        return select(x for x in A if x.s == p)[:]

    @reg('scalar')
    def add_n(E, db, p):
        A = E['A']
        return select((x.id, x.n + p) for x in A)[:]

    @reg('scalar')
    def coalesce_on(E, db, p):
        A = E['A']
        return select((x.id, coalesce(x.on, p)) for x in A)[:]

    @reg('str')
    def startswith_s(E, db, p):
        A = E['A']
        return select(x.id for x in A if x.s.startswith(p))[:]

    @reg('str')
    def contains_s(E, db, p):
        B = E['B']
        return select(x.id for x in B if p in x.s)[:]

    @reg('str')
    def concat_s(E, db, p):
        A = E['A']
        return select((x.id, x.s + p) for x in A)[:]

    @reg('list')
    def in_list(E, db, p):
        A = E['A']
        return select(x for x in A if x.n in p)[:]

    @reg('list')
    def not_in_list(E, db, p):
        B = E['B']
        return select(x.id for x in B if x.n not in p)[:]

    @reg('bound')
    def slice_stop(E, db, p):
        A = E['A']
        return select((x.id, x.s[:p]) for x in A)[:]

    @reg('bound')
    def slice_start(E, db, p):
        A = E['A']
        return select((x.id, x.s[p:]) for x in A)[:]

    @reg('bound')
    def index_s(E, db, p):
        A = E['A']
        return select((x.id, x.s[p]) for x in A if len(x.s) > 3)[:]

    @reg('attrname')
    def getattr_name(E, db, p):
        A = E['A']
        return select((x.id, getattr(x, p)) for x in A)[:]

    @reg('attrname')
    def getattr_filter(E, db, p):
        B = E['B']
        return select(x.id for x in B if getattr(x, p) == 1)[:]

    @reg('scalar')
    def string_query(E, db, p):
        A = E['A']
        return select('x for x in A if x.n == p', {'A': A}, {'p': p})[:]

    @reg('scalar')
    def string_query_ne(E, db, p):
        A = E['A']
        return select('x.id for x in A if x.on != p or x.n == p', {'A': A}, {'p': p})[:]

    @reg('str')
    def string_query_s(E, db, p):
        A = E['A']
        return select('x.id for x in A if x.s == p', {'A': A}, {'p': p})[:]

    @reg('scalar')
    def raw_n(E, db, p):
        return db.select('select id from A where n = $p order by id')

    @reg('str')
    def raw_s(E, db, p):
        return db.select("select id from A where s = $p or s = $(p + '%') order by id")

    @reg('scalar')
    def raw_fragment(E, db, p):
        A = E['A']
        return select(x.id for x in A if raw_sql('x.n = $p'))[:]

    @reg('scalar')
    def filter_lambda(E, db, p):
        A = E['A']
        return A.select().filter(lambda x: x.n >= p)[:]

    @reg('scalar')
    def entity_select_lambda(E, db, p):
        B = E['B']
        return B.select(lambda y: y.n == p or y.on == p)[:]

    @reg('scalar')
    def where_kw(E, db, p):
        A = E['A']
        return A.select().where(n=p)[:]

    @reg('scalar')
    def get_kw(E, db, p):
        A = E['A']
        return A.select(n=p).count()

    @reg('bound')
    def limit_param(E, db, p):
        A = E['A']
        return select(x for x in A).order_by(A.id)[:max(p, 0) if isinstance(p, int) else 1]

    @reg('scalar')
    def count_where(E, db, p):
        B = E['B']
        return count(x for x in B if x.n > p)

    @reg('scalar')
    def sum_where(E, db, p):
        B = E['B']
        return psum(x.n for x in B if x.n != p)

    @reg('scalar')
    def group_by_n(E, db, p):
        B = E['B']
        return select((x.n, count(x)) for x in B if x.n >= p)[:]

    @reg('scalar')
    def exists_sub(E, db, p):
        A = E['A']
        return select(x.id for x in A if exists(y for y in x.bs if y.n == p))[:]

    @reg('scalar')
    def between_p(E, db, p):
        A = E['A']
        return select(x.id for x in A if between(x.n, p, 2))[:]

    @reg('scalar')
    def ifexp_p(E, db, p):
        A = E['A']
        return select((x.id, x.n if p else x.on) for x in A)[:]

    @reg('entity')
    def by_entity(E, db, p):
        B = E['B']
        return select(y.id for y in B if y.a == p)[:]

    @reg('entity')
    def entity_in_coll(E, db, p):
        A = E['A']
        return select(x.id for x in A if p in x.bs)[:]

    @reg('scalar')
    def order_by_param(E, db, p):
        A = E['A']
        return select(x for x in A).order_by(lambda x: (x.n * p, x.id))[:]

    @reg('variant')
    def distinct_variant(E, db, p):
        # one generator code object, three distinct-ness variants: the SQL cache key must include the override
        B = E['B']
        q = select(x.n for x in B)
        if p == 1:
            q = q.without_distinct()
        elif p == 2:
            q = q.distinct()
        return sorted(q[:])

    @reg('variant')
    def distinct_variant_str(E, db, p):
        B = E['B']
        q = select('(x.n, x.s) for x in B', {'B': B}, {})
        if p == 1:
            q = q.without_distinct()
        elif p == 2:
            q = q.distinct()
        return sorted(q[:])

    @reg('bound')
    def kwargs_after_pinned(E, db, p):
        # keyword filter chained after a query whose translation is pinned to a parameter value
        A = E['A']
        return select(x for x in A if x.s[:p] == 'a').filter(n=1)[:]

    @reg('bound')
    def where_kwargs_after_pinned(E, db, p):
        A = E['A']
        return select((x.id, x.s[p:]) for x in A).where(n=-2)[:]

    @reg('attrname')
    def kwargs_after_getattr(E, db, p):
        A = E['A']
        return select(x.id for x in A if getattr(x, p) == 1).filter(s='a')[:]

    @reg('scalar')
    def lambda_filter_twice(E, db, p):
        # the same lambda code object applied twice with different captured values
        A = E['A']
        def ne(q, v):
            return q.filter(lambda x: x.n != v)
        q = ne(ne(A.select(), 1), p if isinstance(p, int) and not isinstance(p, bool) else 2)
        return q[:]

    @reg('entity_b')
    def m2m_members(E, db, p):
        C = E['C']
        return select(x.id for x in C if p in x.bs)[:]

    @reg('entity_b')
    def m2m_count(E, db, p):
        C = E['C']
        return select((x.id, count(x.bs)) for x in C)[:]

    @reg('scalar')
    def hybrid_dynamic(E, db, p):
        # a helper function created per call and released afterwards: caches keyed by id(func) must not be confused
        A = E['A']
        k = 1 if isinstance(p, int) and p % 2 else 2
        if k == 1:
            def helper(x):
                return x.n + 1
        else:
            def helper(x):
                return x.n * 2
        return select((x.id, helper(x)) for x in A)[:]

    @reg('variant')
    def ordered_result_mutated(E, db, p):
        # the same ordered query (one code object); variants 1 and 2 change THEIR result in place: the next execution of the
        # query in the session must still come back in the order of its ORDER BY (order-sensitive: returned as text)
        A = E['A']
        q = select(x.id for x in A).order_by(-1)
        r = q[:]
        if p == 1:
            r.reverse()
        elif p == 2:
            r.sort()
        return 'order:' + ','.join(str(i) for i in r)

    @reg('variant')
    def ordered_page_mutated(E, db, p):
        B = E['B']
        q = select((x.n, x.id) for x in B).order_by(lambda: (x.n, x.id))
        r = q[:3]
        if p:
            r.shuffle() if p == 2 else r.reverse()
            return 'mutated'
        return 'order:' + ','.join(str(i) for i in r)

    @reg('scalar')
    def inlined_function_global(E, db, p):
        # the value (and type) of a module-level variable read by a function that Pony inlines into the query
        global INLINED_GLOBAL
        INLINED_GLOBAL = p
        A = E['A']
        return select(x.id for x in A if _inlined_cmp(x))[:]
    return L


INLINED_GLOBAL = 0


def _inlined_cmp(x):
    return x.n == INLINED_GLOBAL


_LIB = None


def lib():
    global _LIB
    if _LIB is None:
        _LIB = _lib()
    return _LIB


SCALARS = [0, 1, 2, -1, 7, 1.0, 2.5, True, False, None, 'a', 'ab', '', decimal.Decimal('1'), decimal.Decimal('2.50')]
STRS = ['a', 'ab', '', 'A', "it's", 'a%', '_', 'é', None, 1]
LISTS = [[], [1], [1, 2], [0, 1, 2], (1,), (2, 7), ['a'], [1, 'a'], [None], [1.0, 2]]
BOUNDS = [0, 1, 2, 3, -1, -2, None, 10]
ATTRNAMES = ['n', 'on', 's', 'os', 'id', 'zz']


def param_values(kind):
    return {'variant': [0, 1, 2], 'entity_b': [1, 2, 3], 'scalar': SCALARS, 'str': STRS, 'list': LISTS, 'bound': BOUNDS, 'attrname': ATTRNAMES, 'entity': [1, 2, 3, None]}[kind]


@st.composite
def cases(draw):
    data = draw(qgen.datasets(max_a=4, max_b=5, max_c=2))
    names = list(lib())
    steps = []
    n = draw(st.integers(3, 12))
    # favour re-use: pick 1-3 focus functions that appear repeatedly
    focus = draw(st.lists(st.sampled_from(names), min_size=1, max_size=3))
    for i in range(n):
        k = draw(st.integers(0, 9))
        if k == 0:
            steps.append({'op': 'update', 'id': draw(st.integers(1, 4)), 'n': draw(st.sampled_from(qgen.INTS)),
                          'new_session': draw(st.booleans())})
        elif k == 1 and draw(st.booleans()):
            steps.append({'op': 'link', 'b': draw(st.integers(1, 5)), 'c': draw(st.integers(1, 2)),
                          'new_session': draw(st.integers(0, 3)) == 0})
        elif k == 1:
            steps.append({'op': 'create', 'n': draw(st.sampled_from(qgen.INTS)), 's': draw(st.sampled_from(['a', 'ab', 'q'])),
                          'new_session': draw(st.booleans())})
        else:
            name = draw(st.sampled_from(focus)) if k < 8 else draw(st.sampled_from(names))
            kind = lib()[name][0]
            vals = param_values(kind)
            steps.append({'op': 'call', 'fn': name, 'p': draw(st.integers(0, len(vals) - 1)),
                          'new_session': draw(st.integers(0, 2)) == 0})
    if draw(st.integers(0, 2)) == 0:
        # result cache vs a many-to-many-only change: the same query, same parameter, around a link change, one session
        fn = draw(st.sampled_from(['m2m_members', 'm2m_count']))
        pb = draw(st.integers(0, 2))
        steps.append({'op': 'call', 'fn': fn, 'p': pb, 'new_session': True})
        steps.append({'op': 'link', 'b': pb + 1, 'c': draw(st.integers(1, 2)), 'new_session': False})
        steps.append({'op': 'call', 'fn': fn, 'p': pb, 'new_session': False})
    return {'data': data, 'steps': steps}


def apply_mod(step, data):
    """modification applied to the plain data set (the cold run loads data from it)"""
    if step['op'] == 'update':
        for r in data['A']:
            if r['id'] == step['id']:
                r['n'] = step['n']
    elif step['op'] == 'link':
        if any(r['id'] == step['b'] for r in data['B']):
            for r in data['C']:
                if r['id'] == step['c']:
                    if step['b'] in r['bs']:
                        r['bs'].remove(step['b'])
                    else:
                        r['bs'] = sorted(r['bs'] + [step['b']])
    elif step['op'] == 'create':
        nid = max([r['id'] for r in data['A']] + [0]) + 1
        data['A'].append({'id': nid, 'n': step['n'], 'on': None, 's': step['s'], 'os': ''})


def pony_mod(step, classes):
    A = classes['A']
    if step['op'] == 'update':
        o = A.get(id=step['id'])
        if o is not None:
            o.n = step['n']
    elif step['op'] == 'link':
        b = classes['B'].get(id=step['b'])
        c = classes['C'].get(id=step['c'])
        if b is not None and c is not None:
            if b in c.bs:
                c.bs.remove(b)
            else:
                c.bs.add(b)
    elif step['op'] == 'create':
        from pony.orm import max as pmax
        nid = (pmax(x.id for x in A) or 0) + 1
        A(id=nid, n=step['n'], s=step['s'])


def resolve_param(step, classes):
    kind, fn = lib()[step['fn']]
    v = param_values(kind)[step['p']]
    if kind == 'entity_b':
        return classes['B'].get(id=v)
    if kind == 'entity':
        if v is None:
            return None
        if step['fn'] == 'by_entity':
            return classes['A'].get(id=v)
        return classes['B'].get(id=v)
    return v


def call_step(step, classes, db):
    kind, fn = lib()[step['fn']]
    try:
        p = resolve_param(step, classes)
        if kind in ('entity', 'entity_b') and p is None and param_values(kind)[step['p']] is not None:
            return ('skipped', 'no such object')
        res = fn(classes, db, p)
        if isinstance(res, (list, tuple)) or hasattr(res, '__iter__') and not isinstance(res, str):
            rows = [c01.norm_row(r) for r in res]
            return ('rows', collections.Counter(map(repr, rows)), len(rows))
        return ('value', repr(res))
    except Exception as e:
        return ('error', type(e).__name__)


def copy_data(data):
    return {'opts': dict(data['opts']), 'A': [dict(r) for r in data['A']], 'B': [dict(r) for r in data['B']],
            'C': [dict(r, bs=list(r['bs'])) for r in data['C']]}


def fresh_world(data):
    from pony.orm import Database
    db = Database()
    classes = qgen.build_schema(db, {'b_a_required': data['opts'].get('b_a_required', True)})
    db.bind('sqlite', ':memory:')
    db.generate_mapping(create_tables=True)
    qgen.load_data(classes, data)
    return db, classes


def execute(case):
    """returns (message or None, info)"""
    from pony.orm import db_session, rollback, commit
    from pony.orm import core
    data = copy_data(case['data'])
    steps = case['steps']
    # ---- warm run: one database, caches accumulate; sessions as drawn
    clear_process_caches()
    wdb, wclasses = fresh_world(data)
    warm = []
    in_session = False
    try:
        for st_ in steps:
            if in_session and st_.get('new_session'):
                db_session.__exit__()
                in_session = False
            if not in_session:
                db_session.__enter__()
                in_session = True
            if st_['op'] == 'call':
                warm.append(call_step(st_, wclasses, wdb))
                if warm[-1][0] == 'error' and core.local.db_session is not None and not core.local.db2cache:
                    pass
            else:
                try:
                    pony_mod(st_, wclasses)
                    warm.append(('mod',))
                except Exception as e:
                    warm.append(('error', type(e).__name__))
    finally:
        try:
            if in_session:
                db_session.__exit__()
        except Exception:
            pass
        if core.local.db_session is not None:
            try:
                rollback()
            finally:
                core.local.db_session = None
        wdb.disconnect()
    # ---- cold run: before every call a new database + cleared caches + current data
    cur = copy_data(case['data'])
    cold = []
    for i, st_ in enumerate(steps):
        if st_['op'] != 'call':
            apply_mod(st_, cur)
            cold.append(('mod',))
            continue
        clear_process_caches()
        cdb, cclasses = fresh_world(cur)
        clear_process_caches()
        try:
            with db_session:
                cold.append(call_step(st_, cclasses, cdb))
        except Exception as e:
            cold.append(('error', type(e).__name__))
        finally:
            if core.local.db_session is not None:
                core.local.db_session = None
            cdb.disconnect()
    for i, (w, c) in enumerate(zip(warm, cold)):
        if w != c:
            if w[0] == 'error' and w[1] in ('TransactionIntegrityError', 'IntegrityError', 'CommitException'):
                return None, {'aborted': True}
            st_ = steps[i]
            if st_['op'] != 'call':
                return 'step %d: modification %r failed in the warm process with %s' % (i, st_, fmt(w)), {}
            kind = lib()[st_['fn']][0]
            return ('step %d: %s(%r) after %s gives %s in the warm process but %s with cold caches'
                    % (i, st_['fn'], param_values(kind)[st_['p']],
                       [(s.get('fn', s['op']), param_values(lib()[s['fn']][0])[s['p']] if s['op'] == 'call' else s.get('n'))
                        for s in steps[:i]], fmt(w), fmt(c))), {}
        if w[0] == 'error' and w[1] not in c01.REJECT and w[1] not in ('ValueError', 'IndexError', 'AttributeError', 'KeyError',
                                                                      'OperationalError', 'IncomparableTypesError', 'ExprEvalError'):
            pass
    return None, {}


def fmt(r):
    if r[0] == 'rows':
        return 'rows %s' % sorted(r[1].elements())
    return repr(r)


def nontrivial(case):
    seen = {}
    modified = False
    for s in case['steps']:
        if s['op'] != 'call':
            modified = True
            continue
        kind = lib()[s['fn']][0]
        v = param_values(kind)[s['p']]
        key = s['fn']
        t = (type(v).__name__, v if kind in ('bound', 'attrname', 'variant') else None)
        if key in seen and (seen[key] != t or modified):
            return True
        seen[key] = t
    return False


def run(ctx):
    def t(case):
        msg, info = execute(case)
        if info.get('aborted'):
            ctx.inconclusive += 1
        nt = nontrivial(case)
        calls = [s for s in case['steps'] if s['op'] == 'call']
        ctx.case(key=case, nontrivial=nt, classes=['reuse'] if nt else [],
                 sample={'steps': [(s.get('fn', s['op']), s.get('p')) for s in case['steps']]} if nt else None)
        for s in calls:
            ctx.count('fn:' + s['fn'])
        if msg:
            ctx.fail(case, msg)
    ctx.run_test(t, dict(case=cases()), max_examples=ctx.scale(600, 3000), name='C05')


def replay(case):
    msg, info = execute(case)
    return msg


MANIFEST = {
    'text': 'Generated sequences over a library of query functions, string queries and raw SQL (fixed code objects / texts) with '
            'varied parameter values and types, interleaved with modifications; each call in the warm process must equal the same '
            'call made with a new Database and every process-level cache cleared.',
    'note': 'Metamorphic: compares Pony with itself under different cache histories (the property is that relation); SQLite only; '
            'utils.codeobjects is not cleared; cold subprocess runs are not used.',
    'technique': 'metamorphic property testing (warm vs cold caches) over generated call sequences (hypothesis)',
}
