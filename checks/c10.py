"""C10 -- decided by the session interpreter (vlib/sessmachine.py) against the reference store (vlib/refstore.py)."""
from vlib import sesscheck

ID = 'C10'
LEVEL = 'exploration'
RULE = "Stub part (vlib/c10_stub.py): Owner objects enter the session as references of loaded Item rows (known by key only); the session assigns their scalar attributes and a self-reference, loads them by key, by queries and by filters, flushes and commits, and every attribute read, boss/subs read and the committed rows are compared with a dict model. Main part: Same program space as C09 with read operations weighted up: after modifications the session reads attributes, to-one references, collection iteration/len/count()/is_empty()/in, Entity[pk], get()/exists()/select() by keyword, lambda filters, relationship filters, count/sum/min/max and to_dict(); every answer is compared with the reference store's current (unflushed) state. Non-trivial = a read issued in a session that has made at least one modification; distinct by program hash. A share of the programs (one third; one half for C11/C13/C15) comes from the hub family: every relationship starts at one entity, with cascading/unlinking relationships declared around a refusing one, populated, and then aimed operations (pending updates of children, pending removals on the hub collections, new children with explicit keys) precede the delete of the hub, so that deletes refused after part of their cascade are common."
ASSUMPTIONS = ['live SQLite (in-memory) with foreign keys enforced immediately',
               'reference store vlib/refstore.py written from the documented relationship/cascade/key semantics (DESIGN.md section 7a)',
               'table and column names are taken from the mapping metadata (names only)']
SHARDS = {'quick': 8, 'thorough': 16}
MIN_EVALS = {'quick': 2000, 'thorough': 5000}
PROPS = {'C10'}
WEIGHTS = {'read': 14, 'flush': 1}

run = sesscheck.make_run(ID, PROPS, 700, 6000, weights=WEIGHTS,
                         nontrivial=lambda program, stats: any(k.startswith('read:') for k in stats) and stats.get('call_ok', 0) > 2)
_replay_session = sesscheck.make_replay(ID, PROPS)
_run_session = run


def run(ctx):
    _run_session(ctx)
    if ctx.violation is not None:
        return
    # stub part (vlib/c10_stub.py): writes to and reads of objects that entered the session as references only
    from vlib import c10_stub

    def ts(case):
        msg = c10_stub.judge(case)
        nt = c10_stub.nontrivial(case)
        ctx.case(key=case, nontrivial=nt, classes=['stub_hist'], sample={'sessions': case['sessions']} if nt else None)
        if msg:
            ctx.fail(case, msg)
    ctx.run_test(ts, dict(case=c10_stub.cases()), max_examples=ctx.scale(300, 3000), name='C10_stub')


def replay(case):
    if case.get('kind') == 'stub':
        from vlib import c10_stub
        return c10_stub.judge(case)
    return _replay_session(case)

MANIFEST = {
    'text': "Every read form named in the property is issued at generated points of generated histories and compared with the reference store's session-visible state (flushed or not).",
    'note': 'SQLite only; trusts the hand-written reference store (rules and sources in DESIGN.md 7a) and hypothesis generation; '
            'explores bounded histories (<= 4 sessions x 10 calls, <= 3 entities) and cannot establish absence.',
    'technique': 'model-based property testing: generated programs interpreted against Pony and an independent reference store',
}
