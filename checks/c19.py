"""C19 Connections and the SQLite transaction lock are always released.

Part 1 (complete grid): every session shape x every DB-API call index k of its fault-free log x fault variant
(error before / after the call, optionally chained with a failing rollback / close / connect / next call) in one thread.
Part 2 (generated): 2-3 threads with 1-2 sessions each under a deterministic hand-off; for every generated
(actors, schedule) EVERY call index k is failed once.
Oracle after each session end (however it ended) and at the very end: see RULE.
"""
import os, re, shutil
from vlib import c19_harness as H
from vlib import faultdb
from vlib.runner import Violation, chash

ID = 'C19'
LEVEL = 'fault_enumeration'
RULE = ('Part 1, complete grid: scripts of one session shape {read-only, optimistic write, immediate, serializable, '
        'db_session(ddl=True) with DDL statements, db.drop_table/db.create_tables, raw db.get_connection(), one db_session '
        'writing to two Database objects (either order, optimistic or immediate), db_session(ddl=True) running 1-3 transactions '
        '(commit()/rollback() in the middle)} x end {normal exit, '
        'body raises, explicit rollback(), commit() followed by more work} x {connection already pooled, pool empty so that the '
        'session has to connect}, the ddl and a few plain shapes also on a :memory: database (where the provider keeps the '
        'connection pooled after a ddl session); every call index k of the fault-free DB-API log (connect, cursor, execute, executemany, commit, '
        'rollback, close) is failed with OperationalError before the call, OperationalError after the call was performed and '
        'IntegrityError before every execute, and the first of these also chained with: the next rollback fails (before / after), '
        'the next close fails, rollback and close both fail, the very next call of any kind fails too, and (script with a second '
        'session) the next connect fails. Part 2, generated: 2-3 threads x 1-2 sessions of those shapes under a deterministic '
        'hand-off (one runnable thread at a time; switches only between operations, between sessions, inside every DB-API '
        'commit()/rollback() call (entered by Pony, not yet performed) and when a thread would wait for a provider lock; choices are a generated list of ints), and for each generated (actors, schedule) EVERY call '
        'index k is failed once. One evaluation = one (script or actors+schedule, fault plan). After each session end: neither '
        'provider lock is held by the ending thread (single-thread part: by anybody) and no lock was released by a non-holder; '
        'every connection the layer created in that thread is the pool\'s current connection and open, or was closed exactly '
        'once, and none was used after close (for every Database the script uses); a connection that stays pooled has foreign '
        'key enforcement in its initial state (PRAGMA foreign_keys = 1 read through the raw connection), and a following plain '
        'session that inserts a dangling reference through db.execute gets IntegrityError. A session into which no fault was injected never fails with '
        'SQLite\'s "database is locked" (another session of the process had not finished its transaction). At the end a write session over all '
        'databases in the same thread and one in a new thread must finish '
        'without error and without waiting for a provider lock (the instrumented lock raises instead of waiting, so a hang is '
        'never judged by time). Non-trivial = the first fault was injected while provider.transaction_lock was held; distinct '
        'by hash of (script/actors, schedule, plan).')
ASSUMPTIONS = ['SQLite file database opened with timeout=0 (file-lock conflicts surface as errors instead of waits) and PRAGMA '
               'synchronous=OFF; an execute that is failed after it was performed is run to completion first (a real driver does '
               'not leave a failed statement active)',
               'the two threading.Lock objects of the SQLiteProvider instance are replaced by instrumented locks with the same '
               'acquire/release protocol (holder tracking; an unavailable lock hands control to another actor or raises)',
               'a connection whose close() the plan refused is exempt from the leak rule and closed by the harness before the '
               'follow-up sessions; a connection whose connect() failed was never handed to Pony and is exempt',
               'on a :memory: database (whose only connection is the database and is never closed) at most one rollback per run is '
               'failed: a connection that can neither roll back nor be closed cannot be handed back clean by anybody',
               'other backends (PostgreSQL/MySQL/Oracle pools) cannot be run in this sandbox']
SHARDS = {'quick': 4, 'thorough': 16}
MIN_EVALS = {'quick': 3000, 'thorough': 12000}
CLASS_FLOORS = {'nontrivial': 0.15, 'part:schedule': 0.05}


def _exit_commit_leaves_caches_unreleased(case, message):
    """open finding C19-exit-commit-stale-cache: `with db_session:` over two Database objects.  When the exit path fails after
    at least one cache was committed -- commit() raises PartialCommitException because a non-primary COMMIT failed, or releasing
    the first cache fails (its rollback()) -- DBSessionContextManager._commit_or_rollback leaves without releasing the other
    caches: they stay alive in local.db2cache with their connection attached, and the next session of the thread that touches
    that database inherits the stale cache (AssertionError in prepare_connection_for_query_execution)."""
    sessions = list(case.get('script') or []) + [s for a in case.get('actors') or [] for s in a]
    if not any(s.get('kind', '').startswith('multi') and s.get('end') in ('commit', 'commit_more') for s in sessions):
        return False
    m = re.search(r'\[sessions that ended with an error before: (.*?)\] calls:', message)
    return bool(m) and 'AssertionError' in message and re.search(r'\(multi\w*, end=commit', m.group(1)) is not None


def _failed_connect_pools_half_initialised_connection(case, message):
    """open finding C19-failed-connect-pools-half-initialised-connection: SQLitePool._connect assigns pool.con before it
    configures the new connection; when `PRAGMA foreign_keys = true` fails the connection stays pooled and every later session
    of the thread runs on it without foreign key enforcement."""
    return 'foreign key enforcement switched off' in message and 'its initialisation was interrupted by the injected fault' in message


def _memory_ddl_failure_leaves_fk_checks_off(case, message):
    """open finding C19-memory-ddl-failure-leaves-fk-checks-off: on a :memory: database the provider never closes the connection
    (SQLitePool.drop only rolls back), but the foreign key checks a ddl session switched off are restored only in release():
    every way out of a ddl session that goes through drop() instead (transaction start failed, rollback failed) or that never
    recorded saved_fk_state leaves the pooled connection without foreign key enforcement."""
    sessions = list(case.get('script') or [])
    return (bool(case.get('memory')) and bool(case.get('plan')) and any(s.get('kind', '').startswith('ddl') for s in sessions)
            and 'foreign key enforcement switched off' in message and 'its initialisation was interrupted' not in message)


def _failed_commit_releases_lock_before_rollback(case, message):
    """open finding C19-failed-commit-releases-lock-before-rollback: when the DB-API commit() fails, SQLiteProvider.commit gives
    the provider transaction lock back in its finally clause, but the SQLite transaction is still open until SessionCache.commit
    rolls it back afterwards; a write session of another thread that gets the lock in between fails with 'database is locked'."""
    return 'locked' in message and 'gave the provider lock back before it had rolled its transaction back' in message


EXCLUSIONS = {'failed_commit_releases_lock_before_rollback': _failed_commit_releases_lock_before_rollback,
              'exit_commit_leaves_caches_unreleased': _exit_commit_leaves_caches_unreleased,
              'failed_connect_pools_half_initialised_connection': _failed_connect_pools_half_initialised_connection,
              'memory_ddl_failure_leaves_fk_checks_off': _memory_ddl_failure_leaves_fk_checks_off}

MANIFEST = {
    'text': 'Every DB-API call of every session shape (read-only, optimistic, immediate, serializable, ddl, raw connection; four '
            'endings; pooled or fresh connection) is failed before/after the call, alone and chained with failing rollback, close, '
            'connect or next call; 2-3 threads are interleaved deterministically with every call index failed once. After each '
            'session end the provider locks, every connection object and two follow-up write sessions (same thread, new thread) are judged.',
    'note': 'SQLite only; the provider locks are observed through instrumented replacements on the provider instance; schedules '
            'switch at operation granularity (not inside Pony code); at most three chained faults per run; cannot establish absence.',
    'technique': 'fault enumeration over a complete shape grid plus hypothesis-generated thread schedules with a resource-release oracle',
}

CHAINS = [
    ('alone', []),
    ('rollback-before', [{'next': 'rollback', 'nth': 0, 'when': 'before', 'exc': 'operational'}]),
    ('rollback-after', [{'next': 'rollback', 'nth': 0, 'when': 'after', 'exc': 'operational'}]),
    ('close-after', [{'next': 'close', 'nth': 0, 'when': 'after', 'exc': 'operational'}]),
    ('rollback+close', [{'next': 'rollback', 'nth': 0, 'when': 'before', 'exc': 'operational'},
                        {'next': 'close', 'nth': 0, 'when': 'before', 'exc': 'operational'}]),
    ('next-call', [{'next': 'any', 'nth': 0, 'when': 'before', 'exc': 'operational'}]),
    ('connect', [{'next': 'connect', 'nth': 0, 'when': 'before', 'exc': 'operational'}]),
    ('rollback+connect', [{'next': 'rollback', 'nth': 0, 'when': 'before', 'exc': 'operational'},
                          {'next': 'connect', 'nth': 0, 'when': 'before', 'exc': 'operational'}]),
]
SECOND = {'kind': 'optimistic', 'end': 'commit', 'cold': False}


def shapes():
    out = []
    for kind in H.KINDS:
        for end in H.ENDS:
            if kind == 'readonly' and end == 'commit_more':
                continue
            if kind == 'ddl_api' and end != 'commit':
                continue
            for cold in (False, True):
                out.append({'kind': kind, 'end': end, 'cold': cold})
    for kind in H.MULTI_KINDS:                  # one db_session over two Database objects
        for end in H.ENDS:
            out.append({'kind': kind, 'end': end, 'cold': False})
    out.append({'kind': 'multi', 'end': 'commit', 'cold': True})
    out.append({'kind': 'multi', 'end': 'raise', 'cold': True})
    for mid in H.DDL_MIDS:                      # db_session(ddl=True) running 1-3 transactions
        for end in ('commit', 'raise'):
            out.append({'kind': 'ddl_multi', 'mid': list(mid), 'end': end, 'cold': False})
    out.append({'kind': 'ddl_multi', 'mid': ['commit'], 'end': 'commit', 'cold': True})
    return out


def memory_shapes():
    """':memory:' database: the provider keeps the connection pooled where it closes the connection of a file database"""
    out = []
    for mid in H.DDL_MIDS:
        for end in ('commit', 'raise'):
            out.append({'kind': 'ddl_multi', 'mid': list(mid), 'end': end, 'cold': False})
    for end in H.ENDS:
        out.append({'kind': 'ddl', 'end': end, 'cold': False})
    out.append({'kind': 'ddl_api', 'end': 'commit', 'cold': False})
    for kind in ('optimistic', 'immediate', 'rawconn'):
        for end in ('commit', 'raise'):
            out.append({'kind': kind, 'end': end, 'cold': False})
    return out


def grid_cells():
    cells = []
    for sh in shapes():
        for cname, chain in CHAINS:
            script = [sh, dict(SECOND)] if 'connect' in cname else [sh]
            cells.append((script, cname, chain, False))
    for sh in memory_shapes():
        for cname, chain in CHAINS:
            if cname in ('alone', 'rollback-before'):   # never two failing rollbacks in a row: such a connection can be neither
                                                       # cleaned nor (being the database itself) closed
                cells.append(([sh], cname, chain, True))
    return cells


def primaries(call):
    out = [('before', 'operational'), ('after', 'operational')]
    if call['kind'] in ('execute', 'executemany'):
        out.append(('before', 'integrity'))
    return out


def judge(ctx, case, msg):
    if not msg:
        return
    if msg.startswith('inconclusive'):
        ctx.inconclusive += 1
        return
    if msg.startswith('harness:'):
        raise RuntimeError(msg)
    ctx.fail(case, msg)


def run(ctx):
    template = H.make_template(os.path.join(ctx.workdir, 'template.sqlite'))
    path = os.path.join(ctx.workdir, 'run.sqlite')

    # ---------------- part 2: generated actors + schedules, every call index failed once
    from hypothesis import strategies as st
    sess = st.fixed_dictionaries({'kind': st.sampled_from([k for k in H.KINDS if k != 'ddl_api'] + ['multi', 'multi_rev', 'multi_immediate']),
                                  'end': st.sampled_from(H.ENDS), 'cold': st.just(False)})
    sess = st.one_of(sess, sess, sess, st.fixed_dictionaries({'kind': st.just('ddl_multi'), 'mid': st.sampled_from([list(m) for m in H.DDL_MIDS]),
                                                            'end': st.sampled_from(['commit', 'raise']), 'cold': st.just(False)}))
    actors = st.lists(st.lists(sess, min_size=1, max_size=2), min_size=2, max_size=3)
    schedule = st.lists(st.integers(0, 5), min_size=0, max_size=30)
    found = {}

    def t(actors, schedule):
        info = {}
        base = {'actors': actors, 'schedule': schedule}
        msg = H.run_actors_case(template, path, actors, schedule, [], info)
        ctx.case(key=[base, 'nofault'], nontrivial=False, classes=['part:schedule', 'fault:none'])
        try:
            judge(ctx, dict(base, plan=[]), msg)
            if info.get('natural_errors'):
                ctx.count('schedule_with_natural_error')
            calls = info.get('calls', [])
            for k, call in enumerate(calls):
                ctx.check_time()
                for when in ('before', 'after'):
                    if found and found.get('when') != when:
                        continue
                    plan = [{'at': k, 'when': when, 'exc': 'operational'}]
                    nt = bool(call.get('probe'))
                    classes = ['part:schedule', 'kind:' + call['kind'], 'when:' + when, 'threads:%d' % len(actors)]
                    if nt:
                        classes.append('nontrivial')
                    case = dict(base, plan=plan)
                    ctx.case(key=case, nontrivial=nt, classes=classes,
                             sample={'actors': actors, 'schedule': schedule, 'plan': plan} if k % 29 == 7 else None)
                    judge(ctx, case, H.run_actors_case(template, path, actors, schedule, plan))
        except Violation as v:
            if 'violation' not in found:
                found['violation'] = {'case': v.case, 'message': v.message}
            plan = v.case.get('plan') or [{}]
            found['when'] = plan[0].get('when')
            raise
    ctx.run_test(t, {'actors': actors, 'schedule': schedule}, max_examples=ctx.scale(6, 40), name='schedules')
    if ctx.violation is None and 'violation' in found:
        ctx.violation = found['violation']
    if ctx.violation is not None:
        return

    # ---------------- part 1: complete grid, sharded by cell index
    logs = {}
    for ci, (script, cname, chain, memory) in enumerate(grid_cells()):
        if ci % ctx.nshards != ctx.shard:
            continue
        key = chash([script, memory])
        extra = {'memory': True} if memory else {}
        if key not in logs:
            info = {}
            msg = H.run_script_case(template, path, script, [], info, memory=memory)
            ctx.case(key=[script, memory, 'nofault'], nontrivial=False, classes=['part:grid', 'fault:none'])
            judge(ctx, dict({'script': script, 'plan': []}, **extra), msg)
            if info.get('natural_errors'):
                raise RuntimeError('fault-free script %r fails on its own: %r' % (script, info['natural_errors']))
            logs[key] = info.get('calls', [])
        calls = logs[key]
        for k, call in enumerate(calls):
            ctx.check_time()
            for when, exc in primaries(call):
                if chain and (exc != 'operational' or when != 'before'):
                    continue
                if memory and chain and call['kind'] == 'rollback':
                    continue          # would be two failing rollbacks in a row (see ASSUMPTIONS)
                plan = [{'at': k, 'when': when, 'exc': exc}] + [dict(e) for e in chain]
                nt = bool(call.get('probe'))
                classes = ['part:grid', 'chain:' + cname, 'kind:' + call['kind'], 'shape:' + script[0]['kind'], 'when:' + when]
                if memory:
                    classes.append('database:memory')
                if nt:
                    classes.append('nontrivial')
                case = dict({'script': script, 'plan': plan}, **extra)
                ctx.case(key=case, nontrivial=nt, classes=classes,
                         sample={'script': script, 'plan': plan, 'call': call['kind'], 'sql': (call['sql'] or '')[:50],
                                 'lock_held_at_fault': nt} if (k + ci) % 37 == 5 else None)
                judge(ctx, case, H.run_script_case(template, path, script, plan, memory=memory))


def replay(case):
    home = os.environ.get('VERIF_HOME') or os.path.dirname(os.path.dirname(os.path.abspath(__file__)))
    workdir = os.path.join(home, '.work', 'replay%d' % os.getpid())
    os.makedirs(workdir, exist_ok=True)
    try:
        template = H.make_template(os.path.join(workdir, 'template.sqlite'))
        path = os.path.join(workdir, 'run.sqlite')
        if 'actors' in case:
            msg = H.run_actors_case(template, path, case['actors'], case['schedule'], case.get('plan') or [])
        else:
            msg = H.run_script_case(template, path, case['script'], case.get('plan') or [], memory=bool(case.get('memory')))
        if msg and msg.startswith('inconclusive'):
            raise RuntimeError(msg)
        if msg and msg.startswith('harness:'):
            raise RuntimeError(msg)
        return msg
    finally:
        shutil.rmtree(workdir, ignore_errors=True)
        try:
            os.rmdir(os.path.join(home, '.work'))
        except OSError:
            pass
