"""C31 Serialised and pickled objects reflect current state and round-trip.

One generated case = a small model (pure data: 1..4 entities, scalar attributes of seven types incl. lazy ones,
Optional/Required, primary keys int / str / (int,str) / (str,str) / reference / (reference,int) / (reference,str),
one-to-many, one-to-one and many-to-many relations incl. self references), objects and links, a list of in-session
modifications (left unflushed), a list of modifications committed by another session between pickling and
unpickling, and a plan (to_dict options, bag contents/configuration, what to pickle, what the unpickling session
loaded before).  The model is materialised with type(name, (db.Entity,), attrs) on SQLite.

Oracles (a plain-Python mirror of the data, vlib.c31_model.Mirror, never Pony itself):
 1. Entity.to_dict under every combination of only / exclude (absent, list, string) x with_collections x with_lazy x
    related_objects equals the mirror's projection.
 2. pony.orm.serialization (Bag, to_dict, to_json): every given object appears with all configured attributes, every
    object related to a given one appears with its non-collection attributes, values equal the mirror, the keys are
    injective (two objects of an entity never share a key; the same object has the same key wherever it is listed) and
    to_json parses to the same structure.  Database.to_json / Entity.to_json 'objects' and 'data' likewise.
    Plus a complete grid of composite keys over the separator / escape characters (',' and '*').
 3. pickle.dumps of objects, lists, collections, query results and queries in one db_session and pickle.loads in another
    one (thorough tier: a sample also in a fresh python process on the same database file): the results are the
    identity-map objects of the unpickling session and carry the attribute values they had when pickled.
    What the code promises when the row was changed by another session in between (unpickle_entity ->
    _db_set_(unpickling=True)): attributes the unpickling session has not loaded yet take the PICKLED value without
    touching the database; attributes it has already loaded keep the session's value.  So for such rows only the
    attributes loaded at pickle time are compared (with the value at pickle time) and nothing is read that would
    need the database; objects the unpickling session had loaded before and that were changed are only checked for
    identity.
"""
import os, sys, json, pickle, base64, itertools, subprocess, shutil, datetime, decimal

from vlib import runner
from vlib import c31_model as cm

ID = 'C31'
LEVEL = 'exploration'
RULE = ('hypothesis: one case = (model spec, objects+links, unflushed in-session modifications, modifications committed '
        'in between, plan of to_dict options / bag contents+config / pickle jobs / preloaded objects), all plain JSON; '
        'every alive object is compared under 72 to_dict option combinations, one Bag/serialization call per '
        'configuration, one Database.to_json call and 1..4 pickle jobs. Non-trivial = the case has at least one '
        'relationship link or a composite key part containing "," or "*", distinct by the hash of the case. '
        'grid: complete enumeration of composite keys (str,str), (int,str), (str,str,str), (str,int,str) over alphabets '
        'around ",", "*" up to length 3 (quick) / 4 (thorough); one evaluation per key, non-trivial if it contains "," or '
        '"*", distinct by (key types, key); all keys of a grid are serialised together so every pair is compared.')
ASSUMPTIONS = ['SQLite 3 through pony.orm.dbproviders.sqlite; sessions are sequential db_sessions of one process (plus a '
               'fresh python process on the same database file in the thorough tier)',
               'the Mirror (vlib/c31_model.py) is the reference for values and links; modifications are restricted to '
               'ones whose outcome does not depend on cascade rules (no delete of an object that is required by another)',
               'Python json and pickle modules']
SHARDS = {'quick': 4, 'thorough': 16}
MIN_EVALS = {'quick': 4000, 'thorough': 60000}
CLASS_FLOORS = {'sep_in_key': 0.02, 'case': 0.02}

SIZES = {'quick': dict(max_ents=3, max_objs=3, keylen=3, max_mods=4),
         'thorough': dict(max_ents=4, max_objs=5, keylen=4, max_mods=6)}

DEFAULT_BAG_CFG = {'only': None, 'exclude': None, 'with_collections': True, 'with_lazy': False, 'related_objects': True}


def guarded(fail, tag, desc, fn, *args, **kw):
    """call into Pony; an exception is a reported failure of the serialisation call (never swallowed), except the
    documented UnrepeatableReadError which the caller handles"""
    from pony.orm.core import UnrepeatableReadError
    try:
        return True, fn(*args, **kw)
    except (runner.Violation, runner.StopRun, UnrepeatableReadError, RecursionError):
        raise
    except Exception as e:
        fail(tag, '%s raised %s: %s' % (desc, type(e).__name__, e))
        return False, None


# ------------------------------------------------------------------------------------------------
# expectations computed from the mirror

def select_names(M, ei, only, exclude, with_collections, with_lazy):
    if only:
        names = list(only)
    else:
        names = []
        for d in M.meta[ei]:
            if d['kind'] == 'many':
                if with_collections: names.append(d['name'])
            elif d['lazy']:
                if with_lazy: names.append(d['name'])
            else:
                names.append(d['name'])
    if exclude:
        names = [n for n in names if n not in exclude]
    return names


def names_arg(sel, form, sep):
    if sel is None or form is None: return None
    if form == 'list': return list(sel)
    return sep.join(sel)


def describe_oid(M, oid):
    return 'E%d[%s]' % (oid[0], ','.join(repr(x) for x in M.rawpk(oid)))


# ------------------------------------------------------------------------------------------------
# oracle 1: Entity.to_dict

def check_to_dict(env, M, plan, fail, stats):
    sep = plan['sep']
    oids = M.alive()
    k = plan['bag_order'] % 3        # which object is asked first matters while other objects are still unsaved
    if k == 1: oids = oids[::-1]
    elif k == 2: oids = oids[1:] + oids[:1]
    else:
        unsaved = env.resolve(M) if env.handles else ()
        oids = [x for x in oids if x not in unsaved] + [x for x in oids if x in unsaved]   # saved objects first
    for oid in oids:
        obj = env.obj(M, oid)
        ei = oid[0]
        osel, xsel = plan['only'].get(str(ei)), plan['exclude'].get(str(ei))
        oforms = [None] + (['list', 'str'] if osel else [])
        xforms = [None] + (['list', 'str'] if xsel else [])
        for oform, xform, wc, wl, ro in itertools.product(oforms, xforms, (False, True), (False, True), (False, True)):
            kw = {}
            if oform: kw['only'] = names_arg(osel, oform, sep)
            if xform: kw['exclude'] = names_arg(xsel, xform, sep)
            if wc: kw['with_collections'] = True
            if wl: kw['with_lazy'] = True
            if ro: kw['related_objects'] = True
            names = select_names(M, ei, osel if oform else None, xsel if xform else None, wc, wl)
            where = '%s.to_dict(%s)' % (describe_oid(M, oid), ', '.join('%s=%r' % kv for kv in sorted(kw.items())))
            ok, got = guarded(fail, 'to_dict_error', where, obj.to_dict, **kw)
            stats['to_dict_calls'] = stats.get('to_dict_calls', 0) + 1
            # objects created in this session get their database-generated key when they are saved; to_dict() reports
            # keys, so whatever it lists must have one by now
            pending = env.resolve(M) if env.handles else ()
            if not ok: continue
            if not isinstance(got, dict) or sorted(got) != sorted(names):
                fail('to_dict_keys', '%s has keys %r, expected %r' % (where, sorted(got), sorted(names)))
                continue
            for n in names:
                d = M.ad[ei][n]
                exp = M.get(oid, n)
                g = got[n]
                if pending:
                    unsaved = ([oid] if d['kind'] == 'scalar' and d['pk'] and oid in pending else
                               [exp] if d['kind'] == 'one' and exp in pending else
                               sorted(x for x in exp if x in pending) if d['kind'] == 'many' else [])
                    if unsaved:
                        if not ro or d['kind'] == 'scalar':
                            stats['pending_key_reports'] = stats.get('pending_key_reports', 0) + 1
                            fail('to_dict_pending_key', '%s: %s is reported as %r although the new E%d object(s) created in '
                                 'this session (%d of them) have not been given their database key yet'
                                 % (where, n, g, unsaved[0][0], len(unsaved)))
                        continue
                if d['kind'] == 'scalar':
                    ok = cm.same_value(g, exp)
                    expd = exp
                elif d['kind'] == 'one':
                    if exp is None: ok, expd = g is None, None
                    elif ro: ok, expd = g is env.obj(M, exp), describe_oid(M, exp)
                    else:
                        expd = M.rawpk_value(exp)
                        ok = cm.same_value(g, expd)
                else:
                    if ro:
                        expd = sorted(describe_oid(M, x) for x in exp)
                        ok = (isinstance(g, list) and len(g) == len(exp)
                              and set(id(x) for x in g) == set(id(env.obj(M, x)) for x in exp))
                    else:
                        expd = sorted(M.rawpk_value(x) for x in exp)
                        ok = cm.same_value(g, expd)
                if not ok:
                    fail('to_dict_value', '%s: %s is %r, the current state is %r' % (where, n, g, expd))


# ------------------------------------------------------------------------------------------------
# oracle 2: serialization.Bag / to_dict / to_json

def _flatten(v):
    if isinstance(v, (tuple, list)):
        out = []
        for x in v: out.extend(_flatten(x))
        return out
    return [v]


def calibrate_keys(env, M, fail, stats):
    """serialise all objects of each entity once with the default configuration and learn which key each object got
    (objects are recognised by the primary key attributes inside their dicts).  This is the direct injectivity test
    for the keys of the case.  Returns enc[oid] = key and dec[(ei, key)] = oid."""
    from pony.orm import serialization
    enc, dec = {}, {}
    for ei in range(len(M.meta)):
        oids = M.alive(ei)
        if not oids: continue
        ok, res = guarded(fail, 'bag_error', 'serialization.to_dict(all E%d objects)' % ei,
                          serialization.to_dict, [env.obj(M, x) for x in oids])
        stats['bag_calls'] = stats.get('bag_calls', 0) + 1
        if not ok:
            for x in oids: enc.setdefault(x, None)
            continue
        entries = res.get('E%d' % ei, {})
        by_raw = dict((M.rawpk(x), x) for x in oids)
        pk_names = M.pk_names(ei)
        for key, d in entries.items():
            if not all(n in d for n in pk_names):
                fail('bag_calibration', 'serialization.to_dict(all E%d objects): entry %r lacks primary key attributes: %r'
                     % (ei, key, d))
                continue
            raw = tuple(_flatten([d[n] for n in pk_names]))
            x = by_raw.get(raw)
            if x is None:
                fail('bag_calibration', 'serialization.to_dict(all E%d objects): entry %r describes key %r which no object has'
                     % (ei, key, raw))
                continue
            enc[x] = key
            dec[(ei, key)] = x
        missing = [x for x in oids if x not in enc]
        if missing:
            # find the partner of a collision for the message
            detail = []
            for x in missing[:2]:
                one = serialization.to_dict([env.obj(M, x)]).get('E%d' % ei, {})
                for k in one:
                    if (ei, k) in dec and dec[(ei, k)] != x:
                        detail.append('%s and %s both get key %r' % (describe_oid(M, x), describe_oid(M, dec[(ei, k)]), k))
            fail('bag_key_collision', 'serialization.to_dict of %d E%d objects has %d entries: %s'
                 % (len(oids), ei, len(entries), '; '.join(detail) or 'missing %s' % [describe_oid(M, x) for x in missing]))
            for x in missing:
                enc.setdefault(x, None)
    return enc, dec


def bag_configs(M, plan):
    cfgs = {}
    for ei in range(len(M.meta)):
        c = dict(DEFAULT_BAG_CFG)
        c.update(plan['bag_cfg'].get(str(ei)) or {})
        cfgs[ei] = c
    return cfgs


def bag_value(M, oid, n, enc):
    d = M.ad[oid[0]][n]
    v = M.get(oid, n)
    if d['kind'] == 'scalar': return v
    if d['kind'] == 'one': return None if v is None else M.rawpk_value(v)
    out = []
    for x in v:
        raw = M.rawpk(x)
        out.append(enc.get(x) if len(raw) > 1 else raw[0])
    if any(x is None for x in out): return None     # a key could not be calibrated (already reported)
    return sorted(out)


def json_match(got, exp):
    """got: value decoded from JSON; exp: python value from the mirror"""
    if exp is None: return got is None
    if isinstance(exp, bool): return got is exp
    if isinstance(exp, decimal.Decimal):
        if not isinstance(got, str): return False
        try: return decimal.Decimal(got) == exp
        except decimal.InvalidOperation: return False
    if isinstance(exp, datetime.datetime): return got == str(exp)
    if isinstance(exp, datetime.date): return got == str(exp)
    if isinstance(exp, (tuple, list)):
        return isinstance(got, list) and len(got) == len(exp) and all(json_match(g, e) for g, e in zip(got, exp))
    if isinstance(exp, float): return isinstance(got, float) and got == exp
    if isinstance(exp, int): return type(got) is int and got == exp
    return type(got) is type(exp) and got == exp


def check_bag(env, M, plan, enc, dec, fail, stats):
    from pony.orm import serialization
    given = [tuple(x) for x in plan['bag_given'] if tuple(x) in M.objs]
    if not given: return
    k = plan['bag_order'] % 3
    if k == 1: given = given[::-1]
    elif k == 2: given = given[1:] + given[:1]
    cfgs = bag_configs(M, plan)
    custom = bool(plan['bag_cfg'])
    full = dict((ei, select_names(M, ei, c['only'], c['exclude'], c['with_collections'], c['with_lazy']))
                for ei, c in cfgs.items())
    partial = dict((ei, [n for n in names if M.ad[ei][n]['kind'] != 'many']) for ei, names in full.items())
    expected = dict((g, 'full') for g in given)
    neighbour_of_given = set()
    for g in given:
        if cfgs[g[0]]['related_objects']:
            for x in M.neighbours(g, full[g[0]]):
                expected.setdefault(x, 'partial')
                neighbour_of_given.add(x)
    objs = [env.obj(M, g) for g in given]

    def make_bag():
        bag = serialization.Bag(env.db)
        for ei, c in sorted(cfgs.items()):
            if str(ei) in plan['bag_cfg']:
                bag.config(env.E[ei], only=c['only'], exclude=c['exclude'], with_collections=c['with_collections'],
                           with_lazy=c['with_lazy'], related_objects=c['related_objects'])
        bag.put(objs[0])
        bag.put(objs[1:])
        return bag

    if custom:
        call = 'Bag(config=%r).put(%s)' % (plan['bag_cfg'], [describe_oid(M, g) for g in given])
        ok1, res = guarded(fail, 'bag_error', call + ' to_dict', lambda: make_bag().to_dict())
        ok2, text = guarded(fail, 'bag_error', call + ' to_json', lambda: make_bag().to_json())
    else:
        call = 'serialization.to_dict(%s)' % [describe_oid(M, g) for g in given]
        ok1, res = guarded(fail, 'bag_error', call, serialization.to_dict,
                           objs if len(objs) > 1 or plan['bag_order'] % 2 else objs[0])
        ok2, text = guarded(fail, 'bag_error', call + ' to_json', serialization.to_json, objs)
    stats['bag_calls'] = stats.get('bag_calls', 0) + 2
    parsed = None
    if ok2:
        try:
            parsed = json.loads(text)
        except ValueError as e:
            fail('to_json_parse', '%s: to_json output is not JSON (%s): %r' % (call, e, text[:300]))

    for mode, result in (('to_dict', res), ('to_json', parsed)):
        if result is None: continue
        seen = set()
        partial_given = set()
        for ename, entries in result.items():
            ei = int(ename[1:]) if ename[:1] == 'E' and ename[1:].isdigit() else None
            if ei is None or ei >= len(M.meta):
                fail('bag_entity', '%s %s: unknown entity key %r' % (call, mode, ename)); continue
            keymap = dict(((str(k) if mode == 'to_json' else k), x) for (e2, k), x in dec.items() if e2 == ei)
            for key, d in entries.items():
                x = keymap.get(key)
                if x is None:
                    fail('bag_unknown_key', '%s %s: %s has key %r which is not the key of any object (known: %r)'
                         % (call, mode, ename, key, sorted(keymap, key=repr)))
                    continue
                if x in seen:
                    fail('bag_key_collision', '%s %s: %s listed twice' % (call, mode, describe_oid(M, x)))
                seen.add(x)
                want = expected.get(x)
                keys = sorted(d)
                if want == 'full' and keys != sorted(full[ei]) and keys == sorted(partial[ei]) and x in neighbour_of_given:
                    fail('bag_given_partial', '%s %s: given object %s is emitted in the abbreviated form of a related object '
                         '(attributes %r, expected %r) because another given object refers to it'
                         % (call, mode, describe_oid(M, x), keys, sorted(full[ei])))
                    names = partial[ei]
                    partial_given.add(x)
                elif want == 'full':
                    names = full[ei]
                else:
                    names = partial[ei]      # related (or unexpected) objects: non-collection attributes
                if keys != sorted(names):
                    fail('bag_keys', '%s %s: %s has attributes %r, expected %r (%s)'
                         % (call, mode, describe_oid(M, x), keys, sorted(names), want or 'not given and not related'))
                    continue
                for n in names:
                    exp = bag_value(M, x, n, enc)
                    ad = M.ad[ei][n]
                    if ad['kind'] == 'many' and exp is None: continue
                    ok = json_match(d[n], exp) if mode == 'to_json' else cm.same_value(
                        list(d[n]) if isinstance(exp, list) and isinstance(d[n], list) else d[n], exp)
                    if not ok:
                        tag = 'bag_value'
                        if ad['kind'] == 'many':
                            te = M.spec['ents'][ad['target']]
                            tag = 'bag_coll_value'
                            if te['pk'] == 'ref' and any(len(M.rawpk(y)) > 1 for y in M.get(x, n)):
                                tag = 'bag_coll_refpk'
                        fail(tag, '%s %s: %s.%s is %r, the current state is %r'
                             % (call, mode, describe_oid(M, x), n, d[n], exp))
        for x, want in expected.items():
            if x not in seen:
                via = [g for g in given if cfgs[g[0]]['related_objects'] and x in M.neighbours(g, full[g[0]])]
                tag = 'bag_missing'
                if want == 'partial' and via and all(g in partial_given or g in neighbour_of_given for g in via):
                    tag = 'bag_given_partial'    # same root cause: the referring given object was abbreviated
                fail(tag, '%s %s: %s (%s) does not appear' % (call, mode, describe_oid(M, x),
                     'given' if want == 'full' else 'related to the given %s' % [describe_oid(M, g) for g in via]))


def check_dbjson(env, M, plan, fail, stats):
    """Database.to_json / Entity.to_json: 'data' refers to the objects by class and key, 'objects' holds their
    attribute values nested by key parts"""
    given = [tuple(x) for x in plan['bag_given'] if tuple(x) in M.objs]
    if not given: return
    mode = plan['json_include']
    include_names = [set() for _ in M.meta]
    for ei, m in enumerate(M.meta):
        for d in m:
            if mode == 'relations' and d['kind'] == 'one': include_names[ei].add(d['name'])
            elif mode == 'all' and (d['kind'] != 'scalar' or d['lazy']): include_names[ei].add(d['name'])
    include = [getattr(env.E[ei], n) for ei in range(len(M.meta)) for n in sorted(include_names[ei])]
    objs = [env.obj(M, g) for g in given]
    if len(objs) == 1 and plan['bag_order'] % 2:
        call = '%s.to_json(include=%s)' % (describe_oid(M, given[0]), mode)
        ok, text = guarded(fail, 'dbjson_error', call, objs[0].to_json, include=include, with_schema=False)
        exp_data = {'class': 'E%d' % given[0][0], 'pk': M.rawpk_value(given[0])}
    else:
        call = 'db.to_json(%s, include=%s)' % ([describe_oid(M, g) for g in given], mode)
        ok, text = guarded(fail, 'dbjson_error', call, env.db.to_json, objs, include=include, with_schema=False)
        exp_data = [{'class': 'E%d' % g[0], 'pk': M.rawpk_value(g)} for g in given]
    stats['dbjson_calls'] = stats.get('dbjson_calls', 0) + 1
    if not ok: return
    try:
        parsed = json.loads(text)
    except ValueError as e:
        fail('dbjson_parse', '%s is not JSON (%s): %r' % (call, e, text[:300]))
        return

    def data_match(got, exp):
        if isinstance(exp, list):
            return isinstance(got, list) and len(got) == len(exp) and all(data_match(g, e) for g, e in zip(got, exp))
        return (isinstance(got, dict) and sorted(got) == ['class', 'pk'] and got['class'] == exp['class']
                and json_match(got['pk'], exp['pk']))
    if not data_match(parsed.get('data'), exp_data):
        fail('dbjson_data', '%s: data is %r, expected %r' % (call, parsed.get('data'), cm.jsonable(exp_data)))
    # closure over included relation attributes
    todo, closure = list(given), set(given)
    while todo:
        x = todo.pop()
        for y in M.neighbours(x, [n for n in include_names[x[0]] if M.ad[x[0]][n]['kind'] != 'scalar']):
            if y not in closure:
                closure.add(y); todo.append(y)
    exp_objects = {}
    for x in closure:
        ei = x[0]
        d = exp_objects.setdefault('E%d' % ei, {})
        for part in M.rawpk(x): d = d.setdefault(str(part), {})
        for ad in M.meta[ei]:
            n = ad['name']
            if n not in include_names[ei] and (ad['kind'] == 'many' or ad['lazy']): continue
            v = M.get(x, n)
            if ad['kind'] == 'one': v = None if v is None else M.rawpk_value(v)
            elif ad['kind'] == 'many': v = sorted(M.rawpk_value(y) for y in v)
            d[n] = ('leaf', v)

    def walk(got, exp, path):
        if isinstance(exp, tuple) and exp[0] == 'leaf':
            if not json_match(got, exp[1]):
                fail('dbjson_value', '%s: objects%s is %r, the current state is %r' % (call, path, got, exp[1]))
            return
        if not isinstance(got, dict) or sorted(got) != sorted(exp):
            fail('dbjson_keys', '%s: objects%s has keys %r, expected %r'
                 % (call, path, sorted(got) if isinstance(got, dict) else got, sorted(exp)))
            return
        for k in exp: walk(got[k], exp[k], path + '[%r]' % k)
    walk(parsed.get('objects'), exp_objects, '')


# ------------------------------------------------------------------------------------------------
# oracle 3: pickling

def touch(env, M, oid, lazy_names=()):
    obj = env.obj(M, oid)
    for d in M.meta[oid[0]]:
        if d['kind'] == 'many': continue
        if d['kind'] == 'one' and d['store'] != 'holder': continue
        if d['lazy'] and d['name'] not in lazy_names: continue
        getattr(obj, d['name'])
    return obj


def to_one_cycle(M, roots):
    """a cycle of to-one references (either side of a one-to-one counts) reachable from roots, as a list of oids"""
    def succ(x):
        out = []
        for d in M.meta[x[0]]:
            if d['kind'] == 'one':
                t = M.get(x, d['name'])
                if t is not None: out.append(t)
        return out
    state = {}

    def dfs(x, path):
        state[x] = 1
        for y in succ(x):
            if state.get(y) == 1: return path[path.index(y):] + [y] if y in path else [x, y]
            if y not in state:
                c = dfs(y, path + [y])
                if c: return c
        state[x] = 2
        return None
    for r in roots:
        if r not in state:
            c = dfs(r, [r])
            if c: return c
    return None


def dumps(M, what, roots, proto, job, fail):
    """pickle.dumps; a RecursionError is reported (never swallowed) and classified by whether the objects form a
    cycle of to-one references"""
    try:
        return pickle.dumps(what, proto)
    except RecursionError:
        cyc = to_one_cycle(M, roots)
        if cyc:
            fail('pickle_reference_cycle', 'pickle job %r: pickle.dumps raises RecursionError; the loaded objects form the '
                 'to-one reference cycle %s' % (job, ' -> '.join(describe_oid(M, x) for x in cyc)))
        else:
            fail('pickle_error', 'pickle job %r: pickle.dumps raises RecursionError (no reference cycle)' % (job,))
        return None
    except (runner.Violation, runner.StopRun):
        raise
    except Exception as e:
        fail('pickle_error', 'pickle job %r: pickle.dumps raises %s: %s' % (job, type(e).__name__, e))
        return None


def do_pickle(env, M, plan, all_lazy_loaded, fail, stats):
    """inside a db_session: load, touch and pickle.  Returns list of job records with the data and what the harness
    knows about them (which oids, in which order)."""
    from pony.orm import select
    lazy = {}
    for (oid, n) in plan['touch_lazy']:
        if tuple(oid) in M.objs: lazy.setdefault(tuple(oid), set()).add(n)
    if all_lazy_loaded:
        for oid in M.alive():
            lazy[oid] = set(d['name'] for d in M.meta[oid[0]] if d['lazy'])
    if plan['touch_all']:
        for oid in M.alive(): touch(env, M, oid, ())
    for oid, names in sorted(lazy.items()):
        touch(env, M, oid, names) if plan['touch_all'] else [getattr(env.obj(M, oid), n) for n in sorted(names)]
    records = []
    by_id = None
    for i, job in enumerate(plan['jobs']):
        proto = pickle.HIGHEST_PROTOCOL if i % 2 == 0 else 2
        kind = job[0]
        rec = {'job': job, 'proto': proto}
        if kind == 'obj':
            oid = tuple(job[1])
            if oid not in M.objs: continue
            rec['oids'] = [oid]
            rec['data'] = dumps(M, touch(env, M, oid, lazy.get(oid, ())), [oid], proto, job, fail)
        elif kind == 'list':
            oids = [tuple(x) for x in job[1] if tuple(x) in M.objs]
            rec['oids'] = oids
            rec['data'] = dumps(M, [touch(env, M, x, lazy.get(x, ())) for x in oids], oids, proto, job, fail)
        elif kind == 'coll':
            oid = tuple(job[1])
            if oid not in M.objs: continue
            rec['oids'] = sorted(M.get(oid, job[2]))
            rec['owner'] = oid
            for x in rec['oids']: touch(env, M, x, lazy.get(x, ()))
            rec['data'] = dumps(M, getattr(env.obj(M, oid), job[2]), [oid] + rec['oids'], proto, job, fail)
        elif kind == 'query':
            ei, form = job[1], job[2]
            E = env.E[ei]
            scal = [d['name'] for d in M.meta[ei] if d['kind'] == 'scalar' and not d['lazy']]
            if form == 'tuple' and not scal: form = 'gen_slice'
            for x in M.alive(ei): touch(env, M, x, lazy.get(x, ()))     # known loaded state before pickling
            if form == 'select_slice': q = E.select()[:]
            elif form == 'gen_slice': q = select('(x for x in E)', {'E': E}, {})[:]
            elif form == 'query': q = select('(x for x in E)', {'E': E}, {})
            elif form == 'lazy_limit': q = select('(x for x in E)', {'E': E}, {}).limit(len(M.alive(ei)) + 3)
            else: q = select('((x, x.%s) for x in E)' % scal[0], {'E': E}, {})[:]
            rec['form'] = form
            rec['data'] = dumps(M, q, M.alive(ei), proto, job, fail)
            items = list(q)
            if by_id is None:
                by_id = dict((id(env.obj(M, x)), x) for x in M.alive())
            first = [it[0] if form == 'tuple' else it for it in items]
            oids = [by_id.get(id(o)) for o in first]
            if None in oids or sorted(oids) != M.alive(ei):
                fail('query_result', 'select over E%d returned %r, the stored objects are %r'
                     % (ei, items, [describe_oid(M, x) for x in M.alive(ei)]))
                continue
            rec['oids'] = oids
            if form == 'tuple': rec['attr'] = scal[0]
        stats['pickle_jobs'] = stats.get('pickle_jobs', 0) + 1
        if rec['data'] is None:
            stats['pickle_jobs_cyclic'] = stats.get('pickle_jobs_cyclic', 0) + 1
            continue
        records.append(rec)
    return records, lazy


def readable_names(M, ei, lazy_loaded, stale, r2):
    """attribute names of an unpickled E<ei> object that can be compared with the pickle-time snapshot"""
    names = []
    for d in M.meta[ei]:
        if d['kind'] == 'many':
            if not r2: names.append(d['name'])
        elif d['kind'] == 'one' and d['store'] != 'holder':
            if not r2: names.append(d['name'])
        elif d['lazy'] and d['name'] not in lazy_loaded:
            if not stale and not r2: names.append(d['name'])
        else:
            names.append(d['name'])
    return names


def check_unpickled_object(env, S, u, oid, ctxinfo, fail, where):
    """u: what came out of pickle.loads for mirror object oid (S = mirror at pickle time)"""
    E = env.E[oid[0]]
    if type(u) is not E:
        fail('pickle_class', '%s: expected an %s instance, got %r' % (where, E.__name__, u)); return
    if u is not env.obj(S, oid):
        fail('pickle_identity', '%s: unpickled %r is not the identity-map object %s of the unpickling session'
             % (where, u, describe_oid(S, oid))); return
    stale = oid in ctxinfo['stale_rows']
    if stale and oid in ctxinfo['preloaded']:
        return
    for n in readable_names(S, oid[0], ctxinfo['lazy'].get(oid, ()), stale, ctxinfo['r2']):
        d = S.ad[oid[0]][n]
        exp = S.get(oid, n)
        ok, g = guarded(fail, 'unpickle_error', '%s: reading %s.%s' % (where, describe_oid(S, oid), n), getattr, u, n)
        if not ok: continue
        if d['kind'] == 'scalar':
            ok, expd = cm.same_value(g, exp), exp
        elif d['kind'] == 'one':
            if exp is None: ok, expd = g is None, None
            else: ok, expd = g is env.obj(S, exp), describe_oid(S, exp)
        else:
            items = list(g)
            expd = sorted(describe_oid(S, x) for x in exp)
            ok = len(items) == len(exp) and set(id(x) for x in items) == set(id(env.obj(S, x)) for x in exp)
            g = items
        if not ok:
            fail('pickle_value', '%s: %s.%s is %r after unpickling, it was %r when pickled'
                 % (where, describe_oid(S, oid), n, g, expd))


def check_unpickle(env, S, C, rec, ctxinfo, fail, stats):
    """inside a fresh db_session: preload, unpickle one record, compare with the snapshot S"""
    job = rec['job']
    for x in sorted(ctxinfo['preloaded']):
        if x in C.objs: touch(env, C, x, ())
    where = 'pickle job %r' % (job,)
    ok, u = guarded(fail, 'unpickle_error', where + ': pickle.loads', pickle.loads, rec['data'])
    if not ok: return
    kind = job[0]
    if kind == 'obj':
        check_unpickled_object(env, S, u, rec['oids'][0], ctxinfo, fail, where)
    elif kind == 'list':
        if not isinstance(u, list) or len(u) != len(rec['oids']):
            fail('pickle_list', '%s: got %r for %d objects' % (where, u, len(rec['oids']))); return
        for x, oid in zip(u, rec['oids']):
            check_unpickled_object(env, S, x, oid, ctxinfo, fail, where)
    elif kind == 'coll':
        owner, n = rec['owner'], job[2]
        d = S.ad[owner[0]][n]
        if ctxinfo['r2'] and any(x in ctxinfo['stale_rows'] for x in ctxinfo['preloaded']):
            stats['coll_skipped_preloaded_stale'] = stats.get('coll_skipped_preloaded_stale', 0) + 1
            return
        ok, items = guarded(fail, 'unpickle_error', where + ': iterating the unpickled collection', list, u)
        if not ok: return
        exp = rec['oids']
        ok = len(items) == len(exp) and set(id(x) for x in items) == set(id(env.obj(S, x)) for x in exp)
        if not ok:
            tag = 'pickle_coll'
            if d['relkind'] == 'm2m' and len(items) < len(exp) and all(
                    any(x is env.obj(S, y) for y in exp) for x in items):
                tag = 'pickle_coll_m2m'
            fail(tag, '%s: unpickled collection %s.%s holds %r, it held %r when pickled'
                 % (where, describe_oid(S, owner), n, items, [describe_oid(S, x) for x in exp]))
            return
        for x, oid in zip(sorted(items, key=lambda o: exp.index(_oid_of(env, S, o, exp))), exp):
            check_unpickled_object(env, S, x, oid, ctxinfo, fail, where)
    elif kind == 'query':
        ok, items = guarded(fail, 'unpickle_error', where + ': iterating the unpickled query result',
                            lambda: list(u)[:len(u)])
        if not ok: return
        if len(items) != len(rec['oids']) or len(u) != len(rec['oids']):
            fail('pickle_query', '%s: unpickled result has %d items, the pickled one had %d'
                 % (where, len(items), len(rec['oids']))); return
        for it, oid in zip(items, rec['oids']):
            if rec['form'] == 'tuple':
                if not isinstance(it, tuple) or len(it) != 2:
                    fail('pickle_query', '%s: item %r is not a pair' % (where, it)); continue
                check_unpickled_object(env, S, it[0], oid, ctxinfo, fail, where)
                exp = S.get(oid, rec['attr'])
                if not cm.same_value(it[1], exp):
                    fail('pickle_value', '%s: second component for %s is %r, it was %r when pickled'
                         % (where, describe_oid(S, oid), it[1], exp))
            else:
                check_unpickled_object(env, S, it, oid, ctxinfo, fail, where)


def _oid_of(env, S, obj, oids):
    for x in oids:
        if env.obj(S, x) is obj: return x
    return oids[0]


def run_subprocess(env, S, records, ctxinfo, filename, workdir, fail, stats):
    jobs = []
    for rec in records:
        kind = rec['job'][0]
        read = {}
        for ei in range(len(S.meta)):
            names = []
            for d in S.meta[ei]:
                if d['kind'] == 'many' or (d['kind'] == 'one' and d['store'] != 'holder'): continue
                if d['lazy']: continue      # per-object knowledge is not transported; lazy ones are covered in-process
                names.append(d['name'])
            read[str(ei)] = names
        jobs.append({'kind': 'tuple' if rec.get('form') == 'tuple' else kind,
                     'data': base64.b64encode(rec['data']).decode('ascii'), 'read': read})
    inp = os.path.join(workdir, 'c31_sub_%d.json' % os.getpid())
    with open(inp, 'w') as f:
        json.dump({'spec': env.spec, 'file': filename, 'jobs': jobs}, f)
    script = os.path.join(os.path.dirname(os.path.abspath(cm.__file__)), 'c31_sub.py')
    p = subprocess.run([sys.executable, script, inp], stdout=subprocess.PIPE, stderr=subprocess.PIPE, timeout=120)
    os.unlink(inp)
    stats['subprocess_runs'] = stats.get('subprocess_runs', 0) + 1
    if p.returncode == 3:
        raise RuntimeError('fresh process could not rebuild the model (harness problem, not an unpickling result): %s'
                           % p.stderr.decode('utf-8', 'replace')[-1500:])
    if p.returncode != 0:
        fail('sub_error', 'unpickling in a fresh process failed: %s' % p.stderr.decode('utf-8', 'replace')[-1500:])
        return
    out = json.loads(p.stdout.decode('utf-8'))

    def check_item(item, oid, where):
        exp_cls = 'E%d' % oid[0]
        if item.get('cls') != exp_cls or not item.get('registered'):
            fail('sub_class', '%s: fresh process got %r, expected an %s' % (where, item, exp_cls)); return
        if item['pk'] != cm.jsonable(S.rawpk_value(oid)):
            fail('sub_pk', '%s: fresh process got key %r, expected %r' % (where, item['pk'], S.rawpk_value(oid))); return
        if not item['identity']:
            fail('sub_identity', '%s: in a fresh process the unpickled %s is not the identity-map object'
                 % (where, describe_oid(S, oid)))
        for n, g in item['vals'].items():
            exp = S.get(oid, n)
            if S.ad[oid[0]][n]['kind'] == 'one':
                exp = None if exp is None else {'cls': 'E%d' % exp[0], 'pk': cm.jsonable(S.rawpk_value(exp))}
            else:
                exp = cm.jsonable(exp)
            if type(g) is not type(exp) or g != exp:
                fail('sub_value', '%s: in a fresh process %s.%s is %r, it was %r when pickled'
                     % (where, describe_oid(S, oid), n, g, exp))

    for rec, desc in zip(records, out['jobs']):
        where = 'pickle job %r (fresh process)' % (rec['job'],)
        items = desc['items']
        kind = rec['job'][0]
        if kind == 'coll':
            got = sorted((json.dumps(it.get('pk')), it) for it in items)
            exp = sorted((json.dumps(cm.jsonable(S.rawpk_value(x))), x) for x in rec['oids'])
            if [g[0] for g in got] != [e[0] for e in exp]:
                d = S.ad[rec['owner'][0]][rec['job'][2]]
                tag = 'pickle_coll_m2m' if d['relkind'] == 'm2m' and len(got) < len(exp) else 'sub_coll'
                fail(tag, '%s: unpickled collection %s.%s holds keys %r, it held %r when pickled'
                     % (where, describe_oid(S, rec['owner']), rec['job'][2], [g[0] for g in got], [e[0] for e in exp]))
                continue
            for (_, it), (_, oid) in zip(got, exp): check_item(it, oid, where)
            continue
        if len(items) != len(rec['oids']):
            fail('sub_len', '%s: %d items, expected %d' % (where, len(items), len(rec['oids']))); continue
        for it, oid in zip(items, rec['oids']):
            if rec.get('form') == 'tuple':
                pair = it.get('tuple')
                if not pair or len(pair) != 2:
                    fail('sub_value', '%s: item %r is not a pair' % (where, it)); continue
                check_item(pair[0], oid, where)
                exp = cm.jsonable(S.get(oid, rec['attr']))
                g = pair[1].get('plain')
                if type(g) is not type(exp) or g != exp:
                    fail('sub_value', '%s: second component for %s is %r, it was %r when pickled'
                         % (where, describe_oid(S, oid), g, exp))
            else:
                check_item(it, oid, where)


# ------------------------------------------------------------------------------------------------
# one case

_file_counter = itertools.count(1)


def execute(case, fail, workdir, stats, allow_sub):
    from pony.orm import db_session, flush
    from pony.orm.core import UnrepeatableReadError
    spec, plan = case['spec'], case['plan']
    use_file = bool(plan.get('sub')) and allow_sub and workdir is not None
    filename = ':memory:'
    if use_file:
        filename = os.path.join(workdir, 'c31_%d_%d.sqlite' % (os.getpid(), next(_file_counter)))
    env = cm.Env(spec, filename)
    try:
        M = cm.mirror_from_case(case)
        with db_session:
            env.populate(M)
        env.end_session()
        records = None
        with db_session:
            for x in plan.get('preread', ()):
                x = tuple(x)
                if x not in M.objs: continue
                o = env.obj(M, x)
                for d in M.meta[x[0]]:
                    v = getattr(o, d['name'])
                    if d['kind'] == 'many': list(v)
                stats['preread_objects'] = stats.get('preread_objects', 0) + 1
            for op in case['mods']:
                before = M.copy()
                if not M.apply(op): continue
                env.apply(before, M, op)
            order = ['bag', 'dict'] if plan['first'] == 'bag' else ['dict', 'bag']
            if env.resolve(M):
                order = ['dict', 'bag']   # the serialisation bag does not promise to save: it is asked about saved state
                stats['auto_key_pending'] = stats.get('auto_key_pending', 0) + 1
            for part in order:
                if part == 'bag' and env.resolve(M):
                    flush(); env.resolve(M)
                if part == 'bag':
                    enc, dec = calibrate_keys(env, M, fail, stats)
                    check_bag(env, M, plan, enc, dec, fail, stats)
                    check_dbjson(env, M, plan, fail, stats)
                else:
                    check_to_dict(env, M, plan, fail, stats)
            if env.resolve(M):
                flush(); env.resolve(M)
            if plan['pickle_where'] == 'same':
                flush()
                records, lazy = do_pickle(env, M, plan, True, fail, stats)
        env.end_session()
        M.fresh = set()
        with db_session:      # the keys copied from the objects are the keys of the stored rows (raw SQL)
            for ei, e in enumerate(spec['ents']):
                if e['pk'] != 'auto': continue
                stored = sorted(env.db.select('select id from E%d' % ei))
                mine = sorted(M.objs[x]['vals']['id'] for x in M.alive(ei))
                if stored != mine:
                    fail('auto_key_mismatch', 'E%d: the rows have keys %r, the objects reported %r' % (ei, stored, mine))
        S = M.copy()
        if records is None:
            with db_session:
                records, lazy = do_pickle(env, M, plan, False, fail, stats)
        stale_rows, stale_colls = set(), set()
        applied_between = 0
        with db_session:
            for op in case['between']:
                before = M.copy()
                if not M.check(op): continue
                rows, colls = M.touched_by(op)
                M.apply(op)
                env.apply(before, M, op)
                stale_rows |= rows; stale_colls |= colls
                applied_between += 1
        preloaded = set()
        todo = [tuple(x) for x in plan['preload'] if tuple(x) in M.objs]
        while todo:      # looking an object up by key loads the objects its key refers to as well
            x = todo.pop()
            if x in preloaded: continue
            preloaded.add(x)
            for d in M.meta[x[0]]:
                if d['pk'] and d['kind'] == 'one': todo.append(M.objs[x]['refs'][d['name']])
                elif d['kind'] == 'one' and d['relkind'] in ('o2o', 'pko2o'):
                    # the row of one side of a one-to-one carries the link: loading it also sets the partner's attribute
                    partner = M.get(x, d['name'])
                    if partner is not None: todo.append(partner)
        ctxinfo = {'r2': applied_between > 0, 'stale_rows': stale_rows, 'stale_colls': stale_colls, 'lazy': lazy,
                   'preloaded': preloaded}
        stats['r2'] = stats.get('r2', 0) + (1 if applied_between else 0)
        for rec in records:
            try:
                with db_session:
                    check_unpickle(env, S, M, rec, ctxinfo, fail, stats)
            except UnrepeatableReadError:
                if not ctxinfo['r2']: raise
                stats['rejected_stale'] = stats.get('rejected_stale', 0) + 1
        if use_file and records:
            run_subprocess(env, S, records, ctxinfo, filename, workdir, fail, stats)
        return M, S
    finally:
        env.close()
        if use_file:
            for suffix in ('', '-journal', '-wal', '-shm'):
                try: os.unlink(filename + suffix)
                except OSError: pass


def case_classes(case, M):
    spec = case['spec']
    cls = ['case']
    sep = False
    for oid in M.alive():
        for v in M.rawpk(oid):
            if isinstance(v, str) and (',' in v or '*' in v): sep = True
    if sep: cls.append('sep_in_key')
    links = set()
    for oid in M.alive():
        for d in M.meta[oid[0]]:
            if d['kind'] == 'one' and d['store'] == 'holder' and M.objs[oid]['refs'].get(d['name']) is not None:
                links.add(d['relkind'])
    if any(M.pairs.values()): links.add('m2m')
    cls.extend('link:' + l for l in sorted(links))
    if case['mods']: cls.append('mods')
    if any(op[0] == 'create' for op in case['mods']): cls.append('created_unflushed')
    if any(op[0] == 'delete' for op in case['mods']): cls.append('deleted')
    if case['between']: cls.append('between')
    if any(d['lazy'] for m in M.meta for d in m): cls.append('lazy_attr')
    if any(len(M.rawpk(oid)) > 1 for oid in M.alive()): cls.append('composite_key')
    cls.append('pickle_' + case['plan']['pickle_where'])
    for job in case['plan']['jobs']: cls.append('job:' + job[0])
    if case['plan']['bag_cfg']: cls.append('bag_custom_config')
    return cls, (sep or bool(links))


# ------------------------------------------------------------------------------------------------
# grid: complete enumeration of composite keys around the separator / escape characters

def _strings(alphabet, maxlen):
    out = []
    for n in range(1, maxlen + 1):
        out.extend(''.join(t) for t in itertools.product(alphabet, repeat=n))
    return out


GRIDS = {
    'quick': [
        (('str', 'str'), ',*a', 3, None),
        (('int', 'str'), ',*1', 3, [0, 1, 11, -1, 12]),
        (('str', 'str', 'str'), ',*a', 2, None),
        (('str', 'int', 'str'), ',*1', 2, [1, 11, -1]),
    ],
    'thorough': [
        (('str', 'str'), ',*a', 4, None),
        (('str', 'str'), ',*a1', 3, None),
        (('str', 'str'), ',*\\', 4, None),
        (('str', 'str'), ',*;', 4, None),
        (('int', 'str'), ',*1-', 4, [0, 1, 11, -1, 12, -11, 111]),
        (('str', 'int'), ',*1-', 4, [0, 1, 11, -1, 12, -11, 111]),
        (('str', 'str', 'str'), ',*a', 2, None),
        (('str', 'str', 'str'), ',*', 3, None),
        (('str', 'int', 'str'), ',*1', 3, [1, 11, -1]),
        (('int', 'str', 'str'), ',*1', 3, [1, 11]),
        (('str', 'str', 'int'), ',*1', 3, [1, 11]),
        (('str', 'str', 'str', 'str'), ',*', 2, None),
        (('str', 'str'), ', *', 4, None),
        (('str', 'str'), ',*"', 4, None),
        (('str', 'str'), u',*\xe9', 4, None),
        (('int', 'int', 'str'), ',*1', 4, [1, 11, -1, 0]),
    ],
}


def grid_keys(types, alphabet, maxlen, ints):
    strs = [s for s in _strings(alphabet, maxlen) if s == s.strip()]
    parts = [strs if t == 'str' else ints for t in types]
    return [list(k) for k in itertools.product(*parts)]


def run_grid(types, keys, fail_pair):
    """create one G object per key (all linked to one holder H), serialise them together and look for two objects
    with one key.  fail_pair(key1, key2_or_None, message)"""
    from pony.orm import Database, Required, Optional, Set, PrimaryKey, db_session
    from pony.orm.core import Index
    from pony.orm import serialization
    db = Database()
    attrs = {}
    names = ['p%d' % i for i in range(len(types))]
    for n, t in zip(names, types):
        attrs[n] = Required(str if t == 'str' else int)
    attrs['_indexes_'] = [Index(*[attrs[n] for n in names], is_pk=True)]
    attrs['h'] = Optional('H', reverse='gs')
    G = type('G', (db.Entity,), attrs)
    H = type('H', (db.Entity,), {'id': PrimaryKey(int), 'gs': Set('G', reverse='h')})
    db.bind('sqlite', ':memory:')
    db.generate_mapping(create_tables=True)
    try:
        with db_session:
            h = H(id=1)
            for k in keys:
                G(h=h, **dict(zip(names, k)))
        with db_session:
            objs = G.select()[:]
            if sorted(tuple(getattr(o, n) for n in names) for o in objs) != sorted(tuple(k) for k in keys):
                fail_pair(None, None, 'harness: stored keys differ from the generated ones')
                return
            res = serialization.to_dict(objs)
            entries = res.get('G', {})
            owner = {}
            for key, d in entries.items():
                owner[tuple(d[n] for n in names)] = key
            missing = [tuple(k) for k in keys if tuple(k) not in owner]
            reported = False
            for m in missing[:3]:
                one = serialization.to_dict([G[m]]).get('G', {})
                enc = list(one)[0] if one else None
                other = None
                if enc in entries: other = tuple(entries[enc][n] for n in names)
                fail_pair(list(m), list(other) if other else None,
                          'serialization.to_dict: keys %r and %r of G are both encoded as %r' % (m, other, enc))
                reported = True
            if len(entries) != len(keys) and not reported:
                fail_pair(None, None, 'serialization.to_dict of %d G objects has %d entries' % (len(keys), len(entries)))
            # the same keys listed in the holder's collection and in the JSON text
            hres = serialization.to_dict(H[1])
            lst = hres.get('H', {}).get(1, {}).get('gs')
            if lst is None or len(set(lst)) != len(keys) or (not missing and set(lst) != set(entries)):
                a, b = _first_collision(G, names, keys, serialization) if lst is not None else (None, None)
                fail_pair(a, b, 'serialization.to_dict(holder): collection lists %d distinct keys for %d objects '
                          '(entries: %d)' % (len(set(lst or ())), len(keys), len(entries)))
            parsed = json.loads(serialization.to_json(objs))
            if len(parsed.get('G', {})) != len(keys):
                a, b = _first_collision(G, names, keys, serialization)
                fail_pair(a, b, 'serialization.to_json of %d G objects decodes to %d entries'
                          % (len(keys), len(parsed.get('G', {}))))
    finally:
        db.disconnect()


def _first_collision(G, names, keys, serialization):
    seen = {}
    for k in keys:
        one = serialization.to_dict([G[tuple(k)]]).get('G', {})
        for enc in one:
            if enc in seen: return list(seen[enc]), list(k)
            seen[enc] = k
    return None, None


# ------------------------------------------------------------------------------------------------
# runner entry points

def run(ctx):
    # part 1: grids
    for gi, (types, alphabet, maxlen, ints) in enumerate(GRIDS[ctx.tier]):
        if gi % ctx.nshards != ctx.shard: continue
        ctx.check_time()
        keys = grid_keys(types, alphabet, maxlen, ints)

        def fail_pair(a, b, message, types=types):
            ks = [k for k in (a, b) if k is not None]
            ctx.fail({'kind': 'grid', 'types': list(types), 'keys': ks if len(ks) == 2 else keys}, message)
        run_grid(types, keys, fail_pair)
        for i, k in enumerate(keys):
            nt = any(isinstance(p, str) and (',' in p or '*' in p) for p in k)
            ctx.case(key={'g': list(types), 'k': k}, nontrivial=nt, classes=['grid', 'sep_in_key'] if nt else ['grid'],
                     sample={'grid': list(types), 'key': k} if i % 997 == 5 else None)
        ctx.extra['grid_keys'] = ctx.extra.get('grid_keys', 0) + len(keys)

    # part 2: generated cases
    from hypothesis import strategies as st
    size = SIZES[ctx.tier]
    stats = {}

    @st.composite
    def cases(draw):
        return cm.draw_case(draw, st, size)

    def t(case):
        def fail(tag, message):
            return ctx.fail(dict(case, tag=tag), message)
        M, S = execute(case, fail, ctx.workdir, stats, allow_sub=(ctx.tier == 'thorough'))
        cls, nt = case_classes(case, S)
        ctx.case(key=runner.chash(case), nontrivial=nt, classes=cls,
                 sample={'spec': case['spec'], 'objects': sum(len(x) for x in case['objs']), 'mods': case['mods'],
                         'between': case['between'], 'jobs': case['plan']['jobs']})
    try:
        ctx.run_test(t, dict(case=cases()), max_examples=ctx.scale(300, 500), name='cases')
    finally:
        for k, v in stats.items():
            ctx.extra[k] = ctx.extra.get(k, 0) + v


def replay(case):
    if case.get('kind') == 'grid':
        found = []
        run_grid(tuple(case['types']), case['keys'], lambda a, b, m: found.append(m))
        return found[0] if found else None
    found = []
    want = case.get('tag')

    def fail(tag, message):
        found.append((tag, message))
        return False
    workdir = os.path.join(runner.HOME, '.work', 'replay%d' % os.getpid())
    os.makedirs(workdir, exist_ok=True)
    try:
        try:
            execute(case, fail, workdir, {}, allow_sub=True)
        except Exception:
            if not found: raise
    finally:
        shutil.rmtree(workdir, ignore_errors=True)
        try: os.rmdir(os.path.join(runner.HOME, '.work'))
        except OSError: pass
    for tag, message in found:
        if tag == want: return message
    return found[0][1] if found else None


# ------------------------------------------------------------------------------------------------
# open known findings (narrow, by root cause)

def _bag_given_partial(case, message):
    """serialization.Bag: an object that was put into the bag but is also the target of a relation of another given
    object processed earlier is stored in the abbreviated 'related object' form (collections omitted) and the full
    pass then skips it (`if obj not in dicts`)"""
    return case.get('tag') == 'bag_given_partial'


def _bag_coll_refpk(case, message):
    """serialization.Bag._process_object tests `attr.reverse.entity._pk_is_composite_` (number of pk ATTRIBUTES) where
    Bag.to_dict and Entity.to_dict test the number of pk COLUMNS: items whose single pk attribute is a reference to a
    composite-key entity are listed by the first key column only"""
    return case.get('tag') == 'bag_coll_refpk'


def _pickle_coll_m2m(case, message):
    """unpickle_setwrapper ignores the pickled items: a many-to-many collection unpickled in a session that has not
    loaded it comes back empty (and marked fully loaded)"""
    return case.get('tag') == 'pickle_coll_m2m'


def _pickle_reference_cycle(case, message):
    """Entity.__reduce__ passes the attribute values (incl. related objects) as constructor ARGUMENTS of
    unpickle_entity, so pickle cannot memoise the object before descending: any cycle of loaded to-one references
    (both sides of every one-to-one relation, a self reference, parent<->child chains) ends in RecursionError"""
    return case.get('tag') == 'pickle_reference_cycle'


EXCLUSIONS = {'pickle_reference_cycle': _pickle_reference_cycle,
              'bag_given_object_emitted_as_related': _bag_given_partial,
              'bag_collection_of_reference_pk_items': _bag_coll_refpk,
              'unpickled_m2m_collection_empty': _pickle_coll_m2m}

MANIFEST = {
    'text': 'Hypothesis-generated small models (scalar types incl. lazy, composite keys of (int,str)/(str,str)/reference parts '
            'whose strings contain the "," separator and "*" escape, to-one / one-to-many / many-to-many / key references) '
            'with generated objects, links and unflushed modifications are compared with a plain-Python mirror: Entity.to_dict '
            'under all only/exclude/with_collections/with_lazy/related_objects combinations, serialization.Bag/to_dict/to_json '
            'and Database.to_json contents and key injectivity (plus a complete grid of composite keys over ",", "*" up to '
            'length 3-4), and pickle round trips of objects, lists, collections, query results and queries into another '
            'db_session (thorough: also a fresh process) with identity-map and value checks, also after another session '
            'changed the rows. Sampled search; cannot establish the unbounded claim.',
    'note': 'Trusts the mirror model, SQLite and the json/pickle modules; modifications avoid cascade-dependent deletes; '
            'for rows changed between pickling and unpickling only the attributes loaded at pickle time are compared.',
    'technique': 'hypothesis model/data generation against a reference mirror + bounded-exhaustive key grid + pickle round trip',
}
