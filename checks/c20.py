"""C20 Optimistic concurrency control prevents lost updates.

Two or three optimistic sessions (real `db_session`s, one per actor thread of the deterministic scheduler vlib/sched.py)
run generated scripts of reads and writes over 1-2 shared rows of one SQLite file; hypothesis generates the scripts and the
interleaving (one scheduling decision per operation).  The committed database is read through a plain sqlite3 connection
after every step and every statement each session sends is logged, so the oracle needs nothing from Pony but the values its
reads returned and the exceptions it raised.  See vlib/c20_lib.py.
"""
from vlib import c20_lib

ID = 'C20'
LEVEL = 'exploration'
RULE = ('A case = initial values of 1-2 rows (int, nullable int, str, Decimal, bool, reference, two-column reference to a '
        'composite-key entity declared in front of the other attributes, float, volatile, optimistic=False '
        'attributes) + 2-3 session scripts (fetch by E[pk]/get/select/get_for_update/select().for_update(), attribute reads, '
        'to_dict, get(**kw)/select filters (single-row and several-row results, query and select(**kw)), assignments, set(**kw), read-modify-write, dependent writes, delete, flush, commit() in '
        'the middle of the db_session, leaving and re-entering db_session on the same Database; end = commit/rollback/exception; '
        'three generators: free scripts, scripts built around one contended attribute, and two-transaction patterns (same '
        'updated/compared columns with NULL vs non-NULL read values; for_update lock, mid-session commit, then read and write)) + a schedule (one choice among runnable actors per operation) + a layout (one Database per '
        'actor = lock conflicts fail with "database is locked"; or one shared Database = lock conflicts wait on the provider '
        'lock). Oracle per history: (1) the committed database changes only in the step of a successful commit; (2) for every '
        'transaction that committed an UPDATE of a row not locked in that transaction: the row still existed and every checked attribute it had '
        'read from it before sending the UPDATE and never overwrote had, just before the commit, the value it read; (3) a flush '
        'or commit that fails while such an attribute is stale fails with OptimisticCheckError/UnrepeatableReadError or a lock '
        'error. Non-trivial = some session read an attribute of a row it also wrote, and another session committed a write to '
        'that attribute (or deleted the row) between that read and the end of the first session; distinct by case hash.')
ASSUMPTIONS = ['SQLite only (file database, timeout=0); the PostgreSQL half of the quantifier is not reachable without a server',
               'sessions are interleaved at operation granularity by vlib/sched.py: one thread per session, one runnable at a time',
               'a plain sqlite3 connection in autocommit mode sees exactly the committed state',
               'which row an UPDATE addresses is read from the statement log (sqlite3 connection factory), not from Pony']
SHARDS = {'quick': 4, 'thorough': 16}
MIN_EVALS = {'quick': 3000, 'thorough': 20000}
CLASS_FLOORS = {'conflict': 0.10, 'stale_detected': 0.04, 'commit_update': 0.40}
EXCLUSIONS = {}

MANIFEST = {
    'text': 'Generated interleavings (operation granularity, deterministic scheduler) of 2-3 optimistic sessions reading and '
            'writing overlapping attributes of 1-2 shared rows on a SQLite file; after every step the committed rows are read '
            'through a raw connection. Checked per history: only successful commits change the database; a committed UPDATE of '
            'an unlocked row never coexists with a changed value of an attribute the session had read and not overwritten '
            '(float, optimistic=False and volatile attributes exempt); conflicting flushes fail with '
            'OptimisticCheckError/UnrepeatableReadError or a lock error.',
    'note': 'SQLite only (no PostgreSQL server); bounded scripts (<= 3 actors x 7 operations, 2 rows, several transactions per actor); trusts the scheduler, '
            'the statement log and sqlite3 autocommit reads; cannot establish absence of lost updates beyond the explored histories.',
    'technique': 'property-based testing of generated schedules with a deterministic one-runnable-thread scheduler and a raw-SQL observer',
}


def _strategies():
    from hypothesis import strategies as st
    c = st.integers(0, 11)
    obj = st.sampled_from([0, 0, 0, 1])
    # a few "hot" attributes attract most reads and writes
    attr = st.one_of(st.sampled_from([0, 3, 4]), st.sampled_from([0, 0, 1, 2, 5, 6, 10, 10]), st.integers(0, len(c20_lib.NAMES) - 1))
    ops = {
        'get': st.tuples(st.just('get'), obj, st.integers(0, len(c20_lib.GET_HOWS) - 1)),
        'read': st.tuples(st.just('read'), obj, attr),
        'dict': st.tuples(st.just('dict'), obj),
        'getkw': st.tuples(st.just('getkw'), obj, attr, c),
        'selkw': st.tuples(st.just('selkw'), obj, attr, c),
        'selmany': st.tuples(st.just('selmany'), attr, c, c),
        'write': st.tuples(st.just('write'), obj, attr, c),
        'set': st.tuples(st.just('set'), obj, st.lists(st.tuples(attr, c).map(list), min_size=1, max_size=3)),
        'bump': st.tuples(st.just('bump'), obj, st.integers(0, 3)),
        'copy': st.tuples(st.just('copy'), obj, st.integers(0, 3), st.integers(0, 3)),
        'flush': st.tuples(st.just('flush')),
        'commit': st.tuples(st.just('commit')),
        'restart': st.tuples(st.just('restart')),
        'del': st.tuples(st.just('del'), obj),
    }
    weights = dict(get=4, read=12, dict=2, getkw=2, selkw=2, selmany=2, write=10, set=2, bump=2, copy=2, flush=3, commit=2, restart=1,
                   **{'del': 1})
    names = []
    for k in sorted(weights):
        names.extend([k] * weights[k])
    op = st.sampled_from(names).flatmap(lambda k: ops[k]).map(list)
    session = st.sampled_from([{}] * 7 + [{'immediate': True}])
    end = st.sampled_from(['commit'] * 6 + ['rollback', 'raise'])
    row = st.lists(st.integers(0, 3), min_size=len(c20_lib.NAMES), max_size=len(c20_lib.NAMES))
    layout = st.sampled_from(['multi', 'multi', 'shared'])
    schedule = st.lists(st.integers(0, 2), min_size=12, max_size=30)
    return st, c, obj, attr, op, session, end, row, layout, schedule


def case_strategy():
    """free-form scripts"""
    st, c, obj, attr, op, session, end, row, layout, schedule = _strategies()
    actor = st.fixed_dictionaries({'session': session, 'ops': st.lists(op, min_size=2, max_size=7), 'end': end})
    return st.fixed_dictionaries({
        'layout': layout,
        'rows': st.lists(row, min_size=1, max_size=2),
        'actors': st.lists(actor, min_size=2, max_size=3),
        'schedule': schedule,
    })


def race_strategy():
    """scripts built around one contended attribute: actor 0 reads (o, a) and writes some other attribute of o,
    actor 1 writes (o, a) or deletes o; everything else (fillers, a third actor, the schedule) is free"""
    st, c, obj, attr, op, session, end, row, layout, schedule = _strategies()
    filler = st.lists(op, min_size=0, max_size=2)

    @st.composite
    def build(draw):
        o = draw(obj)
        a = draw(attr)
        b = draw(attr)
        how = draw(st.sampled_from(['read', 'read', 'read', 'dict', 'getkw', 'selkw', 'copy']))
        if how == 'read':
            rd = ['read', o, a]
        elif how == 'dict':
            rd = ['dict', o]
        elif how == 'copy':
            rd = ['copy', o, a % 4, b % 4]
        else:
            rd = [how, o, a, draw(c)]
        wr_kind = draw(st.sampled_from(['write', 'write', 'write', 'set', 'bump', 'copy']))
        if wr_kind == 'write':
            wr = ['write', o, b, draw(c)]
        elif wr_kind == 'set':
            wr = ['set', o, [[b, draw(c)], [draw(attr), draw(c)]]]
        elif wr_kind == 'bump':
            wr = ['bump', o, b % 4]
        else:
            wr = ['copy', o, a % 4, b % 4]
        t_kind = draw(st.sampled_from(['write', 'write', 'write', 'set', 'bump', 'del']))
        if how == 'copy' or wr_kind == 'copy':
            t_attr = c20_lib.NAMES.index(c20_lib.INTLIKE[a % 4])
        else:
            t_attr = a
        if t_kind == 'write':
            tw = ['write', o, t_attr, draw(c)]
        elif t_kind == 'set':
            tw = ['set', o, [[t_attr, draw(c)]]]
        elif t_kind == 'bump':
            tw = ['bump', o, a % 4]
        else:
            tw = ['del', o]
        writer = draw(filler) + [tw] + (draw(filler) if t_kind != 'del' else [])
        pre = draw(filler)
        also = draw(st.sampled_from([[], [], [['read', o, c20_lib.NAMES.index('h')]], [['read', o, draw(attr)]]]))
        # a second read attribute: multi-attribute (and multi-column) WHERE clauses
        reader = pre + also + [rd] + draw(filler) + [wr] + draw(filler)
        actors = [{'session': draw(session), 'ops': reader, 'end': draw(end)},
                  {'session': draw(session), 'ops': writer, 'end': 'commit'}]
        r, w = 0, 1
        if draw(st.booleans()):
            actors[0], actors[1] = actors[1], actors[0]
            r, w = 1, 0
        # the canonical lost-update interleaving (reader up to its read, the whole writer, the rest of the reader), perturbed
        sch = [r] * (len(pre) + len(also) + 1) + [w] * (len(writer) + 1) + [r] * (len(reader) - len(pre) - len(also))
        if draw(st.integers(0, 3)) == 0:
            actors.append({'session': draw(session), 'ops': draw(st.lists(op, min_size=1, max_size=5)), 'end': draw(end)})
            for pos in draw(st.lists(st.integers(0, len(sch)), max_size=6)):
                sch.insert(pos, 2)
        for pos, val in draw(st.lists(st.tuples(st.integers(0, len(sch) - 1), st.integers(0, 2)), max_size=3)):
            sch[pos] = val
        if draw(st.integers(0, 4)) == 0:
            sch = draw(schedule)
        return {'layout': draw(layout), 'rows': draw(st.lists(row, min_size=1, max_size=2)), 'actors': actors,
                'schedule': sch}
    return build()


def special_strategy():
    """two patterns that need more than one transaction per session:
    'nullcache': a session updates column b of one row after reading a NULL (resp. non-NULL) nullable attribute x of it, commits
       (or leaves and re-enters db_session), then does the same on another row whose x is non-NULL (resp. NULL) while another
       session flips that x to NULL (resp. a value) in between -- same updated columns, same compared columns, different
       NULL-ness, so a cached UPDATE text must not be reused blindly;
    'lockcommit': a session locks a row with for_update, commits in the middle of the db_session (the lock is gone), reads an
       attribute, another session changes it, the first session writes another attribute and commits"""
    st, c, obj, attr, op, session, end, row, layout, schedule = _strategies()
    names = c20_lib.NAMES

    @st.composite
    def build(draw):
        kind = draw(st.sampled_from(['nullcache', 'nullcache', 'lockcommit', 'manyfilter', 'manyfilter']))
        lay = draw(layout)
        rows = [draw(row), draw(row)]
        sep = [draw(st.sampled_from(['commit', 'commit', 'restart']))]
        if kind == 'nullcache':
            x = draw(st.sampled_from([names.index('m'), names.index('g'), names.index('h')]))
            b = draw(st.sampled_from([names.index(a) for a in ('n', 'k', 's', 'd', 'b')]))
            null_first = draw(st.sampled_from([True, True, False]))
            p, t = draw(st.sampled_from([(1, 0), (0, 1)]))
            nonnull = draw(st.integers(1, 2))
            rows[p][x] = 0 if null_first else nonnull         # value choice 0 of a nullable attribute is NULL
            rows[t][x] = nonnull if null_first else 0
            flip = ['write', t, x, 0 if null_first else draw(st.integers(1, 2))]
            primer = [['read', p, x], ['write', p, b, draw(c)]]
            second = [['read', t, x], ['write', t, b, draw(c)]]
            if lay == 'shared' and draw(st.booleans()):
                # the first update is made by another session of the same Database
                actors = [{'session': {}, 'ops': second, 'end': 'commit'},
                          {'session': {}, 'ops': [flip], 'end': 'commit'},
                          {'session': {}, 'ops': primer, 'end': 'commit'}]
                sch = [2] * 3 + [0] + [1] * 2 + [0] * 2
            else:
                actors = [{'session': {}, 'ops': primer + [sep] + second, 'end': 'commit'},
                          {'session': {}, 'ops': [flip], 'end': 'commit'}]
                sch = [0] * 4 + [1] * 2 + [0] * 2
        elif kind == 'manyfilter':
            # both rows satisfy a filter on attribute a; the session learns a only through that filter (query or kwargs),
            # another session changes a on one of the rows, the first session then writes another attribute of that row
            a = draw(st.sampled_from([names.index(n_) for n_ in ('n', 'k', 'm', 's', 'd')]))
            b = draw(st.sampled_from([names.index(n_) for n_ in ('n', 'k', 's', 'd', 'b') if names.index(n_) != a]))
            vc = draw(st.integers(1, 3))                        # choice 0 of a nullable attribute is NULL
            rows[0][a] = rows[1][a] = vc
            o = draw(st.integers(0, 1))
            first = draw(st.lists(op, max_size=1)) + [['selmany', a, vc, draw(st.integers(0, 2))]]
            rest = draw(st.lists(op, max_size=1)) + [['write', o, b, draw(c)]]
            actors = [{'session': draw(session), 'ops': first + rest, 'end': 'commit'},
                      {'session': {}, 'ops': [['write', o, a, vc + draw(st.integers(1, 2))]], 'end': 'commit'}]
            sch = [0] * len(first) + [1] * 2 + [0] * (len(rest) + 1)
        else:
            o = draw(st.integers(0, 1))
            a = draw(st.sampled_from([names.index(n_) for n_ in ('n', 'k', 'm', 's', 'd', 'b', 'g')]))
            b = draw(st.sampled_from([names.index(n_) for n_ in ('n', 'k', 's', 'd', 'b') if names.index(n_) != a]))
            how = draw(st.sampled_from([4, 5, 6]))            # get_for_update / select().for_update() / nowait
            mid = ['commit']                                    # the session itself must go on (same cache)
            actors = [{'session': draw(session), 'ops': [['get', o, how]] + draw(st.lists(op, max_size=1)) + [mid, ['read', o, a],
                                                         ['write', o, b, draw(c)]], 'end': 'commit'},
                      {'session': {}, 'ops': [['write', o, a, draw(c)]], 'end': 'commit'}]
            k = len(actors[0]['ops'])
            sch = [0] * (k - 1) + [1] * 2 + [0] * 2
        for pos, val in draw(st.lists(st.tuples(st.integers(0, len(sch) - 1), st.integers(0, 2)), max_size=2)):
            sch[pos] = val
        return {'layout': lay, 'rows': rows, 'actors': actors, 'schedule': sch}
    return build()


def run(ctx):
    env = c20_lib.Env(ctx.workdir)

    def t(case):
        verdict, info = c20_lib.run_case(env, case)
        if verdict is None:
            ctx.inconclusive += 1
            return
        sample = None
        if verdict.nontrivial and len(ctx.samples) < 6:
            sample = {'case': case, 'history': c20_lib.fmt_trace(case, info).split('\n    ')}
        ctx.case(key=case, nontrivial=verdict.nontrivial, classes=sorted(verdict.classes) + ['layout:' + case['layout']],
                 sample=sample)
        if verdict.message is not None:
            ctx.fail(case, verdict.message)
    try:
        ctx.run_test(t, {'case': case_strategy()}, max_examples=ctx.scale(400, 800), name='schedules')
        if ctx.violation is None:
            ctx.run_test(t, {'case': race_strategy()}, max_examples=ctx.scale(450, 900), name='races')
        if ctx.violation is None:
            ctx.run_test(t, {'case': special_strategy()}, max_examples=ctx.scale(200, 400), name='special')
    finally:
        env.close()


def replay(case):
    return c20_lib.replay_case(case)
