"""C17 A session's writes are atomic under crashes and database errors.

Generated write programs (vlib/c17_prog.py) run on a FILE database through the fault-injecting DB-API layer
(vlib/faultdb.py).  A fault-free dry run records every DB-API call (N of them) and the database content after each
commit point of the program (S0..Sn, read by a separate plain sqlite3 connection).  Then EVERY call index k < N is
enumerated: an sqlite3.OperationalError raised instead of the call, one raised right after the call was performed, an
sqlite3.IntegrityError instead of every execute call, and the death of the process (os._exit) right before the call.
Oracle: the database read afterwards by a new connection equals exactly S(j), j = number of commit points whose COMMIT
was performed before the fault -- never a state in between.
"""
import os, shutil, time
from vlib import c17_prog as P
from vlib.runner import Violation, chash

ID = 'C17'
LEVEL = 'fault_enumeration'
RULE = ('Part 1, complete grid: every statement-at-once write (raw execute insert/update, db.insert, bulk delete, obj.flush() '
        'after create/update/delete) as the FIRST write of a session, and every nested-session form (with db_session, '
        'db_session(sql_debug=False), @db_session / @db_session(sql_debug=False|True) / @db_session(immediate=True) helpers, '
        'sql_debugging) in the middle of a session, x 4 session modes x {cold, warm statement caches}. Part 2, generated: '
        'a program is pure data: 1-3 db_sessions (optimistic / immediate=True / serializable=True / optimistic=False) of 1-6 '
        'operations each (create, update, delete, many-to-many add/remove/assign, raw db.execute insert/update, db.insert, '
        'bulk and per-object query delete, flush()/obj.flush()/commit()/rollback() at generated points, create/update/delete saved at once with obj.flush(), one operation inside a nested db_session form, reads; half of '
        'the sessions start with a statement-at-once write), optionally warm (the program ran once before on the same Database '
        'object, then the file was restored and the pooled connection closed), ending in '
        'commit or in an exception, over a fixed 4-entity model on a file database. For every generated program EVERY call '
        'index k of its fault-free DB-API call log (connect/cursor/execute/executemany/commit/rollback/close) is enumerated '
        'with: OperationalError before the call, OperationalError after the call was performed, IntegrityError before every '
        'execute/executemany, and process death (os._exit(137) in a child process) right before the call (for every call but '
        'cursor(), before which death is the same event as before the following call); plus the '
        'fault-free run itself. One evaluation = one (program, k, variant). The database read afterwards by a fresh sqlite3 '
        'connection must equal the committed prefix state S(j), j = commit points whose COMMIT call was performed before the '
        'fault (a fault after the performed COMMIT counts it); for error variants also after a following session of the same '
        'thread committed one unrelated row. Non-trivial = the fault index lies inside an open transaction that had already '
        'written at least one row; distinct by hash of (program, k, variant).')
ASSUMPTIONS = ['SQLite 3.40 file database in rollback-journal mode; SQLite itself is trusted to make BEGIN..COMMIT atomic and '
               'to roll back a hot journal left by a dead process',
               'process death is os._exit(137) of a child process in which each run was abandoned at its call k: from that call '
               'on no DB-API call of the run reaches SQLite (the layer raises instead), so the connection stays as it was, '
               'transaction open, until the process dies; power loss / torn pages are not modelled',
               'the fault layer (sqlite3.Connection/Cursor subclasses given to Pony as factory=) raises genuine sqlite3 errors; it '
               'opens every connection with PRAGMA synchronous=OFF (no fsync: irrelevant for errors and process death, which '
               'are what is injected)',
               'PostgreSQL autocommit switching is not exercised (no server or driver in the sandbox)']
SHARDS = {'quick': 4, 'thorough': 16}
MIN_EVALS = {'quick': 600, 'thorough': 10000}
CLASS_FLOORS = {'nontrivial': 0.10, 'variant:crash': 0.08}
EXCLUSIONS = {}

MANIFEST = {
    'text': 'Generated multi-session write programs on a file database; every DB-API call index of every program is failed '
            '(error before the call, error after the call, process killed before the call) and the database content read by a '
            'new connection afterwards must equal the committed prefix state of the fault-free run determined by the number of '
            'completed commits.',
    'note': 'SQLite only (PostgreSQL autocommit switching cannot be run here); single injected fault per run; process death is '
            'os._exit of a child process, not power loss; bounded programs (<= 3 sessions x 6 operations); cannot establish absence.',
    'technique': 'fault enumeration over generated programs (hypothesis) with a prefix-state oracle read through an independent connection',
}


def variants(call):
    out = [('before', 'operational'), ('after', 'operational')]
    if call['kind'] in ('execute', 'executemany'):
        out.append(('before', 'integrity'))
    return out


def crash_points(dry):
    """process death is enumerated right before every call except cursor(): creating a cursor touches neither the file nor the
    connection's transaction and Pony performs no other DB-API call in between, so death right before cursor() call k is the
    same event as death right before call k+1, which is in the list"""
    return [k for k in range(dry.n) if dry.calls[k]['kind'] != 'cursor']


def session_of(dry, k):
    s = 0
    for i, lo in enumerate(dry.session_starts):
        if lo <= k:
            s = i
    return s


def evaluate(ctx, program, template, workdir, server, family=None, stats=None, batch=None):
    """all fault runs of one program; reports through ctx.fail"""
    path = os.path.join(workdir, 'run.sqlite')
    t_start = time.time()
    dry = P.DryRun(template, path, program)
    if dry.harness_error is not None:
        raise dry.harness_error
    ph = chash(program)
    modes = [s.get('mode', 'optimistic') for s in program['sessions']]
    if dry.error is not None:
        ctx.count('program_ends_in_own_error')
    # the fault-free run: whatever was not committed at a commit point must be gone
    ctx.case(key=[ph, 'nofault'], nontrivial=False, classes=['variant:none'],
             sample={'program': program, 'calls': dry.n, 'commit_points': len(dry.points)})
    if dry.final != dry.states[-1]:
        ctx.fail({'program': program, 'k': dry.n, 'when': 'none', 'exc': 'none'},
                 'fault-free run: the database after the program differs from the state at its last commit point (S%d): %s'
                 % (len(dry.states) - 1, P.diff_states(dry.final, dry.states[-1])))
    for k in range(dry.n):
        ctx.check_time()
        call = dry.calls[k]
        mode = modes[session_of(dry, k)]
        if family in (None, 'error'):
            for when, exc in variants(call):
                classes = ['variant:%s-%s' % (when, exc), 'kind:' + call['kind'], 'mode:' + mode]
                if dry.dirty[k]:
                    classes.append('nontrivial')
                ctx.case(key=[ph, k, when, exc], nontrivial=dry.dirty[k], classes=classes,
                         sample={'program': program, 'k': k, 'call': call['kind'], 'sql': (call['sql'] or '')[:60], 'variant': [when, exc]}
                         if dry.dirty[k] and k % 11 == 3 else None)
                msg = P.error_run(template, path, program, dry, k, when, exc, stats)
                if msg:
                    if msg.startswith('harness:'):
                        raise RuntimeError(msg)
                    ctx.fail({'program': program, 'k': k, 'when': when, 'exc': exc}, msg)
    ctx.extra['error_part_s'] = round(ctx.extra.get('error_part_s', 0) + time.time() - t_start, 2)
    if family in (None, 'crash'):
        ks = crash_points(dry)
        if batch is not None:
            batch.append((program, dry, ks))
        else:
            judge_crash(ctx, server, template, workdir, [(program, dry, ks)])


def judge_crash(ctx, server, template, workdir, jobs):
    t_start = time.time()
    results = list(P.crash_batch(server, template, workdir, jobs))
    ctx.extra['crash_part_s'] = round(ctx.extra.get('crash_part_s', 0) + time.time() - t_start, 2)
    for j, k, msg in results:
        program, dry, _ = jobs[j]
        call = dry.calls[k]
        modes = [s.get('mode', 'optimistic') for s in program['sessions']]
        classes = ['variant:crash', 'kind:' + call['kind'], 'mode:' + modes[session_of(dry, k)]]
        if dry.dirty[k]:
            classes.append('nontrivial')
        if msg and msg.startswith('inconclusive'):
            ctx.inconclusive += 1
            ctx.extra.setdefault('inconclusive_example', msg[:300] + ' ' + repr(program))
            continue
        ctx.case(key=[chash(program), k, 'before', 'crash'], nontrivial=dry.dirty[k], classes=classes)
        if msg:
            ctx.fail({'program': program, 'k': k, 'when': 'before', 'exc': 'crash'}, msg)


def run(ctx):
    template = P.make_template(os.path.join(ctx.workdir, 'template.sqlite'))
    server = P.CrashServer()
    found = {}
    stats = {}

    def t(program):
        try:
            evaluate(ctx, program, template, ctx.workdir, server, family=found.get('family'), stats=stats)
        except Violation as v:
            if 'violation' not in found:
                found['violation'] = {'case': v.case, 'message': v.message}
            found['family'] = 'crash' if v.case.get('exc') == 'crash' else 'error'   # keeps shrinking cheap
            raise
    try:
        # part 1: complete small grid (first write of a session x session mode x cold/warm caches; nested session forms)
        batch = []
        for gi, program in enumerate(P.grid_programs()):
            if gi % ctx.nshards != ctx.shard:
                continue
            ctx.count('part:grid-program')
            evaluate(ctx, program, template, ctx.workdir, server, stats=stats, batch=batch)
            if len(batch) >= 10:
                judge_crash(ctx, server, template, ctx.workdir, batch)
                del batch[:]
        if batch:
            judge_crash(ctx, server, template, ctx.workdir, batch)
        ctx.extra['grid_part_s'] = round(time.time() - ctx.t0, 1)
        ctx.extra['grid_part_evaluations'] = ctx.evaluations
        # part 2: generated programs
        ctx.run_test(t, {'program': P.programs()}, max_examples=ctx.scale(10, 60), name='programs')
    finally:
        server.close()
    if ctx.violation is None and 'violation' in found:
        ctx.violation = found['violation']       # e.g. the wall-clock guard interrupted the shrinking
    for k, v in stats.items():
        ctx.count('errorrun:' + k, v)


def replay(case):
    home = os.environ.get('VERIF_HOME') or os.path.dirname(os.path.dirname(os.path.abspath(__file__)))
    workdir = os.path.join(home, '.work', 'replay%d' % os.getpid())
    os.makedirs(workdir, exist_ok=True)
    server = None
    try:
        template = P.make_template(os.path.join(workdir, 'template.sqlite'))
        path = os.path.join(workdir, 'run.sqlite')
        program, k, when, exc = case['program'], case['k'], case['when'], case['exc']
        dry = P.DryRun(template, path, program)
        if dry.harness_error is not None:
            raise dry.harness_error
        if exc == 'none':
            if dry.final != dry.states[-1]:
                return ('fault-free run: the database after the program differs from the state at its last commit point: %s'
                        % P.diff_states(dry.final, dry.states[-1]))
            return None
        if k >= dry.n:
            return None
        if exc == 'crash':
            server = P.CrashServer()
            for _, msg in P.crash_runs(server, template, workdir, program, dry, [k]):
                if msg and msg.startswith('inconclusive'):
                    raise RuntimeError(msg)
                return msg
            return None
        msg = P.error_run(template, path, program, dry, k, when, exc)
        if msg and msg.startswith('harness:'):
            raise RuntimeError(msg)
        return msg
    finally:
        if server is not None:
            server.close()
        shutil.rmtree(workdir, ignore_errors=True)
        try:
            os.rmdir(os.path.join(home, '.work'))
        except OSError:
            pass
