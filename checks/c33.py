"""C33 Lifecycle hooks run once per saved change and their edits are saved.

Model: P (explicit pk, Set of K via required K.parent -> cascade delete, Set of K via optional K.alt, m2m Set of T,
optional self-reference P.up / Set P.downs which the harness keeps acyclic),
K (auto pk, unique harness tag) with subclass K2, T (explicit pk).  Every class defines all six hooks; every hook call
and every SQL statement actually executed (sqlite3.Connection/Cursor subclasses passed through db.bind(factory=...))
go to ONE ordered log together with begin/end markers of the program's operations.  Hook bodies are data
(per class x hook: nothing / read scalars / read collections / modify self.h / modify another live object /
create a P, K, K2 or T / edit the Json dict m or the int array arr of self or of another object IN PLACE through the
tracked value Pony returns -- m['n'] = v, m['trail'].append(v), arr.append(v) -- or re-assign m).  Histories are 1..3 db_sessions of creates, updates (several per object, same-value,
obj.set, in-place edits and re-assignments of the Json / array values, also next to ordinary updates of the same object), to-one and to-many and many-to-many changes, deletes (incl. unflushed creates, update-then-delete, cascade),
flush(), obj.flush(), queries (auto-flush), commit(), rollback(), exit by commit or by exception.

Oracle (from the log and plain sqlite3 reads only) -- see vlib/c33_harness.judge:
  * every INSERT/UPDATE/DELETE on p, k, t is attributable to one object (pk parameter; k rows through lastrowid -> tag);
  * per object, between two consecutive statements of that object there is exactly one before-hook call and it is of
    the kind of the second statement; a before-hook call that is followed by no statement is a violation;
  * per object and kind, the j-th after-hook call comes after the j-th statement and before the operation that
    executed the statement returns; no after-hook call without a statement;
  * after flush(), after a query (auto-flush) and after commit() the tables read through the connection Pony uses equal
    the reference model (all writes of program and hooks so far, including objects created in hooks);
    after commit / rollback / session end the tables read through a separate connection equal the committed model.
Relative order among different objects is not asserted.  What after_* hooks change is not required to be saved by the
operation in which they ran (only by a later flush/commit); what before_* hooks change is.  After obj.flush() the rows of
all objects that got a statement during the call (the flushed object and the unsaved objects it depends on, at any
distance: K.parent / K.alt / P.up chains, trees, diamonds) are compared, unless a later hook of the same call wrote to
them again.

Two Pony refusals that belong to other properties are counted as rejected (rate in the evidence), never as violations:
a before_delete hook that reads a value which is not in memory gets UnrepeatableReadError "Phantom object X disappeared"
(the hook notes it and goes on), and a collection load that meets its own unflushed m2m removal raises
"Phantom object X appeared in collection Y" (the history stops there; the log up to that point is still judged).
"""
import os, re, shutil

from vlib import c33_harness as H

ID = 'C33'
LEVEL = 'exploration'
RULE = ('One case = hook table (4 classes x 6 hooks -> body in {nothing, read, readcoll, mod_self, mod_other, create, mod_json} + argument; mod_json = IN-PLACE edit of a tracked Json dict / nested list / int array of self or another object, or its re-assignment), '
        'a per-operation budget of hook side effects (0..8) and 1..3 db_sessions of operations (new_p/new_t/new_k/set/same/setkw/'
        'move/alt/up/alts_add/alts_remove/link/unlink/jedit/jassign/del/flush/oflush/query/commit/rollback; session exit commit or exception) '
        'on the P/K/K2/T model (P.up is a self-reference, kept acyclic). Part 1 (grid, complete): every single (class, hook, body, argument) assignment [thorough: also '
        'every before-body x after-body pair per class] and 28 same-body-on-every-class tables x 14 fixed scenario histories (the 6 chain scenarios are skipped for T-only tables in the quick tier and in the pair grid; 1 of program-made in-place Json/array edits next to ordinary updates, 6 of them obj.flush() on chains / a diamond / a tree of unsaved principals K -> P -> P -> P). Part 2 (hypothesis): random hook tables and '
        'histories. Part 3 (hypothesis): histories built around obj.flush() of the newest object of a chain / tree / diamond of 2..5 '
        'new P and 0..2 new K, same bodies on every level or random per level. Non-trivial = at least one hook call performed a side effect (attribute write / object creation), or one '
        'object got two or more statements within one session, or a flush ran inside an after-hook; distinct by the sha1 of the '
        'value-free trace (sequence of hook kind:class:effect and statement kind:table entries of the whole log). Rejected = '
        'history that met one of two Pony read refusals outside this property (UnrepeatableReadError phantom object '
        'disappeared / appeared in collection); the part of the log before the refusal is still judged.')
ASSUMPTIONS = ['SQLite 3 live through pony.orm.dbproviders.sqlite; statements observed with sqlite3.Connection/Cursor subclasses '
               '(bind kwarg factory=), so statements issued through other cursor types would be missed',
               'statement attribution parses the SQL text Pony generates for SQLite ("id" pk column, qmark parameters)',
               'reference model of cascade (required parent -> kids deleted, optional alt -> NULL, m2m rows removed) written from the '
               'documented cascade_delete defaults',
               'hook side effects are capped per operation (budget) so flush rounds stay far below the 50-round limit']
SHARDS = {'quick': 4, 'thorough': 16}
MIN_EVALS = {'quick': 2500, 'thorough': 20000}
CLASS_FLOORS = {'inplace_edit': 0.10, 'inplace_edit_in_before_update': 0.03, 'inplace_edit_on_pending_update': 0.05,
                'before_effect': 0.10, 'after_effect': 0.08, 'twice_in_session': 0.10, 'obj_flush': 0.05,
                'obj_flush_unsaved_chain_2plus': 0.03, 'obj_flush_unsaved_chain_3plus': 0.01,
                'rollback': 0.05, 'update_then_delete': 0.01, 'create_delete_unflushed': 0.02}

SIDE_EFFECTS = ('mod_self', 'mod_other', 'create')


# ------------------------------------------------------------------------------------------------
# fixed scenario histories for the grid
# ------------------------------------------------------------------------------------------------
def O(k, i=0, j=0, attr='a', v=0, w=None, f=False):
    return {'k': k, 'i': i, 'j': j, 'attr': attr, 'v': v, 'w': w, 'f': f}


def scenarios():
    # live objects are addressed by index into the sorted live list: all P, then all K/K2, then all T
    return [
        ('insert_update_delete', [
            {'ops': [O('new_p', v=1), O('new_k', v=2), O('new_t', v=3), O('link'), O('flush'),
                     O('set', i=0, v=4), O('set', i=1, attr='b', v=5), O('set', i=2, v=6), O('flush', f=True),
                     O('set', i=1, v=7), O('commit'),
                     O('del', i=1), O('del', i=1), O('del', i=0)], 'end': 'commit'}]),
        ('unflushed_delete_and_update_delete', [
            {'ops': [O('new_p', v=1), O('new_k', v=2, attr='c'), O('new_t', v=3)], 'end': 'commit'},
            {'ops': [O('new_p', v=4), O('del', i=1), O('set', i=1, v=5), O('del', i=1),
                     O('set', i=0, v=6), O('set', i=0, attr='b', v=7), O('flush'), O('set', i=0, v=8),
                     O('new_t', v=1), O('del', i=2)], 'end': 'commit'}]),
        ('obj_flush', [
            {'ops': [O('new_p', v=1), O('oflush', i=0), O('new_k', v=2), O('oflush', i=1), O('set', i=1, v=3),
                     O('set', i=0, v=3), O('oflush', i=1), O('new_t', v=4), O('oflush', i=2), O('oflush', i=2),
                     O('del', i=1), O('oflush', i=0)], 'end': 'commit'}]),
        ('obj_flush_with_new_principal', [
            {'ops': [O('new_p', v=1), O('new_k', v=2, attr='c'), O('oflush', i=1), O('set', i=1, v=3), O('flush')],
             'end': 'commit'}]),
        ('many_updates_same_value_rollback', [
            {'ops': [O('new_p', v=1, w=2), O('new_k', v=2), O('new_k', v=3, attr='c', f=True)], 'end': 'commit'},
            {'ops': [O('set', i=0, v=5), O('set', i=0, attr='b', v=6), O('same', i=0), O('same', i=1, attr='b'),
                     O('setkw', i=2, v=7, w=8), O('flush'), O('set', i=0, v=9), O('rollback'),
                     O('set', i=1, v=4), O('query'), O('set', i=1, v=5)], 'end': 'commit'},
            {'ops': [O('set', i=0, v=1), O('flush'), O('set', i=2, v=1)], 'end': 'rollback'}]),
        ('cascade_and_relations', [
            {'ops': [O('new_p', v=1), O('new_p', v=2), O('new_k', i=0, v=3), O('new_k', i=0, j=1, v=4, f=True),
                     O('new_k', i=1, j=0, v=5, attr='c', f=True), O('new_t', v=6), O('link', i=0), O('link', i=1, f=True),
                     O('commit', f=True), O('move', i=0, j=1), O('alt', i=0, j=1), O('alts_add', i=0, j=0),
                     O('query', i=1), O('alts_remove', i=0), O('unlink'), O('del', i=0)], 'end': 'commit'},
            {'ops': [O('del', i=0)], 'end': 'commit'}]),
        ('queries_and_m2m', [
            {'ops': [O('new_p', v=1), O('new_t', v=2), O('new_t', v=3), O('link', j=0), O('query', i=2), O('link', j=1, f=True),
                     O('set', i=0, v=2), O('query', i=1), O('unlink', f=True), O('set', i=1, v=3), O('query', i=0),
                     O('new_k', v=1), O('query', i=0), O('del', i=3)], 'end': 'commit'}]),
    ] + chain_scenarios() + tracked_value_scenarios()


def tracked_value_scenarios():
    """in-place edits of the Json / array values by the program, alone and next to ordinary attribute changes of the same
    object in one flush window, on new, loaded, already modified and already flushed objects (jedit j: 0 m['n']=v,
    1 m['trail'] append, 2 arr.append; jassign: m (f=False) or arr (f=True) re-assigned)"""
    return [
        ('tracked_values_program', [
            {'ops': [O('new_p', v=1, w=2), O('new_k', v=2, w=3), O('new_t', v=3), O('jedit', i=0, j=1, v=4),
                     O('jedit', i=2, j=0, v=5)], 'end': 'commit'},
            {'ops': [O('set', i=0, v=5), O('jedit', i=0, j=0, v=6), O('jedit', i=1, j=1, v=7), O('set', i=1, v=8), O('flush'),
                     O('jedit', i=0, j=2, v=9), O('jedit', i=0, j=1, v=1), O('oflush', i=0), O('set', i=2, v=2),
                     O('jedit', i=2, j=2, v=3), O('jassign', i=1, v=4), O('jedit', i=1, j=0, v=5), O('commit'),
                     O('jassign', i=0, v=6, w=7, f=True), O('jedit', i=0, j=2, v=8), O('set', i=0, attr='b', v=1)],
             'end': 'commit'},
            {'ops': [O('jedit', i=1, j=0, v=1), O('rollback'), O('set', i=1, v=2), O('jedit', i=1, j=1, v=3)], 'end': 'commit'}]),
    ]


CHAIN_NAMES = ('chain3_created_kid', 'chain2_parents_only', 'chain3_modified_kid', 'diamond', 'tree', 'chain_partly_saved')


def chain_scenarios():
    """obj.flush() on objects whose not yet inserted principals form chains (K -> P -> P -> P through K.parent / P.up),
    a diamond and a tree; selector -1 is the newest object of the class; oflush attr 'c' = a K, 'b' = a P"""
    up = lambda j=-1, v=1: O('new_p', j=j, v=v, f=True)
    return [
        ('chain3_created_kid', [
            {'ops': [O('new_p', v=1), up(), up(), O('new_k', i=-1, v=2), O('oflush', i=-1, attr='c'),
                     O('set', i=0, v=3), O('set', i=3, v=4), O('oflush', i=-1, attr='c'), O('flush')], 'end': 'commit'}]),
        ('chain2_parents_only', [
            {'ops': [O('new_p', v=1), up(), up(), O('oflush', i=-1, attr='b'), O('new_p', v=2), up(), O('oflush', i=-1, attr='b'),
                     O('set', i=0, v=5), O('oflush', i=0, attr='b')], 'end': 'commit'}]),
        ('chain3_modified_kid', [
            {'ops': [O('new_p', v=1), O('new_k', v=2, attr='c')], 'end': 'commit'},
            {'ops': [O('same', i=1), O('new_p', v=3), up(), up(), O('move', i=0, j=-1), O('oflush', i=0, attr='c'), O('query'),
                     O('new_p', v=4), up(), O('alt', i=0, j=-1), O('oflush', i=0, attr='c')], 'end': 'commit'}]),
        ('diamond', [
            {'ops': [O('new_p', v=1), up(j=0), up(j=0), O('new_k', i=1, j=2, v=2, f=True), O('oflush', i=-1, attr='c'),
                     O('flush')], 'end': 'commit'}]),
        ('tree', [
            {'ops': [O('new_p', v=1), O('new_p', v=2), up(j=0), up(j=1), O('new_k', i=2, j=3, v=2, f=True, attr='c'),
                     O('oflush', i=-1, attr='c'), O('set', i=0, v=7), O('commit')], 'end': 'commit'}]),
        ('chain_partly_saved', [
            {'ops': [O('new_p', v=1), up(), O('oflush', i=-1, attr='b'), up(), up(), O('new_k', i=-1, v=2),
                     O('up', i=-1, j=0), O('oflush', i=-1, attr='c'), O('up', i=-1, f=True), O('oflush', i=-1, attr='b')],
             'end': 'commit'}]),
    ]


def empty_hooks():
    return dict((c, dict((h, ['nothing', 0]) for h in H.HOOKS)) for c in H.CLASSES)


def _arg_values(body, tier):
    # create: arg % 3 chooses T / K / P, (arg // 3) % 2 chooses T with an owner link / subclass K2; mod_other: index of the target
    # mod_json: arg % 4 = m['n']=v / m['trail'] append / arr.append / m re-assigned; (arg // 4) % 2 = on self / on another object
    if body == 'mod_json': return (0, 1, 2, 5) if tier == 'quick' else (0, 1, 2, 3, 4, 5, 6, 14)
    if body not in ('mod_other', 'create'): return (0,)
    if tier == 'quick': return (0, 1, 2, 3) if body == 'create' else (0, 1, 2)
    return (0, 1, 2, 3, 4, 7)


def level_tables():
    """the same bodies on every class (= on every level of a reference chain); budget 6 lets every level act"""
    out = []
    for name, before, after in (('edit', 'mod_self', 'nothing'), ('edit+read', 'mod_self', 'read'),
                                ('edit+edit', 'mod_self', 'mod_self'), ('read+edit', 'read', 'mod_self'),
                                ('other+read', 'mod_other', 'readcoll'), ('create+edit', 'create', 'mod_self'),
                                ('inplace', 'mod_json', 'nothing'), ('inplace+inplace', 'mod_json', 'mod_json'),
                                ('inplace+read', 'mod_json', 'read'), ('edit+inplace', 'mod_self', 'mod_json')):
        for arg in (0, 1, 2, 5):
            if arg and not set((before, after)) & set(('create', 'mod_other', 'mod_json')): continue
            t = empty_hooks()
            for c in H.CLASSES:
                for h in H.HOOKS[:3]: t[c][h] = [before, arg]
                for h in H.HOOKS[3:]: t[c][h] = [after, arg]
            out.append(('levels:%s/%d' % (name, arg), t))
    return out


def grid_hook_tables(tier):
    out = [('all_nothing', empty_hooks())] + level_tables()
    for c in H.CLASSES:
        for h in H.HOOKS:
            for body in H.BODIES[1:]:
                for arg in _arg_values(body, tier):
                    t = empty_hooks()
                    t[c][h] = [body, arg]
                    out.append(('%s.%s=%s/%d' % (c, h, body, arg), t))
    if tier == 'thorough':
        for c in H.CLASSES:
            for hb in H.HOOKS[:3]:
                for bb in H.BODIES[1:]:
                    for ha in H.HOOKS[3:]:
                        for ba in H.BODIES[1:]:
                            for arg in ((1, 5) if set((bb, ba)) & set(('mod_other', 'create', 'mod_json')) else (1,)):
                                t = empty_hooks()
                                t[c][hb] = [bb, arg]
                                t[c][ha] = [ba, arg + 1]
                                if c == 'K':       # the subclass follows its base in the pair grid
                                    t['K2'][hb] = [bb, arg]
                                    t['K2'][ha] = [ba, arg + 1]
                                out.append(('%s.%s=%s,%s=%s/%d' % (c, hb, bb, ha, ba, arg), t))
    return out


def grid_cases(tier):
    k = 0
    for tname, table in grid_hook_tables(tier):
        pair = ',' in tname
        for sname, sessions in scenarios():
            if (tier == 'quick' or pair) and tname.startswith('T.') and sname in CHAIN_NAMES:
                continue        # no T object takes part in the reference-chain scenarios
            for budget in ((6,) if tname.startswith('levels:') else (2,) if tier == 'quick' or pair else (1, 3)):
                yield k, {'hooks': table, 'budget': budget, 'sessions': sessions, 'origin': 'grid:%s:%s' % (tname, sname)}
                k += 1


# ------------------------------------------------------------------------------------------------
# random cases
# ------------------------------------------------------------------------------------------------
OP_KINDS = (['new_p'] * 2 + ['new_t'] + ['new_k'] * 3 + ['set'] * 6 + ['same'] + ['setkw'] + ['move'] + ['alt'] +
            ['alts_add'] + ['alts_remove'] + ['link'] * 2 + ['unlink'] + ['del'] * 3 + ['flush'] * 3 + ['oflush'] * 3 + ['up'] +
            ['query'] * 2 + ['commit'] * 2 + ['rollback'] + ['jedit'] * 3 + ['jassign'])
BODY_WEIGHTED = ['nothing'] * 3 + ['read', 'readcoll'] + ['mod_self'] * 2 + ['mod_other'] * 2 + ['create'] * 2 + ['mod_json'] * 3


def case_strategy(tier):
    from hypothesis import strategies as st
    big = tier == 'thorough'
    op = st.fixed_dictionaries({
        'k': st.sampled_from(OP_KINDS), 'i': st.integers(-2, 7), 'j': st.integers(-2, 5),
        'attr': st.sampled_from(['a', 'b', 'h', 'c']), 'v': st.integers(0, 9),
        'w': st.one_of(st.none(), st.integers(0, 9)), 'f': st.booleans()})
    creator = st.fixed_dictionaries({
        'k': st.sampled_from(['new_p', 'new_p', 'new_k', 'new_k', 'new_t']), 'i': st.integers(-2, 3), 'j': st.integers(-2, 3),
        'attr': st.sampled_from(['a', 'c']), 'v': st.integers(0, 9), 'w': st.one_of(st.none(), st.integers(0, 9)),
        'f': st.booleans()})
    first = st.builds(lambda a, b: a + b, st.lists(creator, min_size=0, max_size=4),
                      st.lists(op, min_size=1, max_size=14 if big else 9))
    later = st.lists(op, min_size=1, max_size=12 if big else 7)
    end = st.sampled_from(['commit', 'commit', 'commit', 'rollback'])
    sess = lambda ops: st.fixed_dictionaries({'ops': ops, 'end': end})
    sessions = st.builds(lambda a, rest: [a] + rest, sess(first), st.lists(sess(later), min_size=0, max_size=2))
    hook = st.tuples(st.sampled_from(BODY_WEIGHTED), st.integers(0, 11)).map(list)
    hooks = st.fixed_dictionaries(dict((c, st.fixed_dictionaries(dict((h, hook) for h in H.HOOKS))) for c in H.CLASSES))
    return st.fixed_dictionaries({'hooks': hooks, 'budget': st.sampled_from([0, 1, 2, 2, 3, 4, 6]), 'sessions': sessions})


def chain_case_strategy(tier):
    """histories built around obj.flush() of an object whose unsaved principals form a chain / tree / diamond:
    [optional committed session] + session = 2..5 new P (most of them referring to an earlier one through P.up),
    0..2 new K hanging on the newest P's (optionally with an alt: second branch), obj.flush() of one of the newest
    objects, then a short random tail.  Hook tables: one before-body and one after-body for all levels, or random per level."""
    from hypothesis import strategies as st
    big = tier == 'thorough'
    val = st.integers(0, 9)
    new_p = st.builds(lambda j, v, w, f: O('new_p', j=j, v=v, w=w, f=f), st.sampled_from([-1, -1, -1, -2, 0, 1]), val,
                      st.one_of(st.none(), val), st.sampled_from([True, True, True, False]))
    new_k = st.builds(lambda i, j, v, f, sub: O('new_k', i=i, j=j, v=v, f=f, attr='c' if sub else 'a'),
                      st.sampled_from([-1, -1, -2]), st.sampled_from([-1, -2, -3, 0]), val, st.booleans(), st.booleans())
    rewire = st.one_of(st.builds(lambda i, j: O('move', i=i, j=j), st.integers(-1, 2), st.sampled_from([-1, -2])),
                       st.builds(lambda i, j: O('alt', i=i, j=j), st.integers(-1, 2), st.sampled_from([-1, -2])),
                       st.builds(lambda i, j: O('up', i=i, j=j), st.sampled_from([-1, -2]), st.integers(-2, 2)))
    oflush = st.builds(lambda i, attr: O('oflush', i=i, attr=attr), st.sampled_from([-1, -1, -2, 0]), st.sampled_from(['c', 'c', 'b', 'a']))
    tail_op = st.fixed_dictionaries({
        'k': st.sampled_from(['set', 'set', 'oflush', 'oflush', 'flush', 'new_p', 'new_k', 'del', 'query', 'commit', 'up', 'move', 'jedit']),
        'i': st.integers(-2, 5), 'j': st.integers(-2, 3), 'attr': st.sampled_from(['a', 'b', 'h', 'c']), 'v': val,
        'w': st.one_of(st.none(), val), 'f': st.booleans()})
    chain = st.builds(lambda ps, ks, rw, fl, tail: ps + ks + rw + [fl] + tail,
                      st.lists(new_p, min_size=2, max_size=5), st.lists(new_k, min_size=0, max_size=2),
                      st.lists(rewire, min_size=0, max_size=1), oflush, st.lists(tail_op, min_size=0, max_size=6 if big else 4))
    end = st.sampled_from(['commit', 'commit', 'commit', 'rollback'])
    base = st.lists(st.one_of(new_p, new_k), min_size=1, max_size=3)
    sessions = st.one_of(
        st.builds(lambda ops, e: [{'ops': ops, 'end': e}], chain, end),
        st.builds(lambda b, ops, e: [{'ops': b, 'end': 'commit'}, {'ops': ops, 'end': e}], base, chain, end),
        st.builds(lambda ops, ops2, e: [{'ops': ops, 'end': 'commit'}, {'ops': ops2, 'end': e}], chain, chain, end))
    hook = st.tuples(st.sampled_from(BODY_WEIGHTED), st.integers(0, 11)).map(list)
    random_table = st.fixed_dictionaries(dict((c, st.fixed_dictionaries(dict((h, hook) for h in H.HOOKS))) for c in H.CLASSES))

    def uniform(before, after):
        return dict((c, dict([(h, before) for h in H.HOOKS[:3]] + [(h, after) for h in H.HOOKS[3:]])) for c in H.CLASSES)
    hooks = st.one_of(random_table, st.builds(uniform, hook, hook))
    return st.fixed_dictionaries({'hooks': hooks, 'budget': st.sampled_from([0, 2, 4, 6, 6, 8]), 'sessions': sessions})


# ------------------------------------------------------------------------------------------------
def classify(info, runner):
    classes = []
    eff = info['effects']
    if any(t == 'B' for t, k, d in eff): classes.append('before_effect')
    if any(t == 'A' for t, k, d in eff): classes.append('after_effect')
    if any(t == 'B' and d.startswith('create') for t, k, d in eff): classes.append('before_create')
    if any(t == 'B' and d.startswith('mod') for t, k, d in eff): classes.append('before_write')
    if any(t == 'A' and d.startswith('create') for t, k, d in eff): classes.append('after_create')
    if any(t == 'A' and d.startswith('mod') for t, k, d in eff): classes.append('after_write')
    if info['twice_in_session']: classes.append('twice_in_session')
    if info['nested_flush']: classes.append('flush_inside_after_hook')
    if info['statements'] == 0: classes.append('no_statement')
    classes.extend(sorted(runner.stats))
    return classes


def evaluate(ctx, case, origin):
    violations, info, runner = H.run_case(case, ctx.workdir)
    classes = [origin] + classify(info, runner)
    nontrivial = bool(info['effects']) or info['twice_in_session'] or info['nested_flush']
    sample = None
    if nontrivial:
        sample = {'origin': case.get('origin', origin), 'sessions': [len(s['ops']) for s in case['sessions']],
                  'hook_calls': info['hooks'], 'statements': info['statements'], 'trace_head': info['trace'][:24]}
    ctx.case(key='|'.join(info['trace']), nontrivial=nontrivial, classes=classes, sample=sample)
    if info['rejected'] or 'before_delete_read_refused' in runner.stats:
        ctx.rejected += 1
    ctx.count('hook_calls', info['hooks'])
    ctx.count('entity_statements', info['statements'])
    for msg in violations:
        ctx.fail(case, msg)      # returns (and the loop goes on) when the message falls under an open known finding


def run(ctx):
    for k, case in grid_cases(ctx.tier):
        if k % ctx.nshards != ctx.shard:
            continue
        ctx.check_time()
        evaluate(ctx, case, 'grid')

    def t(case):
        evaluate(ctx, case, 'random')
    ctx.run_test(t, {'case': case_strategy(ctx.tier)}, max_examples=ctx.scale(300, 1500), name='random_histories')
    if ctx.violation is not None:
        return

    def tc(case):
        evaluate(ctx, case, 'chains')
    ctx.run_test(tc, {'case': chain_case_strategy(ctx.tier)}, max_examples=ctx.scale(150, 900), name='chain_histories')


def replay(case):
    home = os.environ.get('VERIF_HOME') or os.path.dirname(os.path.dirname(os.path.abspath(__file__)))
    workdir = os.path.join(home, '.work', 'replay%d' % os.getpid())
    os.makedirs(workdir, exist_ok=True)
    try:
        violations, info, runner = H.run_case(case, workdir)
    finally:
        shutil.rmtree(workdir, ignore_errors=True)
        try: os.rmdir(os.path.join(home, '.work'))
        except OSError: pass
    return violations[0] if violations else None


# ------------------------------------------------------------------------------------------------
_PRINCIPAL_RE = re.compile(r'^\[before_missing\] kind=insert obj=(P:\d+) during=oflush\((K:\d+)\)')


def _is_obj_flush_principal(case, message):
    """open finding C33-obj-flush-principal-no-before-insert: obj.flush() (Entity.flush) of an object whose to-one
    attribute refers to a not yet inserted object inserts that principal through _save_principal_objects_ ->
    principal._save_() without ever calling principal._before_save_(): the principal's INSERT has no before_insert
    (after_insert is called).  Only that shape is excluded: a missing before_insert of a P during the obj.flush() of a K."""
    return bool(_PRINCIPAL_RE.match(message))


EXCLUSIONS = {'obj_flush_principal_no_before_insert': _is_obj_flush_principal}

MANIFEST = {
    'text': 'Entities P/K(+subclass K2)/T with all six hooks log every hook call into the same ordered log as every SQL statement '
            '(sqlite3 Connection/Cursor subclasses via bind(factory=)). Hook bodies (nothing, read, read collections, modify self, '
            'modify another object, create an object, edit a tracked Json/array value in place) and multi-session histories (creates, repeated/same-value updates, '
            'relationship and m2m changes, deletes incl. unflushed and cascade, flush(), obj.flush(), auto-flush queries, commit, '
            'rollback) are data. A complete grid of single hook assignments (thorough: before x after pairs) and same-body-on-every-level tables over 14 fixed '
            'histories is enumerated, then hypothesis samples random hook tables and histories. Oracle from the log only: every '
            'entity-table statement has exactly one matching before-hook since the object\'s previous statement and one matching '
            'after-hook before the operation returns, no hook without a statement, and the tables (plain sqlite3) equal a '
            'reference model of all program and hook writes after every flush and commit.',
    'note': 'Sampling beyond the grid; relative order of hooks of different objects is not asserted; histories are valid '
            '(no constraint failures, no exceptions in hooks), hooks never delete objects, one Database, SQLite only. '
            'After obj.flush() the hook/statement pairing and the rows of the objects written by the call (flushed object and '
            'its unsaved principals at any depth) are checked (objects its hooks create or modify otherwise are verified at '
            'the next full flush/commit). Changes made by after_* hooks are only required '
            'to be saved by a later operation. before_delete hooks that read meet a Pony read refusal for values not in '
            'memory; such reads are counted as rejected.',
    'technique': 'bounded-exhaustive hook grid + hypothesis random histories; statement/hook log oracle + sqlite3 read-back against a reference model',
}
