"""C35 Locked rows and serializable sessions cannot be overwritten concurrently.

SQLite, live: a locking session (get_for_update / select().for_update() with nowait / skip_locked variants, or
db_session(serializable=True)) races with optimistic, optimistic=False and other locking sessions on the same 1-2 rows, one
thread per session under the deterministic scheduler vlib/sched.py; the committed rows are read through a raw connection after
every step.  PostgreSQL, text only: the real PGProvider (stub driver, recording mock pool) must emit FOR UPDATE / NOWAIT /
SKIP LOCKED exactly as requested, after autocommit has been switched off.  See vlib/c35_lib.py.
"""
from vlib import c35_lib

ID = 'C35'
LEVEL = 'exploration'
RULE = ('SQLite part: a case = initial values of 1-2 rows + 2-3 session scripts (session options default / immediate / '
        'serializable / optimistic=False; ops: 8 kinds of locking lookup, plain fetch, read attribute into a register, write '
        'attribute := register read from the same row in the same transaction + constant, or constant; flush; commit() in the '
        'middle of the db_session; leaving and re-entering db_session on the same Database; creating a new row; end '
        'commit/rollback; five '
        'generators: free scripts, lock-read-rewrite against an early-reading writer, and two-transaction lockers that lock / '
        'read / rewrite the same row again after their intermediate commit while another session changes it, and sessions that '
        'lock one row (or create an object) and rewrite ANOTHER row they read without lock while it is changed concurrently, and '
        'sessions that catch "database is locked" from a lookup / flush and retry in the same db_session) + a schedule (one '
        'choice among runnable actors per operation) + a layout (Database per actor: lock conflicts fail with "database is '
        'locked"; one shared Database: lock conflicts wait on the provider lock). Oracle: (1) from the step in which a session '
        'locked a row (or, serializable, first touched it) until that TRANSACTION ends (commit, rollback, failure), no step of '
        'another session changes the committed row; only successful commits change the database; (2) the final database equals the result of SOME serial '
        'order of the committed transactions (all orders that keep each actor\'s own order, reference interpreter over the '
        'effective reads/writes); (3) no '
        'deadlock: a blocked session becomes runnable once the others have finished; a locking lookup never dies of an internal '
        'error. Non-trivial = a row was protected by one session while another live session wrote it; distinct by case hash. '
        'PostgreSQL part: complete grid of 10 query shapes x lock/no lock x nowait x skip_locked x 4 session kinds; each case '
        'checks the emitted SQL text and the autocommit state at that moment.')
ASSUMPTIONS = ['SQLite live (file database, timeout=0); PostgreSQL only as SQL text produced by the real provider over stub '
               'psycopg2 modules and a mock connection (no server)',
               'sessions are interleaved at operation granularity by vlib/sched.py: one thread per session, one runnable at a time',
               'a plain sqlite3 connection in autocommit mode sees exactly the committed state',
               'serial executions are computed by a 20-line reference interpreter of read/write effects (vlib/c35_lib.serial_results)']
SHARDS = {'quick': 4, 'thorough': 16}
MIN_EVALS = {'quick': 3000, 'thorough': 20000}
CLASS_FLOORS = {'contended': 0.12, 'two_committed': 0.15, 'for_update': 0.35}


def _stale_cache_after_commit(case, message):
    """open finding C35-nonoptimistic-session-stale-after-commit: a serializable (or optimistic=False) session that goes on
    after commit() in the middle of the db_session keeps its cached rows; reading them opens no transaction (another session
    can change the row although the serializable session has 'read' it) and a later write is sent without any optimistic
    check (non-optimistic sessions rely on the database transaction that ended at the commit), so the other session's
    committed update is lost.  Needs such an actor with at least one operation after its mid-session commit()."""
    culprits = []
    for j, a in enumerate(case.get('actors', [])):
        sess = a.get('session', {})
        if not (sess.get('serializable') or sess.get('optimistic') is False):
            continue
        names = [op[0] for op in a['ops']]
        if 'commit' in names and names.index('commit') < len(names) - 1:
            culprits.append(j)
    if not culprits:
        return False
    if message.startswith('E['):
        import re
        m = re.search(r'read in a serializable session by session (\d+)', message)
        return bool(m) and int(m.group(1)) in culprits
    return message.startswith('the final database')


EXCLUSIONS = {'nonoptimistic_stale_after_commit': _stale_cache_after_commit}

MANIFEST = {
    'text': 'Generated interleavings (operation granularity, deterministic scheduler) of a locking or serializable session with '
            'optimistic, optimistic=False and other locking writers on 1-2 shared rows of a SQLite file: a row locked with '
            'get_for_update()/for_update() (nowait / skip_locked variants) or touched by a serializable session never changes '
            'under that session, only successful commits change the database, the final rows equal some serial order of the '
            'committed sessions, and nobody stays blocked. For PostgreSQL the complete grid of locking-query shapes and flags is '
            'checked as SQL text (FOR UPDATE / NOWAIT / SKIP LOCKED present exactly as requested, autocommit off before it).',
    'note': 'Row locks are only observable on SQLite, where they are database-wide (BEGIN IMMEDIATE); PostgreSQL behaviour is '
            'covered as emitted SQL text over a stub driver, not executed. Bounded scripts (<= 3 sessions x 7 operations, 2 rows); '
            'trusts the scheduler, sqlite3 autocommit reads and the small reference interpreter; cannot establish absence.',
    'technique': 'property-based testing of generated schedules with a deterministic one-runnable-thread scheduler, serial-order '
                 'reference interpreter, and bounded-exhaustive SQL-text grid for PostgreSQL',
}

SESSIONS = [{}, {'immediate': True}, {'serializable': True}, {'optimistic': False}]


def _strategies():
    from hypothesis import strategies as st
    obj = st.sampled_from([0, 0, 1])
    attr = st.integers(0, 2)
    reg = st.integers(0, 2)
    const = st.integers(1, 30)
    lock = st.tuples(st.just('lock'), obj, st.integers(0, len(c35_lib.LOCK_HOWS) - 1)).map(list)
    read = st.tuples(st.just('read'), obj, attr, reg).map(list)
    write = st.tuples(st.just('write'), obj, attr, st.integers(0, 3), const).map(list)
    fetch = st.tuples(st.just('fetch'), obj).map(list)
    flush = st.just(['flush'])
    body = st.one_of(read, read, read, write, write, write, fetch, flush, lock, read, write, st.sampled_from([['commit'], ['restart']]),
                     st.sampled_from([['create'], ['flush']]))
    rows = st.lists(st.lists(st.integers(0, 9), min_size=3, max_size=3), min_size=1, max_size=2)
    layout = st.sampled_from(['multi', 'multi', 'shared'])
    schedule = st.lists(st.integers(0, 2), min_size=12, max_size=30)
    end = st.sampled_from(['commit'] * 7 + ['rollback'])
    return st, lock, read, write, body, rows, layout, schedule, end


def case_strategy():
    st, lock, read, write, body, rows, layout, schedule, end = _strategies()

    @st.composite
    def build(draw):
        kind = draw(st.sampled_from(['for_update', 'for_update', 'for_update', 'serializable', 'immediate_for_update']))
        if kind == 'serializable':
            locker = {'session': {'serializable': True}, 'ops': draw(st.lists(body, min_size=2, max_size=6)), 'end': draw(end)}
        else:
            pre = draw(st.lists(st.one_of(read, read, write), max_size=1))
            locker = {'session': {'immediate': True} if kind == 'immediate_for_update' else {},
                      'ops': pre + [draw(lock)] + draw(st.lists(body, min_size=1, max_size=5)), 'end': draw(end)}
        actors = [locker]
        for _ in range(draw(st.integers(1, 2))):
            sess = draw(st.sampled_from([{}, {}, {}, {'optimistic': False}, {'optimistic': False}, {'serializable': True},
                                         {'immediate': True}]))
            actors.append({'session': sess, 'ops': draw(st.lists(body, min_size=2, max_size=6)), 'end': draw(end),
                           'catch_lock': draw(st.booleans())})
        return _cap_commits({'layout': draw(layout), 'rows': draw(rows), 'actors': actors, 'schedule': draw(schedule)})
    return build()


def race_strategy():
    """the locker locks a row, reads and rewrites it; a writer reads the same attribute early and rewrites it late"""
    st, lock, read, write, body, rows, layout, schedule, end = _strategies()

    @st.composite
    def build(draw):
        o = draw(st.sampled_from([0, 0, 1]))
        a = draw(st.integers(0, 2))
        lk = ['lock', o, draw(st.integers(0, len(c35_lib.LOCK_HOWS) - 1))]
        serial = draw(st.integers(0, 4)) == 0
        l_ops = ([] if serial else [lk]) + [['read', o, a, 0], ['write', o, a, 0, draw(st.integers(1, 30))]] + draw(st.lists(body, max_size=2))
        locker = {'session': {'serializable': True} if serial else draw(st.sampled_from([{}, {}, {'immediate': True}])),
                  'ops': l_ops, 'end': 'commit'}
        wsess = draw(st.sampled_from([{}, {}, {}, {'optimistic': False}]))
        w_kind = draw(st.sampled_from(['rmw', 'rmw', 'blind', 'other_attr', 'lock_rmw']))
        if w_kind == 'rmw':
            w_ops = [['read', o, a, 1], ['write', o, a, 1, draw(st.integers(1, 30))]]
        elif w_kind == 'blind':
            w_ops = [['write', o, a, 3, draw(st.integers(1, 30))]]
        elif w_kind == 'other_attr':
            w_ops = [['read', o, a, 1], ['write', o, (a + 1) % 3, 1, draw(st.integers(1, 30))]]
        else:
            w_ops = [['lock', o, draw(st.integers(0, 7))], ['read', o, a, 1], ['write', o, a, 1, draw(st.integers(1, 30))]]
        cut = draw(st.integers(0, len(w_ops)))
        w_ops = w_ops[:cut] + draw(st.lists(body, max_size=1)) + w_ops[cut:]
        writer = {'session': wsess, 'ops': w_ops, 'end': 'commit'}
        actors = [locker, writer]
        # writer starts (k steps), the locker runs up to some point, the writer continues, ...
        k1 = draw(st.integers(0, len(w_ops)))
        k2 = draw(st.integers(0, len(l_ops) + 1))
        sch = [1] * k1 + [0] * k2 + [1] * (len(w_ops) + 1 - k1) + [0] * (len(l_ops) + 1)
        if draw(st.integers(0, 3)) == 0:
            actors.append({'session': draw(st.sampled_from([{}, {'optimistic': False}])),
                           'ops': draw(st.lists(body, min_size=1, max_size=4)), 'end': draw(end)})
            for pos in draw(st.lists(st.integers(0, len(sch)), max_size=5)):
                sch.insert(pos, 2)
        for pos, val in draw(st.lists(st.tuples(st.integers(0, len(sch) - 1), st.integers(0, 2)), max_size=3)):
            sch[pos] = val
        if draw(st.integers(0, 4)) == 0:
            sch = draw(schedule)
        return _cap_commits({'layout': draw(layout), 'rows': draw(rows), 'actors': actors, 'schedule': sch})
    return build()


def _cap_commits(case):
    """at most two intermediate commits per actor (bounds the number of serial orders the oracle enumerates)"""
    for a in case['actors']:
        seen, ops = 0, []
        for op in a['ops']:
            if op[0] in ('commit', 'restart'):
                seen += 1
                if seen > 2:
                    continue
            ops.append(op)
        a['ops'] = ops or [['fetch', 0]]
    return case


def relock_strategy():
    """a locking session works on a row in two transactions (commit() mid-session, or leaving and re-entering db_session),
    locking / reading / rewriting the row again in the second one, while another session changes the same row in between"""
    st, lock, read, write, body, rows, layout, schedule, end = _strategies()

    @st.composite
    def build(draw):
        o = draw(st.sampled_from([0, 0, 1]))
        a = draw(st.integers(0, 2))
        nhow = len(c35_lib.LOCK_HOWS)
        sep = [draw(st.sampled_from(['commit', 'commit', 'restart']))]
        first = [['lock', o, draw(st.integers(0, nhow - 1))]] + draw(st.sampled_from([
            [['read', o, a, 0], ['write', o, a, 0, draw(st.integers(1, 30))]], [['read', o, a, 0]], []]))
        second = draw(st.sampled_from([[['lock', o, draw(st.integers(0, nhow - 1))]], [['lock', o, draw(st.integers(0, nhow - 1))]], []])) \
            + [['read', o, a, 0], ['write', o, a, 0, draw(st.integers(1, 30))]]
        l_ops = first + [sep] + second
        locker = {'session': draw(st.sampled_from([{}, {}, {'immediate': True}])), 'ops': l_ops, 'end': 'commit'}
        w_ops = draw(st.sampled_from([[], [['lock', o, draw(st.integers(0, nhow - 1))]]])) \
            + [['read', o, a, 1], ['write', o, a, 1, draw(st.integers(1, 30))]]
        writer = {'session': draw(st.sampled_from([{}, {}, {'optimistic': False}])), 'ops': w_ops, 'end': 'commit'}
        actors = [locker, writer]
        k = len(first) + 1
        sch = [0] * k + [1] * (len(w_ops) + 1) + [0] * (len(second) + 1)
        if draw(st.integers(0, 3)) == 0:
            actors.append({'session': draw(st.sampled_from([{}, {'optimistic': False}])),
                           'ops': draw(st.lists(body, min_size=1, max_size=3)), 'end': draw(end)})
            for pos in draw(st.lists(st.integers(0, len(sch)), max_size=4)):
                sch.insert(pos, 2)
        for pos, val in draw(st.lists(st.tuples(st.integers(0, len(sch) - 1), st.integers(0, 2)), max_size=2)):
            sch[pos] = val
        return _cap_commits({'layout': draw(layout), 'rows': draw(rows), 'actors': actors, 'schedule': sch})
    return build()


def otherrow_strategy():
    """a session reads row R2 without locking it, locks a DIFFERENT row R1 (or creates an object) and rewrites R2 from what it
    read, while another session changes R2 and commits somewhere in between: holding a lock on one row must not switch off
    the protection of the session's other rows"""
    st, lock, read, write, body, rows, layout, schedule, end = _strategies()

    @st.composite
    def build(draw):
        r2 = draw(st.integers(0, 1))
        r1 = 1 - r2
        a = draw(st.integers(0, 2))
        nhow = len(c35_lib.LOCK_HOWS)
        take = draw(st.sampled_from([[['lock', r1, draw(st.integers(0, nhow - 1))]], [['lock', r1, draw(st.integers(0, nhow - 1))]],
                                     [['create']], [['create'], ['flush']]]))
        early = draw(st.booleans())                  # lock before or after reading R2
        rd = [['read', r2, a, 0]] + draw(st.sampled_from([[], [['read', r2, (a + 1) % 3, 1]]]))
        wr = [['write', r2, draw(st.sampled_from([a, a, (a + 1) % 3])), 0, draw(st.integers(1, 30))]]
        extra = draw(st.sampled_from([[], [['read', r1, a, 2], ['write', r1, a, 2, draw(st.integers(1, 30))]]]))
        head = (take + rd) if early else rd
        tail = ([] if early else take) + extra + wr
        s_ops = head + tail
        locker = {'session': draw(st.sampled_from([{}, {}, {'immediate': True}])) if not early else {}, 'ops': s_ops, 'end': 'commit'}
        t_ops = [['read', r2, a, 1], ['write', r2, a, 1, draw(st.integers(1, 30))]]
        writer = {'session': draw(st.sampled_from([{}, {}, {'optimistic': False}])), 'ops': t_ops, 'end': 'commit'}
        actors = [locker, writer]
        sch = [0] * len(head) + [1] * (len(t_ops) + 1) + [0] * (len(tail) + 1)
        if draw(st.integers(0, 3)) == 0:
            actors.append({'session': {}, 'ops': draw(st.lists(body, min_size=1, max_size=3)), 'end': draw(end)})
            for pos in draw(st.lists(st.integers(0, len(sch)), max_size=4)):
                sch.insert(pos, 2)
        for pos, val in draw(st.lists(st.tuples(st.integers(0, len(sch) - 1), st.integers(0, 2)), max_size=2)):
            sch[pos] = val
        two_rows = [draw(st.lists(st.integers(0, 9), min_size=3, max_size=3)) for _ in range(2)]
        return _cap_commits({'layout': draw(layout), 'rows': two_rows, 'actors': actors, 'schedule': sch})
    return build()


def retry_strategy():
    """a session that already has an open connection (it read something optimistically) asks for a lock / flushes while a
    rival session of another Database object holds the write lock: 'database is locked'; the session catches the error and
    retries in the SAME db_session, before or after the rival committed its change of the same row"""
    st, lock, read, write, body, rows, layout, schedule, end = _strategies()

    @st.composite
    def build(draw):
        o = draw(st.sampled_from([0, 0, 1]))
        a = draw(st.integers(0, 2))
        nhow = len(c35_lib.LOCK_HOWS)
        lk = lambda: ['lock', o, draw(st.integers(0, nhow - 1))]
        first = draw(st.sampled_from([[['read', o, a, 0]], [['fetch', o]], [['read', 1 - o, a, 1]], [['read', o, (a + 1) % 3, 1]]]))
        attempt = draw(st.sampled_from([[lk()], [lk()], [['write', o, (a + 1) % 3, 3, draw(st.integers(1, 30))], ['flush']]]))
        retries = [lk() for _ in range(draw(st.integers(1, 2)))]
        work = [['read', o, a, 0], ['write', o, a, 0, draw(st.integers(1, 30))]]
        s_ops = first + attempt + retries + work
        s_actor = {'session': {}, 'ops': s_ops, 'end': 'commit', 'catch_lock': True}
        grab = draw(st.sampled_from([[['lock', o, draw(st.integers(0, nhow - 1))]], [['lock', 1 - o, 0]],
                                     [['write', o, (a + 2) % 3, 3, draw(st.integers(1, 30))], ['flush']]]))
        t_ops = grab + [['read', o, a, 1], ['write', o, a, 1, draw(st.integers(1, 30))]]
        t_actor = {'session': draw(st.sampled_from([{}, {}, {'immediate': True}, {'optimistic': False}])), 'ops': t_ops, 'end': 'commit',
                   'catch_lock': draw(st.booleans())}
        nretry_before = draw(st.integers(0, len(retries)))          # retries made while the rival still holds the lock
        sch = [0] * len(first) + [1] * len(grab) + [0] * (len(attempt) + nretry_before) + [1] * (len(t_ops) - len(grab) + 1) \
            + [0] * (len(s_ops) + 1)
        actors = [s_actor, t_actor]
        for pos, val in draw(st.lists(st.tuples(st.integers(0, len(sch) - 1), st.integers(0, 1)), max_size=2)):
            sch[pos] = val
        return _cap_commits({'layout': draw(st.sampled_from(['multi', 'multi', 'multi', 'shared'])), 'rows': draw(rows),
                             'actors': actors, 'schedule': sch})
    return build()


def pg_grid():
    cells = []
    for shape in range(len(c35_lib.PG_SHAPES)):
        for lock in (True, False):
            for nowait in (False, True):
                for skip in (False, True):
                    if not lock and (nowait or skip):
                        continue
                    for sess in SESSIONS:
                        cells.append({'kind': 'pg', 'shape': shape, 'lock': lock, 'nowait': nowait, 'skip_locked': skip,
                                      'session': sess, 'param': 1 + (shape + len(cells)) % 5})
    return cells


def run(ctx):
    # PostgreSQL SQL-text grid (complete, sharded)
    for k, cell in enumerate(pg_grid()):
        if k % ctx.nshards != ctx.shard:
            continue
        msg = c35_lib.pg_check(cell)
        ctx.case(key=cell, nontrivial=bool(cell['lock']), classes=['pg', 'pg:' + c35_lib.PG_SHAPES[cell['shape']]],
                 sample=cell if k % 37 == 5 else None)
        if msg is not None:
            ctx.fail(cell, msg)

    env = c35_lib.Env(ctx.workdir)

    def t(case):
        verdict, info = c35_lib.run_case(env, case)
        sample = None
        if verdict.nontrivial and len(ctx.samples) < 6:
            sample = {'case': case, 'history': c35_lib.fmt_trace(case, info).split('\n    ')}
        ctx.case(key=case, nontrivial=verdict.nontrivial, classes=sorted(verdict.classes) + ['layout:' + case['layout']],
                 sample=sample)
        if verdict.message is not None:
            ctx.fail(case, verdict.message)
    try:
        ctx.run_test(t, {'case': case_strategy()}, max_examples=ctx.scale(350, 800), name='schedules')
        if ctx.violation is None:
            ctx.run_test(t, {'case': race_strategy()}, max_examples=ctx.scale(350, 900), name='races')
        if ctx.violation is None:
            ctx.run_test(t, {'case': relock_strategy()}, max_examples=ctx.scale(250, 400), name='relock')
        if ctx.violation is None:
            ctx.run_test(t, {'case': otherrow_strategy()}, max_examples=ctx.scale(170, 400), name='otherrow')
        if ctx.violation is None:
            ctx.run_test(t, {'case': retry_strategy()}, max_examples=ctx.scale(150, 300), name='retry')
    finally:
        env.close()


def replay(case):
    return c35_lib.replay_case(case)
