"""C09 -- decided by the session interpreter (vlib/sessmachine.py) against the reference store (vlib/refstore.py)."""
from vlib import sesscheck

ID = 'C09'
LEVEL = 'exploration'
RULE = "A case is one generated program: an entity diagram (1-3 entities; auto/int/str/composite pks; Required/Optional/unique scalars; composite keys; o2m/o2o/m2m/symmetric relations with cascade options) plus a setup session and 1-3 further sessions of creates, assignments, set(**kw), collection add/remove/clear/assign, deletes, flush/commit/rollback, ending in commit, rollback or an exception. After every session end and every failed commit the tables and link tables are read through the raw DB-API connection and compared with the reference store's last committed snapshot. Non-trivial = at least one successful commit preceded by a delete, collection removal or assignment; distinct by program hash. A share of the programs (one third; one half for C11/C13/C15) comes from the hub family: every relationship starts at one entity, with cascading/unlinking relationships declared around a refusing one, populated, and then aimed operations (pending updates of children, pending removals on the hub collections, new children with explicit keys) precede the delete of the hub, so that deletes refused after part of their cascade are common."
ASSUMPTIONS = ['live SQLite (in-memory) with foreign keys enforced immediately',
               'reference store vlib/refstore.py written from the documented relationship/cascade/key semantics (DESIGN.md section 7a)',
               'table and column names are taken from the mapping metadata (names only)']
SHARDS = {'quick': 8, 'thorough': 16}
MIN_EVALS = {'quick': 2000, 'thorough': 5000}
PROPS = {'C09'}
WEIGHTS = {}

run = sesscheck.make_run(ID, PROPS, 700, 6000, weights=WEIGHTS,
                         nontrivial=lambda program, stats: stats.get('commits', 0) > 1 and (stats.get('op:del', 0) + stats.get('op:crem', 0) + stats.get('op:set', 0) + stats.get('op:setm', 0)) > 0)
_replay_session = sesscheck.make_replay(ID, PROPS)
_run_session = run


def run(ctx):
    _run_session(ctx)
    if ctx.violation is not None:
        return
    # write histories over keys that contain references (vlib/nested_hist.py); this check judges the 'db' category
    from vlib import nested_hist

    def th(case):
        msg = nested_hist.judge(case, 'db')
        nops = sum(len(s_['ops']) for s_ in case['sessions'])
        ctx.case(key=case, nontrivial=nops >= 4, classes=['nested_hist'], sample={'sessions': [[o[0] for o in s_['ops']] for s_ in case['sessions']]} if nops >= 6 else None)
        if msg:
            ctx.fail(case, msg)
    ctx.run_test(th, dict(case=nested_hist.cases()), max_examples=ctx.scale(200, 2000), name='C09_nested_hist')


def replay(case):
    if case.get('kind') == 'nested_hist':
        from vlib import nested_hist
        return nested_hist.judge(case, 'db')
    return _replay_session(case)

MANIFEST = {
    'text': 'Generated multi-session histories over generated diagrams, each compared table-by-table (rows, scalar values, foreign keys, link rows) with an independent in-memory reference store after every commit, rollback and failed session.',
    'note': 'SQLite only; trusts the hand-written reference store (rules and sources in DESIGN.md 7a) and hypothesis generation; '
            'explores bounded histories (<= 4 sessions x 10 calls, <= 3 entities) and cannot establish absence.',
    'technique': 'model-based property testing: generated programs interpreted against Pony and an independent reference store',
}
