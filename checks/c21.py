"""C21 Repeated reads in a session return the same value or fail loudly.

One reading session and one or two committing writer sessions (real `db_session`s, one thread each, driven by the
deterministic scheduler vlib/sched.py) run generated scripts over parents / children (one-to-many) / tags (many-to-many) in
one SQLite file.  The oracle only compares the reader's own observations with each other.  See vlib/c21_lib.py.
"""
from vlib import c21_lib

ID = 'C21'
LEVEL = 'exploration'
RULE = ('A case = initial data (3 parents, 2 second owners, 4 children with two independent to-one references, 3 tags, links) + a reader script (attribute reads, to_dict, load, own '
        'assignments of scalar attributes with flush / commit() in the middle of the db_session, len / '
        'iteration / count / in / is_empty / bool / load of collections on both sides of the many-to-many and on the one-to-many, '
        're-fetching queries with fresh parameters: whole tables, children of a parent, collection.select(), prefetch of '
        'collections and references, (object, reference) pairs, get/index, and "read again everything observed so far") + 1-2 '
        'writer scripts (scalar updates, moving a child to another parent / to None, deleting children / parents / tags, '
        'moving both references of a child in one commit, creating a child, adding / removing many-to-many links, intermediate commits) + a schedule (one choice among runnable '
        'actors per operation) + a layout (Database per actor / one shared Database); three generators: free scripts, observe / '
        'concurrent change / re-fetch / read again, and batch loads (the collection loaded on two owners, a third owner observed, '
        'concurrent change, then count()/len()/is_empty()/in). Oracle: for every (object, non-volatile '
        'attribute) and every collection that has been completely loaded and observed (len or iteration), each later read by the '
        'same session (attribute, len, iteration, and for such collections count / in / is_empty / bool) equals the first '
        'observation (an attribute the session assigned itself counts as observed with the assigned value from then on); a read may instead raise UnrepeatableReadError (or a lock error) -- in half of the cases the reader catches that error per operation and keeps using the session, and everything above still holds afterwards; an internal error (AssertionError, '
        'KeyError, ...) from inside Pony is a violation; the two ends of the one-to-many relationship shown to the session agree '
        '(child in parent.kids by iteration / in  <=>  child.p is that parent, unless the child row was deleted meanwhile). Non-trivial = the committed value behind an observed key changed after '
        'its first observation and the reader read it again afterwards or was stopped by UnrepeatableReadError; distinct by case hash.')
ASSUMPTIONS = ['SQLite only (file database, timeout=0)',
               'sessions are interleaved at operation granularity by vlib/sched.py: one thread per session, one runnable at a time',
               'a collection counts as completely loaded once len() or iteration has returned (documented behaviour of Set)',
               'the committed state read through a plain sqlite3 connection is used only to measure non-triviality']
SHARDS = {'quick': 4, 'thorough': 16}
MIN_EVALS = {'quick': 3000, 'thorough': 20000}
CLASS_FLOORS = {'reread_after_change': 0.10, 'unrepeatable': 0.05, 'coll_observed': 0.30}


def _is_o2m_shrink(case, message):
    """open finding C21-o2m-collection-shrinks: a completely loaded one-to-many collection silently loses an item when a
    re-fetched child row shows that another session moved the child away (Set.db_reverse_remove has no phantom check,
    unlike db_reverse_add); only len()/count()/is_empty()/bool()/in observations are affected (iteration marks the
    children's reference as read, so the re-fetch raises)."""
    return message.startswith('[o2m-collection-shrank]')


def _is_m2m_prefetch_growth(case, message):
    """open finding C21-m2m-prefetch-adds-phantoms: Query.prefetch() of a many-to-many collection that the session has already
    loaded completely (Set.prefetch_load_all, many-to-many branch) merges link rows committed meanwhile into it without raising
    'Phantom object appeared' (Set.load and db_reverse_add do raise); needs a prefetch of that collection in the reader."""
    if not message.startswith('[m2m-collection-grew]'):
        return False
    kinds = [c21_lib.QUERY_KINDS[op[1] % len(c21_lib.QUERY_KINDS)] for op in case['actors'][0]['ops'] if op[0] == 'query']
    return 'prefetch_tags' in kinds or 'prefetch_ps' in kinds


def _is_refused_row_half_applied_second_reference(case, message):
    """open finding C21-refused-row-half-applied-second-reference: a reloaded child row whose SECOND reference is refused
    (phantom in a completely loaded collection of the second owner, UnrepeatableReadError caught by the application) has its
    FIRST reference already applied to the reverse collections: child.p keeps the old parent while the old parent's collection
    has lost the child.  Only: both ends disagree (child.p / `child in owner.kids` against iteration), after a caught UnrepeatableReadError, in a case where one writer commit moves
    both references of a child."""
    first_line = message.split('\n')[0]
    ends = message.startswith('[relationship-ends-disagree]') or \
        (message.startswith('[o2m-collection-') and ' in it) is ' in first_line)    # `child in owner.kids` answers from child.p
    if not ends or 'CAUGHT UnrepeatableReadError' not in message:
        return False
    if not case['actors'][0].get('catch'):
        return False
    return any(op[0] == 'move2' for a in case['actors'][1:] for op in a['ops'])


EXCLUSIONS = {'o2m_collection_shrinks': _is_o2m_shrink, 'm2m_prefetch_adds_phantoms': _is_m2m_prefetch_growth,
              'refused_row_half_applied_second_reference': _is_refused_row_half_applied_second_reference}

MANIFEST = {
    'text': 'Generated interleavings (operation granularity, deterministic scheduler) of one reading session with 1-2 committing '
            'writer sessions (updates, child moves, deletes, many-to-many link changes) on a SQLite file; every value the reader '
            'observes (attributes, completely loaded collections via len/iteration, then count/in/is_empty) is compared with its '
            'first observation of the same thing; a later read may only return the same value or raise UnrepeatableReadError.',
    'note': 'SQLite only; bounded scripts (reader <= 9 operations, writers <= 5, 3 parents / 5 children / 3 tags); the oracle is '
            'self-consistency of the reader, so it trusts only the scheduler and hypothesis generation; cannot establish absence.',
    'technique': 'property-based testing of generated schedules with a deterministic one-runnable-thread scheduler',
}


def _strategies():
    from hypothesis import strategies as st
    c = st.integers(0, 13)
    rop = st.sampled_from(c21_lib.READER_OPS).flatmap(lambda k: st.tuples(st.just(k), c, c, c)).map(list)
    wop = st.sampled_from(c21_lib.WRITER_OPS).flatmap(lambda k: st.tuples(st.just(k), c, c, c)).map(list)
    data = st.fixed_dictionaries({'kids': st.lists(st.integers(0, 5), min_size=4, max_size=4),
                                  'links': st.lists(st.integers(0, 7), min_size=3, max_size=3),
                                  'vals': st.lists(st.integers(0, 3), min_size=19, max_size=19)})
    layout = st.sampled_from(['multi', 'multi', 'shared'])
    schedule = st.lists(st.integers(0, 2), min_size=12, max_size=30)
    return st, c, rop, wop, data, layout, schedule


def case_strategy():
    st, c, rop, wop, data, layout, schedule = _strategies()
    reader = st.fixed_dictionaries({'session': st.just({}), 'ops': st.lists(rop, min_size=3, max_size=9), 'end': st.just('commit'),
                                    'catch': st.booleans()})
    writer = st.fixed_dictionaries({'session': st.just({}), 'ops': st.lists(wop, min_size=1, max_size=5), 'end': st.just('commit')})
    return st.builds(lambda lay, d, r, ws, sch: {'layout': lay, 'data': d, 'actors': [r] + ws, 'schedule': sch},
                     layout, data, reader, st.lists(writer, min_size=1, max_size=2), schedule)


def race_strategy():
    """reader observes something, a writer commits a change to it, the reader re-fetches rows and reads again"""
    st, c, rop, wop, data, layout, schedule = _strategies()
    rfill = st.lists(rop, max_size=2)
    wfill = st.lists(wop, max_size=1)

    @st.composite
    def build(draw):
        target = draw(st.sampled_from(['kids', 'kids', 'kids', 'tags', 'ps', 'pattr', 'kattr', 'kp', 'kp', 'kp', 'tattr']))
        a, b = draw(c), draw(c)
        if target in ('kids', 'tags', 'ps'):
            ci = {'kids': 0, 'tags': 1, 'ps': 2}[target]
            how = draw(st.sampled_from(['len', 'len', 'iter', 'iter', 'count', 'in', 'empty', 'cload']))
            obs = [[how, ci, a, b]]
            if how in ('count', 'in', 'empty', 'cload'):
                obs = [[draw(st.sampled_from(['len', 'iter'])), ci, a, b]] + obs
            if target == 'kids':
                here = [0, 1, 3][a % 3]                      # index of the observed parent in the writer's parent table
                change = draw(st.sampled_from([['move', b, (here + 1) % 4, 0], ['move', b, here, 0], ['move', b, 2, 0],
                                               ['delk', b, 0, 0], ['newk', 0, here, 0], ['delp', a, 0, 0]]))
            elif target == 'tags':
                change = draw(st.sampled_from([['tag', a, b, 0], ['untag', a, b, 0], ['delt', b, 0, 0], ['delp', a, 0, 0]]))
            else:
                change = draw(st.sampled_from([['tag', b, a, 0], ['untag', b, a, 0], ['delp', b, 0, 0], ['delt', a, 0, 0]]))
        elif target == 'pattr':
            obs = [draw(st.sampled_from([['attr', 0, a, b], ['todict', 0, a, 0]]))]
            change = ['setp', a, b, draw(c)]
        elif target == 'kattr':
            ai = draw(st.sampled_from([1, 2]))
            obs = [draw(st.sampled_from([['attr', 1, a, ai], ['todict', 1, a, 0]]))]
            change = ['setk', a, ai % 2, draw(c)]        # attr index 1 -> n (odd), 2 -> s (even)
        elif target == 'kp':
            a = a % 4                               # reader (pk list of 5) and writer (first 4 children) address the same child
            obs = [['attr', 1, a, 0]]
            change = draw(st.sampled_from([['move', a, b, 0], ['move', a, b, 0], ['delk', a, 0, 0]]))
            orphan = draw(st.booleans())            # the observed reference is None to begin with
        else:
            obs = [['attr', 2, a, 0]]
            change = draw(st.sampled_from([['sett', a, 0, draw(c)], ['delt', a, 0, 0]]))
        refetch = draw(st.lists(st.tuples(st.just('query'), c, c, c).map(list), min_size=1, max_size=3))
        pre = draw(rfill)
        # obtaining the observed object again (identity-map lookups, queries filtering on another attribute)
        ent_of = {'kids': 'P', 'tags': 'P', 'ps': 'T', 'pattr': 'P', 'kattr': 'K', 'kp': 'K', 'tattr': 'T'}[target]
        kinds = [c21_lib.QUERY_KINDS.index(k) for k in c21_lib.LOOKUP_KINDS[ent_of]]
        again = draw(st.lists(st.tuples(st.just('query'), st.sampled_from(kinds), st.just(a), c).map(list), max_size=2))
        obs = obs + again
        refetch = draw(st.lists(st.tuples(st.just('query'), st.sampled_from(kinds), st.just(a), c).map(list), max_size=1)) + refetch
        reader_ops = pre + obs + draw(rfill) + refetch + [['reread', 0, 0, 0]] + draw(rfill)
        writer_ops = draw(wfill) + [change] + draw(wfill)
        actors = [{'session': {}, 'ops': reader_ops + [['reread', 0, 0, 0]], 'end': 'commit',
                   'catch': draw(st.sampled_from([True, True, True, False]))}, {'session': {}, 'ops': writer_ops, 'end': 'commit'}]
        sch = [0] * (len(pre) + len(obs)) + [1] * (len(writer_ops) + 1) + [0] * (len(reader_ops) + 1)
        if draw(st.integers(0, 3)) == 0:
            actors.append({'session': {}, 'ops': draw(st.lists(wop, min_size=1, max_size=4)), 'end': 'commit'})
            for pos in draw(st.lists(st.integers(0, len(sch)), max_size=5)):
                sch.insert(pos, 2)
        for pos, val in draw(st.lists(st.tuples(st.integers(0, len(sch) - 1), st.integers(0, 2)), max_size=3)):
            sch[pos] = val
        if draw(st.integers(0, 5)) == 0:
            sch = draw(schedule)
        d = draw(data)
        if target == 'kp' and orphan and a % 5 < 4:
            d['kids'] = list(d['kids'])
            d['kids'][a % 5] = 3                    # parent choice 3 = no parent (NULL)
            if change[0] == 'move' and change[2] % 4 == 2:
                change[2] += 1                      # ... and the writer gives it one
        return {'layout': draw(layout), 'data': d, 'actors': actors, 'schedule': sch}
    return build()


def batch_strategy():
    """several owners in the cache, the same collection attribute loaded on two of them (the second load batch-loads the
    others), a third owner's collection observed through len()/iteration, a writer changes that collection and commits,
    then the reader asks count() / len() / is_empty() / in again"""
    st, c, rop, wop, data, layout, schedule = _strategies()

    @st.composite
    def build(draw):
        ci = draw(st.integers(0, 2))                    # P.kids, P.tags, T.ps
        ent = c21_lib.COLLS[ci][0]
        owners = draw(st.permutations([0, 1, 2]))
        x, y, z = owners
        intro = draw(st.sampled_from([[['query', 1 if ent == 'P' else 2, 0, 0]],
                                      [['attr', 0 if ent == 'P' else 2, o, 0] for o in (x, y, z)]]))
        loads = [[draw(st.sampled_from(['len', 'iter', 'cload', 'in'])), ci, x, draw(c)],
                 [draw(st.sampled_from(['len', 'iter', 'cload'])), ci, y, draw(c)]]
        observe = [[draw(st.sampled_from(['len', 'iter'])), ci, z, 0]]
        b = draw(c)
        if ci == 0:
            here = [0, 1, 3][z]
            change = draw(st.sampled_from([['newk', 0, here, b], ['move', b, here, 0], ['move', b, (here + 1) % 4, 0],
                                           ['delk', b, 0, 0]]))
        elif ci == 1:
            change = draw(st.sampled_from([['tag', z, b, 0], ['untag', z, b, 0]]))
        else:
            change = draw(st.sampled_from([['tag', b, z, 0], ['untag', b, z, 0]]))
        after = draw(st.lists(st.sampled_from([['count', ci, z, 0], ['count', ci, z, 0], ['len', ci, z, 0], ['empty', ci, z, 0],
                                               ['in', ci, z, b], ['reread', 0, 0, 0], ['count', ci, x, 0]]),
                              min_size=1, max_size=3))
        reader_ops = intro + loads + observe + after
        writer_ops = [change] + draw(st.lists(wop, max_size=1))
        k = len(intro) + len(loads) + len(observe)
        sch = [0] * k + [1] * (len(writer_ops) + 1) + [0] * (len(after) + 1)
        for pos, val in draw(st.lists(st.tuples(st.integers(0, len(sch) - 1), st.integers(0, 1)), max_size=2)):
            sch[pos] = val
        return {'layout': draw(layout), 'data': draw(data),
                'actors': [{'session': {}, 'ops': reader_ops, 'end': 'commit', 'catch': draw(st.booleans())},
                           {'session': {}, 'ops': writer_ops, 'end': 'commit'}],
                'schedule': sch}
    return build()


def writeback_strategy():
    """the reading session assigns an attribute itself (optionally after / before reading it, optionally reading it back while
    dirty), flushes or commits in the middle of the db_session and goes on; another session commits a different value for the
    same attribute; the first session re-fetches rows and reads the attribute again"""
    st, c, rop, wop, data, layout, schedule = _strategies()
    rfill = st.lists(rop, max_size=1)

    @st.composite
    def build(draw):
        enti = draw(st.integers(0, 2))                       # P, K, T
        ent = ['P', 'K', 'T'][enti]
        pki = draw(st.integers(0, 2))
        attrs = c21_lib.WRITABLE[ent]
        ai = draw(st.integers(0, len(attrs) - 1))
        attr = attrs[ai]
        vc = draw(st.integers(0, 3))
        read_ent = {'P': 0, 'K': 1, 'T': 2}[ent]
        read_ai = c21_lib.ENT_ATTRS[ent].index(attr)
        readop = ['attr', read_ent, pki, read_ai]
        before = draw(st.sampled_from([[], [], [readop], [['attr', read_ent, pki, (read_ai + 1) % len(c21_lib.ENT_ATTRS[ent])]]]))
        back = draw(st.sampled_from([[], [readop]]))
        sep = draw(st.sampled_from([[['commit']], [['commit']], [['flush'], ['commit']], [['flush']], []]))
        after = draw(st.sampled_from([[], [], [readop]]))
        mine = before + [['wattr', enti, pki, ai, vc]] + back + sep + after
        refetch = draw(st.lists(st.tuples(st.just('query'), c, c, c).map(list), min_size=1, max_size=2))
        rest = refetch + [draw(st.sampled_from([readop, ['reread', 0, 0, 0], ['todict', enti, pki, 0]]))] + draw(rfill)
        other = vc + draw(st.integers(1, 3))                 # a different value
        if ent == 'P':
            change = ['setp', pki, c21_lib.P_ATTRS.index(attr), other]
        elif ent == 'K':
            change = ['setk', pki, 1 if attr == 'n' else 0, other]
        else:
            change = ['sett', pki, 0, other]
        writer_ops = [change] + draw(st.lists(wop, max_size=1))
        actors = [{'session': {}, 'ops': mine + rest, 'end': 'commit'}, {'session': {}, 'ops': writer_ops, 'end': 'commit'}]
        sch = [0] * len(mine) + [1] * (len(writer_ops) + 1) + [0] * (len(rest) + 1)
        for pos, val in draw(st.lists(st.tuples(st.integers(0, len(sch) - 1), st.integers(0, 1)), max_size=2)):
            sch[pos] = val
        if draw(st.integers(0, 5)) == 0:
            sch = draw(schedule)
        return {'layout': draw(layout), 'data': draw(data), 'actors': actors, 'schedule': sch}
    return build()


def move_strategy():
    """the reader has a child in its cache without having read its parent reference; a writer MOVES the child from one
    parent to another (both not NULL) and commits; the reader re-fetches the child and then looks at both ends of the
    relationship (child.p, the old and the new parent's collection by iteration / in / len) in any order"""
    st, c, rop, wop, data, layout, schedule = _strategies()
    qidx = c21_lib.QUERY_KINDS.index

    @st.composite
    def build(draw):
        d = draw(data)
        k = draw(st.integers(0, 3))
        pa, pb = draw(st.permutations([0, 1, 2]))[:2]          # old and new parent (positions in PKS['P'])
        d['kids'] = list(d['kids'])
        d['kids'][k] = [0, 2, 4][pa]                            # the child starts under parent pa
        know = draw(st.sampled_from([[['attr', 1, k, 1]], [['attr', 1, k, 2]], [['query', qidx('all_K'), 0, 0]],
                                     [['query', qidx('index_K'), k, 0]], [['attr', 1, k, 1]]]))
        partial = draw(st.sampled_from([[], [], [['in', 0, pb, (k + 1) % 4]], [['count', 0, pb, 0]], [['attr', 0, pb, 0]],
                                        [['empty', 0, pa, 0]]]))
        move = ['move', k, [0, 1, 3][pb], 0]
        refetch = draw(st.lists(st.sampled_from([['query', qidx('all_K'), 0, 0], ['query', qidx('filter_K'), 0, 0],
                                                 ['query', qidx('get_K_kw'), k, draw(c)], ['query', qidx('kids_n'), pb, 0],
                                                 ['query', qidx('prefetch_p'), 0, 0], ['query', qidx('pairs'), 0, 0],
                                                 ['query', qidx('kids_of'), pb, 0]]), min_size=1, max_size=2))
        ends = draw(st.permutations([['attr', 1, k, 0], [draw(st.sampled_from(['iter', 'iter', 'in', 'len'])), 0, pb, k],
                                     [draw(st.sampled_from(['iter', 'in'])), 0, pa, k]]))
        ends = list(ends)[:draw(st.integers(2, 3))]
        reader_ops = know + partial + refetch + ends + draw(st.lists(rop, max_size=1))
        writer_ops = [move] + draw(st.lists(wop, max_size=1))
        actors = [{'session': {}, 'ops': reader_ops, 'end': 'commit', 'catch': draw(st.booleans())},
                  {'session': {}, 'ops': writer_ops, 'end': 'commit'}]
        sch = [0] * (len(know) + len(partial)) + [1] * (len(writer_ops) + 1) + [0] * (len(reader_ops) + 1)
        for pos, val in draw(st.lists(st.tuples(st.integers(0, len(sch) - 1), st.integers(0, 1)), max_size=2)):
            sch[pos] = val
        return {'layout': draw(layout), 'data': d, 'actors': actors, 'schedule': sch}
    return build()


def tworef_strategy():
    """children with two independent to-one references (p -> P.kids, q -> Q.kids2): the reader has the child in its cache and
    has completely loaded one of the target collections; a writer moves BOTH references in one commit; the reader re-fetches
    the child (catching the loud error in most cases) and looks at both ends of both relationships"""
    st, c, rop, wop, data, layout, schedule = _strategies()
    qidx = c21_lib.QUERY_KINDS.index

    @st.composite
    def build(draw):
        d = dict(draw(data))
        k = draw(st.integers(0, 3))
        pa, pb = draw(st.permutations([0, 1, 2]))[:2]          # old and new P owner (positions in PKS['P'])
        qa, qb = draw(st.permutations([0, 1]))                  # old and new Q owner
        d['kids'] = list(d['kids'])
        d['kids'][k] = [0, 2, 4][pa]
        d['kq'] = [draw(st.integers(0, 2)) for _ in range(4)]
        d['kq'][k] = qa + 1
        know = draw(st.sampled_from([[['attr', 1, k, 1]], [['attr', 1, k, 2]], [['query', qidx('all_K'), 0, 0]],
                                     [['attr', 1, k, 0]], [['q', 0, k, 0]]]))
        loaded = draw(st.sampled_from([[['q', 1, qb, 0]], [['q', 2, qb, 0]], [['q', 1, qb, 0]], [['iter', 0, pb, 0]],
                                       [['len', 0, pb, 0]], [['q', 1, qa, 0]], []]))
        move = ['move2', k, [0, 1, 3][pb], qb]
        refetch = draw(st.lists(st.sampled_from([['query', qidx('all_K'), 0, 0], ['query', qidx('filter_K'), 0, 0],
                                                 ['query', qidx('pairs'), 0, 0], ['query', qidx('kids_of'), pb, 0],
                                                 ['query', qidx('prefetch_p'), 0, 0]]), min_size=1, max_size=2))
        ends = list(draw(st.permutations([['attr', 1, k, 0], ['iter', 0, pa, 0], ['iter', 0, pb, 0], ['q', 0, k, 0],
                                          ['q', 1, qa, 0], ['q', 1, qb, 0], ['in', 0, pa, k], ['q', 3, qb, k]])))
        ends = ends[:draw(st.integers(2, 5))]
        reader_ops = know + loaded + refetch + ends
        writer_ops = [move] + draw(st.lists(wop, max_size=1))
        actors = [{'session': {}, 'ops': reader_ops, 'end': 'commit', 'catch': draw(st.sampled_from([True, True, True, False]))},
                  {'session': {}, 'ops': writer_ops, 'end': 'commit'}]
        sch = [0] * (len(know) + len(loaded)) + [1] * (len(writer_ops) + 1) + [0] * (len(reader_ops) + 1)
        for pos, val in draw(st.lists(st.tuples(st.integers(0, len(sch) - 1), st.integers(0, 1)), max_size=2)):
            sch[pos] = val
        return {'layout': draw(layout), 'data': d, 'actors': actors, 'schedule': sch}
    return build()


def run(ctx):
    env = c21_lib.Env(ctx.workdir)

    def t(case):
        verdict, info = c21_lib.run_case(env, case)
        if verdict is None:
            ctx.inconclusive += 1
            return
        sample = None
        if verdict.nontrivial and len(ctx.samples) < 6:
            sample = {'case': case, 'history': c21_lib.fmt_trace(case, info).split('\n    ')}
        ctx.case(key=case, nontrivial=verdict.nontrivial, classes=sorted(verdict.classes) + ['layout:' + case['layout']],
                 sample=sample)
        if verdict.message is not None:
            ctx.fail(case, verdict.message)
    try:
        ctx.run_test(t, {'case': case_strategy()}, max_examples=ctx.scale(340, 800), name='schedules')
        if ctx.violation is None:
            ctx.run_test(t, {'case': race_strategy()}, max_examples=ctx.scale(450, 900), name='races')
        if ctx.violation is None:
            ctx.run_test(t, {'case': batch_strategy()}, max_examples=ctx.scale(200, 400), name='batches')
        if ctx.violation is None:
            ctx.run_test(t, {'case': writeback_strategy()}, max_examples=ctx.scale(200, 400), name='writeback')
        if ctx.violation is None:
            ctx.run_test(t, {'case': move_strategy()}, max_examples=ctx.scale(120, 300), name='moves')
        if ctx.violation is None:
            ctx.run_test(t, {'case': tworef_strategy()}, max_examples=ctx.scale(120, 300), name='tworef')
    finally:
        env.close()


def replay(case):
    return c21_lib.replay_case(case)
