"""C01 -- declarative queries return what Python evaluation of the same expression returns.

Generated data sets x generated queries (vlib/qgen.py); each query is executed by Pony as a string query, as a real
generator expression (decompiler path) and, where it has the shape, as Entity.select(lambda ...); the rows are compared with
the reference evaluator of vlib/qgen.py (Python semantics + SQL NULL, DESIGN.md 7a) through a validity predicate.
"""
import collections
from vlib import qgen
from hypothesis import strategies as st

ID = 'C01'
LEVEL = 'exploration'
RULE = ('Date part (vlib/c01_dates.py): date / datetime attribute +- timedelta (literal or parameter) in projections and filters against Python date arithmetic. Grouped part (vlib/c01_group.py): aggregate projections (keys + count/sum/min/max/avg, distinct variants, navigation '
        'through Optional/Required references incl. a composite-key target) over 0-7 rows judged by a Python group-by; rows '
        'whose navigated Optional reference is None may be kept or dropped per reference. Main part: '
        'A case is (data set, query): data = 0-4 A rows, 0-6 B rows, 0-3 C rows over small colliding domains with NULLs, empty '
        'strings, LIKE metacharacters and non-ASCII; query = generated tree (filters, projections, arithmetic, string functions, '
        'slices, comparison chains, in/not in, None tests, truth tests, and/or/not, navigation through references and '
        'collections, collection aggregates, exists/not exists, IN-subqueries, two-loop joins, grouped aggregates) rendered to '
        'source and run as string query, compiled generator and lambda. Non-trivial = Pony accepted the query and (the result is '
        'neither empty nor all rows, or the query has NULL data in a used attribute, a join, a subquery or an aggregate); '
        'distinct by (query text, data hash).')
ASSUMPTIONS = ['live SQLite in-memory', 'reference evaluator vlib/qgen.py (rules and sources: DESIGN.md 7a)',
               'multiplicity judged by the documented automatic-DISTINCT cases only']
SHARDS = {'quick': 4, 'thorough': 16}
MIN_EVALS = {'quick': 2000, 'thorough': 40000}
CLASS_FLOORS = {'accepted': 0.6}

ENV_NAMES = ('select', 'count', 'sum', 'min', 'max', 'avg', 'exists', 'coalesce', 'between', 'len', 'abs', 'distinct',
             'desc', 'concat', 'group_concat')


def make_env(classes):
    import pony.orm as orm
    env = {n: getattr(orm, n) for n in ENV_NAMES if hasattr(orm, n)}
    env['len'] = len
    env['abs'] = abs
    env.update(classes)
    return env


class World(object):
    """one database + classes per schema option, reused across cases (data are replaced per case)"""
    _cache = {}

    @classmethod
    def get(cls, opts):
        key = bool(opts.get('b_a_required', True))
        w = cls._cache.get(key)
        if w is None:
            from pony.orm import Database
            db = Database()
            classes = qgen.build_schema(db, {'b_a_required': key})
            db.bind('sqlite', ':memory:')
            db.generate_mapping(create_tables=True)
            w = cls._cache[key] = (db, classes)
        return w


def reset_data(db, classes, data):
    from pony.orm import db_session
    with db_session:
        con = db.get_connection()
        for t in ('B_C', 'C', 'B', 'A'):
            con.execute('delete from "%s"' % t)
    qgen.load_data(classes, data)


def norm_row(v):
    from pony.orm.core import Entity
    if isinstance(v, tuple):
        return tuple(norm_row(x) for x in v)
    if isinstance(v, Entity):
        return (type(v).__name__, v.get_pk())
    return v


REJECT = ('TranslationError', 'TypeError', 'NotImplementedError', 'ExprEvalError', 'NotSupportedError', 'DecompileError',
          'AstError', 'InvalidQuery')


def run_pony(form, text, q, classes, env, params):
    """returns ('ok', rows) | ('rejected', exc name)"""
    from pony.orm import db_session, select
    from pony.orm.core import Query
    genv = dict(env)
    genv.update(params)
    try:
        with db_session:
            if form == 'string':
                res = select(text, genv, dict(params))[:]
            elif form == 'generator':
                res = eval(compile('select(%s)[:]' % text, '<query>', 'eval'), genv)
            else:
                var, src = q['loops'][0]
                cls = classes[src[1]]
                if q.get('cond') is None:
                    res = cls.select()[:]
                else:
                    # the lambda must be created and passed in a frame whose globals hold the outer names
                    res = eval(compile('%s.select(lambda %s: %s)[:]' % (src[1], var, qgen.render(q['cond'])),
                                       '<query>', 'eval'), genv)
            rows = [norm_row(r) for r in res]
        return 'ok', rows
    except Exception as e:
        name = type(e).__name__
        if name in REJECT:
            return 'rejected', name
        return 'error', '%s: %s' % (name, str(e)[:300])


def judge(q, rows, required, optional):
    """validity predicate; returns message or None"""
    cnt = collections.Counter(rows)
    req = collections.Counter(required)
    opt = collections.Counter(optional)
    res = q['result']
    missing = [r for r in req if r not in cnt]
    extra = [r for r in cnt if r not in req and r not in opt]
    if missing or extra:
        return 'rows differ: missing %r, unexpected %r' % (missing[:4], extra[:4])
    if res[0] == 'obj':
        dup = [r for r, n in cnt.items() if n > 1]
        if dup:
            return 'object returned more than once: %r' % dup[:3]
        return None
    if qgen.is_aggregated(q):
        if cnt != req:
            return 'grouped rows differ: pony %r, reference %r' % (sorted(cnt.items(), key=repr)[:6], sorted(req.items(), key=repr)[:6])
        return None
    exprs = res[1]
    pk_vars = set()
    for r in exprs:
        if r[0] == 'objref':
            pk_vars.add(r[1])
        elif r[0] == 'attr' and r[2] == 'id':
            pk_vars.add(r[1])
    all_vars = set(v for v, src in q['loops'])
    if len(exprs) == 1 and not pk_vars:
        dup = [r for r, n in cnt.items() if n > 1]
        if dup:
            return 'single-attribute projection returned duplicates: %r' % dup[:3]
        return None
    if pk_vars >= all_vars and not opt:
        if cnt != req:
            return 'projection containing every primary key must keep the bag: pony %r, reference %r' % (
                sorted(cnt.items(), key=repr)[:6], sorted(req.items(), key=repr)[:6])
        return None
    for r, n in cnt.items():
        if n != 1 and n != req.get(r, 0) + opt.get(r, 0) and n != req.get(r, 0):
            return 'row %r returned %d times (reference multiplicity %d)' % (r, n, req.get(r, 0))
    return None


def check_case(ctx, data, q):
    db, classes = World.get(data['opts'])
    reset_data(db, classes, data)
    mirror = qgen.Mirror(data)
    env = make_env(classes)
    text = qgen.render_query(q)
    params = qgen.query_params(q)
    required, optional, unspecified = qgen.ref_rows(q, mirror)
    if q['result'][0] == 'exprs' and not qgen.is_aggregated(q) and q.get('cond') is not None and qgen.has_coll_aggregate(q['cond']):
        # an aggregate over a collection inside the condition of a projection query is a query-level aggregate for Pony
        # (HAVING with GROUP BY over the projected expressions), not a per-object value: outside the asserted domain
        # unless the projection identifies the object
        res_items = q['result'][1]
        if not any(r[0] == 'objref' or (r[0] == 'attr' and r[2] == 'id') for r in res_items):
            unspecified += 1
    forms = ['string', 'generator']
    if len(q['loops']) == 1 and q['result'][0] == 'obj':
        forms.append('lambda')
    feats = qgen.features([q.get('cond'), q['result']])
    classes_ = ['form:' + f for f in forms]
    accepted_any = False
    results = {}
    for form in forms:
        status, rows = run_pony(form, text, q, classes, env, params)
        results[form] = (status, rows)
        if status == 'rejected':
            ctx.count('rejected:' + rows)
            continue
        if status == 'error':
            ctx.count('error:' + rows.split(':')[0])
            continue
        accepted_any = True
        msg = judge(q, rows, required, optional) if not unspecified else None
        if msg:
            ctx.fail({'data': data, 'query': q, 'form': form},
                     '%s query  %s  params %r: %s' % (form, text, params, msg))
    if results['string'][0] == 'ok' and results['generator'][0] == 'ok' and not unspecified:
        if collections.Counter(results['string'][1]) != collections.Counter(results['generator'][1]):
            ctx.count('string_vs_generator_disagree')     # attributed to C03 (decompiler), not judged here
    nrows = len(qgen.loop_rows(q, mirror))
    nullish = any(r.get('on') is None for r in data['A'] + data['B']) and ('on' in text)
    nt = accepted_any and not unspecified and (
        (0 < len(set(required)) < max(1, nrows)) or nullish or len(q['loops']) > 1 or
        bool(feats & {'exists', 'subin', 'aggrgen', 'aggrattr', 'countcoll', 'gcount', 'gaggr'}))
    cls = list(classes_)
    if accepted_any:
        cls.append('accepted')
    if unspecified:
        cls.append('unspecified_rows')
        ctx.inconclusive += 1
    for f in sorted(feats):
        cls.append('f:' + f)
    if len(q['loops']) > 1:
        cls.append('join')
    ctx.case(key=[text, sorted(params.items()), data], nontrivial=nt, classes=cls,
             sample={'query': text, 'params': params, 'rows_A': len(data['A']), 'rows_B': len(data['B']),
                     'result_size': len(required)} if nt else None)


def run(ctx):
    def t(data, q):
        check_case(ctx, data, q)
    ctx.run_test(t, dict(data=qgen.datasets(), q=qgen.queries()), max_examples=ctx.scale(1200, 6000), name="C01")
    if ctx.violation is not None:
        return

    # grouped part: aggregate projections with implicit GROUP BY (vlib/c01_group.py)
    from vlib import c01_group

    def tg(case):
        status, msg = c01_group.judge(case)
        if status == 'rejected':
            ctx.rejected += 1
            ctx.count('rejected:group')
            return
        nt = len(case['es']) >= 2 and bool(case['keys'])
        ctx.case(key=case, nontrivial=nt, classes=['accepted', 'group'] + (['group:optional_ref'] if c01_group.refs_navigated(case) else []),
                 sample={'query': c01_group.source(case), 'rows_E': len(case['es'])} if nt else None)
        if status == 'violation':
            ctx.fail(case, msg)
    ctx.run_test(tg, dict(case=c01_group.cases()), max_examples=ctx.scale(500, 4000), name="C01_group")
    if ctx.violation is not None:
        return

    # date part: date / datetime +- timedelta (vlib/c01_dates.py)
    from vlib import c01_dates

    def td_(case):
        msg = c01_dates.judge(case)
        ctx.case(key=case, nontrivial=case['td'][1] != 0 or case['position'] == 'filter', classes=['accepted', 'dates', 'dates:' + case['form']],
                 sample={'attr': case['attr'], 'sign': case['sign'], 'td': case['td'], 'form': case['form'], 'position': case['position']})
        if msg:
            ctx.fail(case, msg)
    ctx.run_test(td_, dict(case=c01_dates.cases()), max_examples=ctx.scale(200, 2000), name="C01_dates")


def replay(case):
    class Ctx(object):
        inconclusive = 0
        msg = None

        def count(self, *a, **k):
            pass

        def case(self, *a, **k):
            pass

        def fail(self, case, message):
            if self.msg is None:
                self.msg = message
    c = Ctx()
    if case.get('kind') == 'dates':
        from vlib import c01_dates
        return c01_dates.judge(case)
    if case.get('kind') == 'group':
        from vlib import c01_group
        status, msg = c01_group.judge(case)
        return msg if status == 'violation' else None
    if 'form' in case:
        check_case(c, case['data'], case['query'])
    return c.msg


def _x_date_minus_fractional_timedelta_param(case, message):
    """open finding C01-sqlite-date-minus-fractional-timedelta-parameter: date attribute minus a timedelta PARAMETER that has a
    fraction of a day (the literal form was repaired)"""
    return (case.get('kind') == 'dates' and case.get('attr') == 'd' and case.get('sign') == '-' and case.get('form') == 'param'
            and case.get('td', [0, 0])[1] != 0)


def _x_datetime_arithmetic_equal_second(case, message):
    """open finding C01-sqlite-datetime-arithmetic-compared-as-text: the result of datetime +- timedelta is rendered without the
    fraction of a second and compared as text with stored values / parameters that carry six fraction digits: wrong exactly
    when both are equal to the second"""
    if case.get('kind') != 'dates' or case.get('attr') != 'dt' or case.get('position') != 'filter':
        return False
    import datetime
    rows = [datetime.datetime.fromisoformat(dt) for d, dt in case['rows']]
    td = datetime.timedelta(days=case['td'][0], seconds=case['td'][1])
    vals = [r + td if case['sign'] == '+' else r - td for r in rows]
    limit = vals[case['limit_row'] % len(rows)] + datetime.timedelta(seconds=case.get('limit_off') or 0)
    return any(v == limit for v in vals)


EXCLUSIONS = {'date_minus_fractional_timedelta_param': _x_date_minus_fractional_timedelta_param,
              'datetime_arithmetic_equal_second': _x_datetime_arithmetic_equal_second}

MANIFEST = {
    'text': 'Generated data x generated queries from a typed grammar, executed through the string, generator (decompiler) and '
            'lambda front ends and compared with an independent reference evaluator (Python semantics + SQL three-valued logic) '
            'under a validity predicate for the documented set/bag semantics.',
    'note': 'SQLite only; fixed 3-entity schema template with a Required/Optional option; trusts the hand-written reference '
            'evaluator (DESIGN.md 7a); /, //, %, ** on ints, value-position and/or, floats, dates and hybrid methods are not in '
            'the generated grammar of this check.',
    'technique': 'grammar-based property testing against an independent reference evaluator (hypothesis)',
}
