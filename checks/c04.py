"""C04 Outer-scope expressions inside a query are evaluated exactly as Python would.

Two oracle levels, both against Python's own evaluation (nothing is compared with Pony itself):

(1) round trip: an expression tree t -- parsed from generated text, or rebuilt by Pony's decompiler from a compiled
    lambda (constants folded by the compiler, names as globals / cells / fast locals) -- is compiled directly and
    evaluated; ast2src(t) is compiled and evaluated in the same generated environment; both must give the same typed
    value or raise the same exception type.
(2) end to end on live in-memory SQLite: the expression is embedded in real queries
    (x.<col> == <E>, <E> == x.<col>, (x.id, <E>), and conditions / result columns that MIX the query variable with
    external parts), as generator, lambda (select / filter / where), lambda text and generator text (implicit caller
    frame and explicit namespaces); the names live in module globals, in locals of the calling function and in cells of
    an enclosing function, with shadowed decoy values in the globals.  Expected rows are computed by a plain Python
    lambda defined in the same scope and applied to mirror objects of the stored rows.

See vlib/c04_gen.py (grammar, environments) and vlib/c04_core.py (judges, root-cause features).
"""
ID = 'C04'
LEVEL = 'exploration'
RULE = ('hypothesis draws a typed external expression (int/str/float/Decimal/date/bool/None; all binary/unary/boolean/'
        'comparison operators, conditional expressions, lambdas, calls with keywords/*/**, attribute chains and '
        'subscripts/slices on non-atomic bases, f-strings with conversions, format specs, nested specs and literal braces) '
        'or a condition/result tuple mixing the query variable with external parts, an environment of caller-scope values, '
        'and a layout of the names over globals/locals/closure cells with shadowed decoys. One evaluation = one '
        '(expression, tree source parse|decompiler, environment) round trip, or one (query, front-end form) execution on '
        'SQLite. Non-trivial = the external part has operators of >=2 different precedence levels, or an f-string part, or '
        'a negative constant, and ast2src / the query did not raise; distinct by (level, tree source or form, text).')
ASSUMPTIONS = ['CPython 3.12 compile/eval of the original tree (ast.parse text, or the decompiler\'s tree compiled directly) is the reference',
               'ast.unparse renders the generated tree to text that parses back to the same tree (checked per case, else discarded)',
               'SQLite 3.40 live through pony.orm.dbproviders.sqlite; only +,-,* on small integers, string concatenation, '
               'comparisons and and/or/not join query-variable parts with external parts, where SQL and Python agree',
               'a compiled generator/lambda whose decompiled tree is not equivalent to its source on the stored rows is '
               'skipped (decompiler faults are C03)']
SHARDS = {'quick': 4, 'thorough': 16}
MIN_EVALS = {'quick': 6000, 'thorough': 100000}
CLASS_FLOORS = {'L1:parse': 0.15, 'L1:decomp': 0.10, 'L2': 0.15, 'accepted': 0.08, 'fstring': 0.03, 'shadowed_name_used': 0.02}

FORMS_COND = ('str', 'str_ns', 'str_lam', 'gen', 'lam', 'filt', 'where', 'lam_far', 'filt_far', 'where_far',
              'gen_far', 'gen_far_count', 'gen_far_exists', 'gen_far_max')
FORMS_ELT = ('str', 'str_ns', 'gen', 'gen_far')


_SAMPLED = {}


def _account(ctx, case, res, key, extra_classes=(), want_sample=True, dbE=None):
    classes = list(res['classes']) + list(extra_classes)
    st = res['status']
    if st == 'rejected':
        ctx.rejected += 1
        classes.append('rejected')
    elif st == 'inconclusive':
        ctx.inconclusive += 1
        classes.append('inconclusive')
    sample = None
    held = st == 'ok' and bool(res.get('nontrivial'))     # non-trivial AND judged AND the property held on it
    bucket = (case['level'], case.get('kind'))
    if held and want_sample and _SAMPLED.get(bucket, 0) < 2:      # two samples per level/kind and shard
        _SAMPLED[bucket] = _SAMPLED.get(bucket, 0) + 1
        sample = {'expr': case['expr'], 'how': case.get('tree') or case.get('form')}
        if res.get('src'): sample['regenerated'] = res['src']
        if res.get('query'): sample['query'] = res['query']
    ctx.case(key=key, nontrivial=held, classes=classes, sample=sample)
    if st == 'fail':
        from vlib import c04_core as K
        full, msg = dict(case, features=res['features']), res['message']
        reportable = lambda c, m: ctx.excluded_by(c, m) is None
        if reportable(full, msg):
            full, msg = K.minimise(full, reportable, dbE)
        elif case['level'] == 1:
            hidden = K.unmask(full, reportable)       # an independent failure behind the known one?
            if hidden is not None:
                ctx.count('unmasked')
                ctx.fail(*K.minimise(hidden[0], reportable, dbE))
        ctx.fail(full, msg)


def run(ctx):
    import ast
    from hypothesis import strategies as st, Phase
    from vlib import c04_gen as G, c04_core as K
    dbE = K.make_db()
    NOSHRINK = (Phase.generate,)     # failures are minimised by K.minimise (bounded), not by hypothesis

    def uses_shadowed(expr, layout):
        names = set(n.id for n in ast.walk(ast.parse(expr, mode='eval')) if isinstance(n, ast.Name))
        return bool(names & set(layout['decoys']))

    # ---- level 1 -------------------------------------------------------------------------------------------------
    def t_l1(te, envs, mode):
        typ, expr = te
        if expr is None:
            ctx.count('generator_discarded')
            return
        extra = ['fstring'] if ("f'" in expr or 'f"' in expr) else []
        for tree in ('parse', 'decomp'):
            for k, env in enumerate(envs):
                case = {'level': 1, 'expr': expr, 'tree': tree, 'mode': mode, 'env': env}
                res = K.judge_l1(case)
                _account(ctx, case, res, [1, tree, expr], extra, want_sample=(k == 0 and tree == 'decomp'), dbE=dbE)
                if res['status'] in ('rejected', 'inconclusive'):
                    break

    ctx.run_test(t_l1, dict(te=G.external_exprs(), envs=st.lists(G.environments(), min_size=2, max_size=2),
                            mode=st.sampled_from(['global', 'deref', 'fast'])),
                 max_examples=ctx.scale(900, 6000), name='roundtrip', phases=NOSHRINK)

    # ---- level 2 -------------------------------------------------------------------------------------------------
    def t_l2_eq(te, env, lay, flip, part):
        typ, expr = te
        if expr is None:
            ctx.count('generator_discarded')
            return
        layout = G.make_layout(env, lay)
        extra = (['fstring'] if ("f'" in expr or 'f"' in expr) else []) + \
                (['shadowed_name_used'] if uses_shadowed(expr, layout) else [])
        for form in (FORMS_COND if part == 'cond' else FORMS_ELT):
            case = {'level': 2, 'kind': 'eq', 'part': part, 'expr': expr, 'flip': flip, 'form': form, 'env': env,
                    'scopes': layout['scopes'], 'decoys': layout['decoys']}
            res = K.judge_l2(case, dbE)
            _account(ctx, case, res, [2, form, part, expr], extra, want_sample=(form == 'lam' or part == 'elt'), dbE=dbE)
            if res['status'] == 'inconclusive' and 'out_of_domain' in res['classes']:
                break

    ctx.run_test(t_l2_eq, dict(te=G.external_exprs(max_depth=3, allow_lambda=False), env=G.environments(), lay=G.BIG, flip=st.booleans(),
                               part=st.sampled_from(['cond', 'cond', 'elt'])),
                 max_examples=ctx.scale(130, 900), name='query_eq', phases=NOSHRINK)

    def t_l2_mixed(pq, env, lay):
        part, expr = pq
        if expr is None:
            ctx.count('generator_discarded')
            return
        layout = G.make_layout(env, lay)
        extra = (['fstring'] if ("f'" in expr or 'f"' in expr) else []) + \
                (['shadowed_name_used'] if uses_shadowed(expr, layout) else [])
        for form in (FORMS_COND if part == 'cond' else FORMS_ELT):
            case = {'level': 2, 'kind': 'mixed', 'part': part, 'expr': expr, 'form': form, 'env': env,
                    'scopes': layout['scopes'], 'decoys': layout['decoys']}
            res = K.judge_l2(case, dbE)
            _account(ctx, case, res, [2, form, part, expr], extra, want_sample=(form == 'gen'), dbE=dbE)
            if res['status'] == 'inconclusive' and ('out_of_domain' in res['classes'] or 'py_row_raises' in res['classes']):
                break

    ctx.run_test(t_l2_mixed, dict(pq=G.mixed_queries(), env=G.environments(), lay=G.BIG),
                 max_examples=ctx.scale(110, 700), name='query_mixed', phases=NOSHRINK)


    # ---- level 2, histories: the same query code stacked on its own result, each layer with its own outer values ------
    def t_l2_chain(expr, envs, lay):
        if expr is None:
            ctx.count('generator_discarded')
            return
        layout = G.make_layout(envs[0], lay)
        for form in K.CHAIN_FORMS:
            case = {'level': 2, 'kind': 'chain', 'expr': expr, 'form': form, 'envs': envs, 'env': envs[0],
                    'scopes': layout['scopes'], 'decoys': layout['decoys']}
            res = K.judge_chain(case, dbE)
            _account(ctx, case, res, [2, form, 'chain', len(envs), expr], want_sample=(form == 'chain_gen'), dbE=dbE)
            if res['status'] == 'inconclusive':
                break

    ctx.run_test(t_l2_chain, dict(expr=G.chain_queries(), envs=st.lists(G.environments(), min_size=1, max_size=5), lay=G.BIG),
                 max_examples=ctx.scale(60, 500), name='query_chain', phases=NOSHRINK)


def replay(case):
    from vlib import c04_core as K
    res = K.judge(case)
    return res['message'] if res['status'] == 'fail' else None


# ---- exclusions: one per root cause of an OPEN known finding; each looks only at the syntactic features of the
# ---- external expression trees that ast2src was given (computed by vlib.c04_core.features and stored in the case)

def _has(tag):
    def pred(case, message):
        return tag in (case.get('features') or ())
    pred.__name__ = 'has_' + tag
    return pred


EXCLUSIONS = {
    'ifexp_unparenthesised': _has('ifexp_prio'),
    'lambda_unparenthesised': _has('lambda_prio'),
    'postfix_base_unparenthesised': _has('postfix_base'),
    'negative_constant_atom': _has('neg_const'),
    'fstring_format_spec_dropped': _has('fstr_spec'),
    'fstring_literal_brace': _has('fstr_brace'),
    'fstring_expression_escaped': _has('fstr_escape'),
    'fstring_expression_leading_brace': _has('fstr_lbrace'),
    'lone_formatted_value': _has('lone_fvalue'),
    'lambda_arguments_dropped': _has('lambda_args'),
    'childless_fstring_not_external': _has('empty_joinedstr'),
    'called_name_only_in_closure_cell': lambda case, message: 'far_call_cell' in (case.get('features') or ()) and 'NameError' in message,
}

MANIFEST = {
    'text': 'Random typed external expressions (every operator precedence, conditional expressions, lambdas, calls, attribute '
            'chains/subscripts on non-atomic bases, f-strings with conversions/format specs/braces) are (1) regenerated by '
            'ast2src from parsed and from decompiled trees and re-evaluated against the directly compiled tree in generated '
            'environments, and (2) embedded in real SQLite queries in every front-end form with names spread over globals, '
            'locals and closure cells, the rows returned being compared with a plain Python lambda evaluated in the same scope. '
            'Sampled search; cannot establish the unbounded claim.',
    'note': 'Loud failures of regeneration (ast2src raising, regenerated text not compiling) and translator rejections are counted '
            'as rejected, not as violations; compiled forms the decompiler rebuilds wrongly are skipped as a C03 matter; '
            'a lambda defined in another scope than the calling one is not exercised (the statement names the caller\'s scope).',
    'technique': 'hypothesis grammar-based search; round-trip oracle plus end-to-end differential against Python evaluation',
}
