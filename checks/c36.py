"""C36 A forked process never uses its parent's database connection.

Part 1 (SQLite, live, real os.fork): a history = parent state at the fork point x child script x order x parent
script after the fork, on a file database.  Every process of the history runs pony with a recording
sqlite3.Connection subclass (creator pid, pid of every call that reaches SQLite).
Part 2 (generic pony.orm.dbapiprovider.Pool -- the pool PostgreSQL/MySQL providers inherit -- and OraPool with a
recording cx_Oracle.SessionPool): op sequences connect/use/release/drop/disconnect/gc with nested real forks on
recording fake driver objects.

The harness is vlib/c36_harness.py (executes, observes), the oracle is vlib/c36_judge.py (decides, pony-free).
"""
import os, json, shutil, itertools

from vlib import c36_harness as H
from vlib import c36_judge as J

ID = 'C36'
LEVEL = 'exploration'
RULE = ('A case is one fork history. sqlite: parent state at the fork in {disconnected, idle pooled connection, open session '
        'after a read, open session with a flushed uncommitted write, open session with an unflushed object, open session '
        'after commit, a @db_session generator suspended after a read; grid only: another THREAD of the parent inside a write transaction, optionally a second thread queued behind it inside pony} x database {file; in a small always-run family and 1/6 of the random histories: :memory: and :sharedmemory:, where only the place of the statements and the data of the parent itself are judged} x order {child first, parent first} x child script (read, write+commit, db.get_connection, disconnect, '
        'rollback, read whose first connection attempt fails once (fault injected in the sqlite3 factory), generator resume/write, nested fork with its own script; length 1..5) x parent script after the fork (read, write, commit, '
        'end_session, disconnect; length 0..4); a complete grid of 6x2x7x3 short scripts + 20 generator histories (quick tier: alternating halves by seed parity) plus hypothesis-drawn longer ones. '
        'pool: op lists over connect/use/release/drop/disconnect/gc/fail_next (the next driver-level connect of the process raises once) with forks nested to depth 3 (including chains whose intermediate processes do nothing) on the generic Pool and on '
        'OraPool (a grid of 2x4x6x2 short ones + 48 fork chains plus hypothesis-drawn ones). Non-trivial = at the fork point the forking process held a pooled/open connection AND a forked process '
        'issued at least one statement (sqlite) / called connect() or disconnect() while its pool held an inherited object (pool). Distinct by the whole case.')
ASSUMPTIONS = ['real os.fork() on Linux; sqlite3 3.40 file database in rollback-journal mode, busy timeout 0.15 s',
               'a connection object belongs to the process whose pid created it (recorded by the sqlite3.Connection subclass / '
               'the fake driver objects); commit()/rollback()/close() of python sqlite3 that send nothing (no open transaction) '
               'are judged only by their effect on the parent',
               'the harness serialises the processes (child completely before or after the parent script), so lock conflicts '
               "only arise from the parent's still open session and are accepted as 'database is locked'; the same is accepted for "
               'ever in a forked process when a connection of the forking process held the write lock at the fork (SQLite keeps '
               'POSIX locks per process+inode, the inherited connection copy makes the file look reserved to new connections)',
               'inside a db_session inherited through fork (it can never end in the child) pony caches query results, so exact '
               'visibility of committed data is demanded only of reads in real new sessions / right after rollback()',
               'generic Pool / OraPool: for socket based drivers ANY call on, or finalisation of, an inherited connection / '
               'session-pool object reaches the server session shared with the parent (libpq / libmysqlclient / OCI documentation), '
               'so every such call is counted as affecting the parent; no real PostgreSQL/MySQL/Oracle driver or server exists here',
               'a hang is never reported as a violation (watchdog => inconclusive) except a provable deadlock: a single-threaded '
               'process blocked in SQLiteProvider.acquire_lock']
SHARDS = {'quick': 4, 'thorough': 8}
MIN_EVALS = {'quick': 100, 'thorough': 800}     # a fork costs 50-500 ms here depending on machine load; the wall-clock guard may stop early
CLASS_FLOORS = {'sqlite': 0.3, 'pool:generic': 0.08, 'pool:oracle': 0.08, 'nontrivial': 0.25}

CHILD_FIRST_OPS = [['read'], ['write'], ['getconn'], ['disconnect', 'read'], ['rollback', 'read', 'write'], [['fork', ['read', 'write']]],
                   ['fail_connect', 'read', 'write', 'disconnect']]     # first connection attempt of the child fails once, then retry
PARENT_SCRIPTS = [[], ['commit', 'read'], ['end_session', 'write']]


def grid_cases():
    out = []
    for state in H.PARENT_STATES:
        for order in ('child_first', 'parent_first'):
            for child in CHILD_FIRST_OPS:
                for after in PARENT_SCRIPTS:
                    out.append(normalise({'kind': 'sqlite', 'parent_state': state, 'order': order,
                                          'child': child, 'parent_after': after}))
    # fork chains below the child: the intermediate process does nothing / reads, the last one disconnects first or meets
    # a failing first connect
    for state in ('idle', 'open_read', 'after_commit'):
        for child in ([['fork', [['fork', ['disconnect', 'read', 'write']]]]],
                      [['fork', ['read', ['fork', ['fail_connect', 'read', 'write', 'disconnect']]]]],
                      [['fork', [['fork', [['fork', ['write', 'disconnect', 'read']]]]]]]):
            out.append(normalise({'kind': 'sqlite', 'parent_state': state, 'order': 'child_first',
                                  'child': child, 'parent_after': ['commit', 'read']}))
    # a @db_session generator of the parent is suspended at the fork point and resumed on both sides
    for order in ('child_first', 'parent_first'):
        for child in (['gen_next'], ['gen_write', 'read'], ['read', 'gen_write', 'gen_next'], [['fork', ['gen_write']]],
                      ['fail_connect', 'gen_write']):
            for after in ([], ['gen_write', 'read']):
                out.append({'kind': 'sqlite', 'parent_state': H.GEN_STATE, 'order': order, 'child': child, 'parent_after': after})
    # another thread of the parent holds the open write transaction (and pony's SQLite transaction lock)
    for child, after in ((['read'], []), (['read'], ['read']), (['write'], []), (['getconn'], []),
                         ([['fork', ['read', 'write']]], [])):
        out.append({'kind': 'sqlite', 'parent_state': 'thread_open_write', 'order': 'child_first',
                    'child': child, 'parent_after': after})
    return out


POOL_PREFIX = [[], ['connect'], ['connect', 'use', 'release'], ['connect', 'drop']]
POOL_CHILD = [['connect', 'use', 'release'], ['disconnect', 'gc', 'connect'], ['gc', 'connect', 'release', ['fork', ['connect', 'release', 'gc']]],
              ['connect', 'drop', 'gc', 'connect'],
              ['fail_next', 'connect', 'connect', 'use', 'release', 'disconnect'],       # the first connect of the child fails once
              ['fail_next', 'connect', 'disconnect', 'gc', ['fork', ['fail_next', 'connect', 'connect', 'release']]]]
POOL_SUFFIX = [[], ['connect', 'use', 'release']]


# fork chains: the process that opened the pooled connection is an ANCESTOR, the processes in between do nothing or
# something else, the last one disconnects / connects (possibly after an injected connect failure)
CHAIN_PREFIX = [['connect'], ['connect', 'use', 'release']]
CHAIN_INTER = [[], ['connect', 'release']]
CHAIN_LEAF = [['disconnect'], ['disconnect', 'connect', 'use', 'release'], ['fail_next', 'connect', 'disconnect', 'connect', 'release']]


def _chain(inter, leaf, depth):
    ops = list(leaf)
    for _ in range(depth):
        ops = list(inter) + [['fork', ops]]
        inter = inter            # the same intermediate behaviour on every level
    return ops


def pool_chain_cases():
    out = []
    for kind in ('generic', 'oracle'):
        for pre in CHAIN_PREFIX:
            for inter in CHAIN_INTER:
                for leaf in CHAIN_LEAF:
                    for depth in (2, 3):
                        ops = _chain(inter, leaf, depth)
                        # the outermost level is the root process itself: its own part is the prefix
                        out.append({'kind': 'pool', 'pool': kind, 'ops': pre + [o for o in ops if not isinstance(o, str)]})
    return out


def always_cases():
    """small families that run in EVERY quick run (not halved by seed parity)"""
    out = []
    # in-memory databases (':memory:' and the shared-cache ':sharedmemory:'): the pool keeps the only connection for ever;
    # nothing is shared with a forked process, so only WHERE statements are issued (and the parent's own data) is judged
    for db in ('memory', 'sharedmemory'):
        for state in ('idle', 'open_read', 'open_write', 'after_commit'):
            out.append({'kind': 'sqlite', 'db': db, 'parent_state': state, 'order': 'child_first',
                        'child': ['read', 'write'], 'parent_after': ['commit', 'read']})
        out.append({'kind': 'sqlite', 'db': db, 'parent_state': 'idle', 'order': 'parent_first',
                    'child': [['fork', ['disconnect', 'read', 'write']]], 'parent_after': ['write']})
    # two other threads of the parent at the fork: one inside a write transaction, one queued behind it inside pony
    for child in (['read'], ['write'], [['fork', ['read', 'write']]]):
        out.append({'kind': 'sqlite', 'parent_state': 'threads_queued_write', 'order': 'child_first',
                    'child': child, 'parent_after': []})
    return out


def pool_grid_cases():
    out = pool_chain_cases()
    for kind in ('generic', 'oracle'):
        for pre in POOL_PREFIX:
            for child in POOL_CHILD:
                for suf in POOL_SUFFIX:
                    out.append({'kind': 'pool', 'pool': kind, 'ops': pre + [['fork', child]] + suf})
    return out


def _no_disconnect_after_gen(ops):
    out, resumed = [], False
    for o in ops:
        if isinstance(o, str):
            if o in ('gen_next', 'gen_write'):
                resumed = True
            if o == 'disconnect' and resumed:
                continue
            out.append(o)
        else:
            out.append([o[0], _no_disconnect_after_gen(o[1])])
    return out


def normalise(case):
    """precondition of the open_dirty state: the child first discards the inherited unflushed cache
    (duplicating pending objects is the memory copy of fork, not a connection matter).
    Precondition of the generator state: a process does not disconnect() after it has resumed the generator, because the
    suspended generator session then holds that process's OWN pooled connection and disconnect() closes it -- with or
    without fork (pony's documented single connection per thread), so it says nothing about C36."""
    if case['kind'] == 'sqlite' and case['parent_state'] == H.GEN_STATE:
        child = _no_disconnect_after_gen(case['child'])
        if child != case['child']:
            case = dict(case, child=child)
    if case['kind'] == 'sqlite' and case['parent_state'] == 'open_dirty' and (not case['child'] or case['child'][0] != 'rollback'):
        case = dict(case, child=['rollback'] + list(case['child']))
    return case


# ------------------------------------------------------------------------------------------------
def execute(case, workdir):
    """-> (findings, stats); raises J.Unjudgeable / J.HarnessBug"""
    if case['kind'] == 'sqlite':
        world = H.get_world(workdir)
        obs = H.run_in_subprocess(lambda: H.sqlite_history(case, world))
        return J.judge_sqlite(case, obs)
    if case['kind'] == 'pool':
        H.load_oracle_provider()      # imported once in this process, inherited by the forked ones
        obs = H.run_in_subprocess(lambda: H.pool_history(case))
        return J.judge_pool(case, obs)
    raise ValueError(case['kind'])


def _pool_nontrivial(ops, has=False, inherited=False):
    """some forked process calls connect() or disconnect() while its pool still holds an object inherited from an
    ancestor (has: the pool of this process holds an object; inherited: that object came through fork)"""
    for op in ops:
        if isinstance(op, str):
            if op in ('connect', 'disconnect') and inherited:
                return True
            if op == 'connect':
                has, inherited = True, False
            elif op in ('drop', 'disconnect'):
                has, inherited = False, False
        elif _pool_nontrivial(op[1], has, has):
            return True
    return False


def evaluate(ctx, case):
    try:
        findings, stats = execute(case, ctx.workdir)
    except J.Unjudgeable as e:
        ctx.inconclusive += 1
        ctx.count('inconclusive:' + str(e).split(':')[0][:30])
        return
    except J.HarnessBug as e:
        raise RuntimeError('C36 harness bug on case %s: %s' % (json.dumps(case), e))
    if case['kind'] == 'sqlite':
        nt = case['parent_state'] != 'disconnected' and stats['child_statements'] > 0
        classes = ['sqlite', 'state:' + case['parent_state'], case['order']]
        if any(not isinstance(o, str) for o in case['child']):
            classes.append('nested_fork')
        if stats['foreign_noop_calls']:
            classes.append('foreign_noop_call')
        if stats.get('faults'):
            classes.append('connect_fault')
        if case['parent_state'] == H.GEN_STATE:
            classes.append('suspended_generator')
        if case.get('db', 'file') != 'file':
            classes.append('db:' + case['db'])
    else:
        nt = _pool_nontrivial(case['ops'])
        classes = ['pool:' + case['pool']]
        if stats.get('faults'):
            classes.append('connect_fault')
    if nt:
        classes.append('nontrivial')
    ctx.case(key=case, nontrivial=nt, classes=classes,
             sample={'case': case, 'findings': [f[1] for f in findings], 'stats': stats} if nt else None)
    for kind, message in findings:
        if ctx.fail(case, message) is False:
            break           # excluded by an open known finding: the rest of this history is contaminated by it
        raise AssertionError('unreachable')


def run(ctx):
    # 1. complete grids of short histories (pool grid first: it is cheap)
    fixed = always_cases()
    for k, case in enumerate(fixed + pool_grid_cases() + grid_cases()):
        if k % ctx.nshards != ctx.shard:
            continue
        if k >= len(fixed) and ctx.tier == 'quick' and ((k // ctx.nshards) + ctx.base_seed) % 2:
            continue        # quick tier: half of the grid, the other half with the next seed (a fork costs ~50 ms here)
        ctx.check_time()
        evaluate(ctx, case)
        ctx.count('grid')

    # 2. hypothesis-drawn histories (the cheap pool histories first, so that a wall-clock stop starves neither part)
    from hypothesis import strategies as st
    pleaf = st.sampled_from(['connect', 'use', 'release', 'drop', 'disconnect', 'gc', 'connect', 'release', 'fail_next', 'connect'])
    g_script = st.lists(pleaf, min_size=1, max_size=4)
    c_script = st.lists(st.one_of(pleaf, pleaf, pleaf, st.tuples(st.just('fork'), g_script).map(list)), min_size=1, max_size=6)
    p_script = st.lists(st.one_of(pleaf, pleaf, st.tuples(st.just('fork'), c_script).map(list)), min_size=1, max_size=7)
    # fork chains of depth 2..3 with short (often empty) intermediate scripts
    inter = st.lists(pleaf, max_size=2)
    chain1 = st.tuples(inter, g_script).map(lambda t: t[0] + [['fork', t[1]]])
    chain2 = st.tuples(inter, chain1).map(lambda t: t[0] + [['fork', t[1]]])
    chain3 = st.tuples(inter, chain2).map(lambda t: t[0] + [['fork', t[1]]])
    chain_script = st.tuples(st.lists(pleaf, min_size=1, max_size=3), st.one_of(chain2, chain3), st.lists(pleaf, max_size=2)) \
        .map(lambda t: t[0] + [o for o in t[1] if not isinstance(o, str)] + t[2])
    pool_case = st.fixed_dictionaries({'kind': st.just('pool'), 'pool': st.sampled_from(['generic', 'oracle']),
                                       'ops': st.one_of(p_script, p_script, chain_script)})

    def t_pool(case):
        evaluate(ctx, case)

    leaf = st.sampled_from(['read', 'write', 'getconn', 'disconnect', 'fail_connect', 'read', 'write'])
    leaf_script = st.lists(leaf, min_size=1, max_size=3)
    sub_op = st.one_of(leaf, leaf, leaf, st.tuples(st.just('fork'), leaf_script).map(list))      # a second fork level
    sub_script = st.lists(sub_op, min_size=1, max_size=3)
    child_op = st.one_of(leaf, leaf, st.just('rollback'), st.tuples(st.just('fork'), sub_script).map(list))
    plain_case = st.fixed_dictionaries({
        'kind': st.just('sqlite'),
        'parent_state': st.sampled_from(H.PARENT_STATES),
        'order': st.sampled_from(['child_first', 'parent_first']),
        'child': st.lists(child_op, min_size=1, max_size=5),
        'parent_after': st.lists(st.sampled_from(['read', 'write', 'commit', 'end_session', 'disconnect']), max_size=4),
    }).map(normalise)
    gleaf = st.sampled_from(['gen_next', 'gen_write', 'gen_write', 'read', 'write', 'fail_connect', 'disconnect'])
    gchild_op = st.one_of(gleaf, gleaf, gleaf, st.tuples(st.just('fork'), st.lists(gleaf, min_size=1, max_size=3)).map(list))
    gen_case = st.fixed_dictionaries({
        'kind': st.just('sqlite'),
        'parent_state': st.just(H.GEN_STATE),
        'order': st.sampled_from(['child_first', 'parent_first']),
        'child': st.lists(gchild_op, min_size=1, max_size=5),
        'parent_after': st.lists(st.sampled_from(['gen_next', 'gen_write', 'read', 'write']), max_size=4),
    }).map(normalise)
    mem_case = st.fixed_dictionaries({
        'kind': st.just('sqlite'), 'db': st.sampled_from(['memory', 'sharedmemory']),
        'parent_state': st.sampled_from(['idle', 'idle', 'disconnected', 'open_read', 'open_write', 'after_commit']),
        'order': st.sampled_from(['child_first', 'parent_first']),
        'child': st.lists(child_op, min_size=1, max_size=4),
        'parent_after': st.lists(st.sampled_from(['read', 'write', 'commit', 'end_session', 'disconnect']), max_size=3),
    })
    sqlite_case = st.one_of(plain_case, plain_case, plain_case, plain_case, gen_case, mem_case)

    def t_sqlite(case):
        evaluate(ctx, case)

    # alternating rounds, so that a wall-clock stop on a loaded machine leaves both parts represented
    rounds = ctx.scale(1, 4)
    for r in range(rounds):
        ctx.run_test(t_pool, dict(case=pool_case), max_examples=ctx.scale(10, 30), name='pool_histories_%d' % r)
        if ctx.violation or ctx.extra.get('stopped_by_wall_clock'):
            return
        ctx.run_test(t_sqlite, dict(case=sqlite_case), max_examples=ctx.scale(10, 40), name='sqlite_histories_%d' % r)
        if ctx.violation or ctx.extra.get('stopped_by_wall_clock'):
            return


def replay(case):
    from vlib.runner import HOME
    wd = os.path.join(HOME, '.work', 'replay%d' % os.getpid())
    os.makedirs(wd, exist_ok=True)
    try:
        try:
            findings, stats = execute(normalise(case), wd)
        except J.Unjudgeable:
            return None
        return findings[0][1] if findings else None
    finally:
        w = H._WORLDS.pop(wd, None)
        if w is not None:
            w.db.disconnect()
        shutil.rmtree(wd, ignore_errors=True)
        try:
            os.rmdir(os.path.join(HOME, '.work'))
        except OSError:
            pass


# ------------------------------------------------------------------------------------------------
# open known findings (see known_findings.json): narrow predicates by root cause
def _fork_inside_open_session(case, message):
    """fork while a db_session of the forking process already holds a connection (SessionCache.connection): the child
    inherits local.db_session / local.db2cache, so its db_sessions are nested in the inherited one and run on the
    forking process's connection; fork detection exists only in Pool.connect().  The judge tags exactly these events:
    the connection used was held by an open db_session of its creator at the fork (the parent's session connection, or
    a connection of a child that lives inside the never-ending inherited session and forks again)."""
    return (case.get('kind') == 'sqlite' and case.get('parent_state') in J.OPEN_STATES
            and message.startswith('[inherited-session]'))


def _forked_lists(ops):
    for op in ops:
        if not isinstance(op, str):
            yield op[1]
            for x in _forked_lists(op[1]):
                yield x


def _child_disconnect_closes_parent_connection(case, message):
    """generic Pool.disconnect() in a forked process before its first connect(): pool.con is still the parent's object
    and is close()d (and released) instead of being parked in forked_connections."""
    if case.get('kind') != 'pool' or case.get('pool') != 'generic':
        return False
    if ' called close() on con@' not in message:
        return False
    for sub in _forked_lists(case['ops']):
        flat = [o for o in sub if isinstance(o, str)]
        if 'disconnect' in flat and 'connect' not in flat[:flat.index('disconnect')]:
            return True
    return False


def _fork_while_other_thread_holds_sqlite_lock(case, message):
    """SQLiteProvider.transaction_lock is a threading.Lock: if another thread of the parent holds it at the fork, the
    child's copy stays locked for ever and the child's first write transaction blocks in acquire_lock."""
    return (case.get('kind') == 'sqlite' and case.get('parent_state') == 'thread_open_write'
            and message.startswith('[deadlock]'))


def _fork_with_suspended_generator_session(case, message):
    """a @db_session generator suspended at the fork: its SessionCache (and connection) sits in the wrapper's
    db2cache_copy, not in local.db2cache, so the at-fork hook does not detach it; resumed in the child it runs on the
    parent's connection.  The judge tags exactly the events on the connection the generator session held at the fork."""
    return (case.get('kind') == 'sqlite' and case.get('parent_state') == 'gen_suspended'
            and message.startswith('[suspended-generator]'))


EXCLUSIONS = {'fork_with_suspended_generator_session': _fork_with_suspended_generator_session,
              'fork_while_other_thread_holds_sqlite_lock': _fork_while_other_thread_holds_sqlite_lock,
              'fork_inside_open_session': _fork_inside_open_session,
              'child_disconnect_closes_parent_connection': _child_disconnect_closes_parent_connection}

MANIFEST = {
    'text': 'Generated fork histories with real os.fork() on a file-backed SQLite database: parent state at the fork point '
            '(disconnected / idle pooled connection / open session after read, with uncommitted write, with unflushed object, '
            'after commit, @db_session generator suspended after a read) x child script (read, write+commit, get_connection, '
            'disconnect, rollback, a read whose first connection attempt fails once, generator resume, nested fork) x order x '
            'parent script; a complete grid of short histories plus hypothesis-drawn longer ones. A recording '
            'sqlite3.Connection subclass gives creator pid and calling pid of every statement; a pony-free judge requires '
            'that no statement is issued on a connection created by another process, that the parent session and its '
            'uncommitted write survive and commit, and that every read in a new session equals the set of writes reported '
            'committed so far. The generic Pool and OraPool are driven directly with recording fake driver objects, forks and '
            'injected driver-level connect failures (the next connect of a process raises once, then it retries).',
    'note': 'PostgreSQL/MySQL/Oracle are represented only by their pool classes on fake drivers (no server, no driver); '
            'processes are serialised by the harness (no concurrent interleavings); hangs are inconclusive, not violations, '
            'except a provable single-thread deadlock on the SQLite transaction lock; forks of multi-threaded parents '
            'and in-memory databases are not generated.',
    'technique': 'hypothesis-generated histories + small complete grid, real fork, recording connections, reference timeline model',
}
