"""C02 -- the same query over the same data gives the same answer on every dialect.

For every generated (data set, query[, ORDER BY pk + LIMIT/OFFSET]) the query text is run
  (1) live on SQLite (as C01 does),
  (2) through pony's REAL PostgreSQL and MySQL providers (translator, SQL builder, parameter adapter, converters) over stub
      driver modules and a fake DB-API driver that formats the arguments into the statement exactly as psycopg2 / MySQLdb do and
      then evaluates the statement with the dialect emulator vlib/sqlemu.py (personality tables transcribed from the PostgreSQL 16
      and MariaDB 10.11 / MySQL 8.0 manuals),
and every row multiset must satisfy C01's validity predicate against the independent reference evaluator vlib/qgen.py and be equal
to the others wherever that predicate pins multiplicities.  Trust control: the same emulator core with the `sqlite` personality is
run on every statement the live SQLite provider executed and must return exactly the rows real SQLite returned.
Oracle / CockroachDB: text level (statement lexes and parses with the personality; Oracle's ROWNUM paging wrapper, evaluated by
the emulator, selects R[offset:offset+limit] of the unpaged statement's rows R).
"""
import re, collections
from vlib import qgen, sqlemu, c02_lib, c02_gen, c02_kj
from checks import c01

ID = 'C02'
LEVEL = 'exploration'
RULE = ('A case is (data set, query, optional page): data = the C01 data sets (0-4 A, 0-6 B, 0-3 C rows, NULLs, empty strings, LIKE '
        'metacharacters; non-ASCII strings replaced, counted) plus two boolean columns derived from the rows; query = a C01 query '
        '(vlib/qgen.queries) or a single-loop query from the dialect-sensitive families of vlib/c02_gen.py (boolean attributes, '
        'constants and parameters in conditions / comparisons / coalesce / conditional expressions / bool() / int+bool arithmetic, '
        '// and % with non-negative dividend and positive constant divisor, string concatenation, slices and length-guarded '
        'indexing with constant bounds -3..4, upper/lower/strip, strip/lstrip/rstrip(chars), str(int), startswith/endswith/in '
        'with non-constant patterns, tuple comparisons, tuple [NOT] IN subquery incl. subqueries selecting the nullable column with '
        'colliding values; also as (pk, string expression) projections), optionally '
        'ordered by primary key (asc/desc) and cut by [a:b], [a:], [:b], .limit(), .page(), or built as a CHAIN of Query methods '
        '(select(x for x in E) then order_by / filter / where lambdas in several orders). Two further worlds (vlib/c02_kj.py, own '
        'plain-Python references): K = an entity with a composite primary key counted / summed / selected DISTINCT / tested with '
        '[NOT] IN subqueries through a to-one attribute, a many-to-many attribute, a one-to-many collection and as the loop variable '
        '(18 query templates x generated data with repeated references and a Required/Optional option); J = a Json attribute with '
        'flat documents (flag in true/false/0/1/empty and non-empty strings, lists, dicts) queried by chains of 1-3 order_by / '
        'filter / where lambdas (JSON truthiness, negation, comparisons, and/or) after select(...) or Entity.select(). Each case runs on '
        'live SQLite, emulated PostgreSQL and emulated MySQL (+ Oracle / CockroachDB at text level). Non-trivial = pony accepted '
        'the query on SQLite and on at least one of PostgreSQL / MySQL, that dialect was judged, and its SQL text differs from the '
        'SQLite text in more than identifier quoting, identifier case and placeholder style (i.e. a dialect-overridden builder '
        'method or a dialect branch of a monad was used); distinct by (query text, parameters, page, data hash).')
ASSUMPTIONS = ['no PostgreSQL / MySQL / Oracle server exists in the sandbox: those dialects are judged by vlib/sqlemu.py, whose '
               'relational core is cross-validated against live SQLite on every case and whose per-dialect tables are a transcription '
               'of the PostgreSQL 16, MariaDB 10.11 / MySQL 8.0 and Oracle manuals (trusted text, section cited per entry)',
               'PostgreSQL: standard_conforming_strings = on, database collation C (text ordered by code point); server type '
               'checking is modelled only for boolean vs. integer (operators, COALESCE/CASE, conditions, SUM)',
               'MySQL: default sql_mode, utf8 / utf8_general_ci (case-insensitive, PAD SPACE): a case whose outcome depends on the '
               'collation is outside the domain every backend compares exactly and is filtered (counted)',
               'drivers: psycopg2 / MySQLdb format the arguments into the statement text client-side (sqlemu.client_format)',
               'reference evaluator vlib/qgen.py (+ vlib/c02_gen.py node kinds); validity predicate checks/c01.judge']
SHARDS = {'quick': 4, 'thorough': 16}
MIN_EVALS = {'quick': 1500, 'thorough': 30000}
CLASS_FLOORS = {'accepted': 0.6, 'judged:postgres': 0.5, 'judged:mysql': 0.4, 'sqlite_emulator_agrees': 0.6}

DIALECTS = ('postgres', 'mysql')
REJECT = c01.REJECT


class EmulatorMismatch(Exception):
    """the sqlite personality of the emulator disagrees with live SQLite: a harness error (exit 2), never a violation"""


# ---------------------------------------------------------------------------------------------------------------------
def make_env(classes):
    env = c01.make_env(classes)
    env['str'] = str
    env['bool'] = bool
    return env


def chain_source(q, chain):
    """the query  x for x in E if cond  built as select(x for x in E).order_by(lambda x: ...).filter(lambda x: cond) ..."""
    var, src = q['loops'][0]
    text = 'select(%s for %s in %s)' % (var, var, src[1])
    orders = iter(['%s.id' % var, '-%s.id' % var, '%s.id' % var])
    for step in chain:
        if step == 'order':
            text += '.order_by(lambda %s: %s)' % (var, next(orders))
        else:
            text += '.%s(lambda %s: %s)' % (step, var, qgen.render(q['cond']))
    return text + '[:]'


def run_query(world, text, params, page, chain_src=None):
    """-> ('ok', rows) | ('rejected', exception name) | ('emu', (kind, detail)) | ('error', 'Name: message')"""
    from pony.orm import db_session, select, desc      # `desc` is resolved from this frame by order_by('desc(x.id)')
    genv = make_env(world.classes)
    genv.update(params)
    try:
        with db_session:
            if chain_src is not None:
                genv['select'] = select
                res = eval(compile(chain_src, '<query>', 'eval'), genv)
                return 'ok', [c01.norm_row(r) for r in res]
            qobj = select(text, genv, dict(params))
            if page is not None:
                qobj = qobj.order_by('desc(x.id)' if page['desc'] else 'x.id')
                off, lim, form = page['offset'], page['limit'], page['form']
                if form == 'slice':
                    res = qobj[off:off + lim]
                elif form == 'slice_open':
                    res = qobj[off:]
                elif form == 'limit':
                    res = qobj.limit(lim, offset=off)[:]
                elif form == 'limit_open':
                    res = qobj.limit(None, offset=off)[:]
                elif form == 'page':
                    res = qobj.page(off // lim + 1, lim)
                else:
                    res = qobj[:lim]
            else:
                res = qobj[:]
            rows = [c01.norm_row(r) for r in res]
        return 'ok', rows
    except c02_lib.EmuFailure as e:
        return 'emu', (e.kind, e.detail)
    except Exception as e:
        name = type(e).__name__
        if name in REJECT or isinstance(e, (TypeError, NotImplementedError)):
            return 'rejected', name
        inner = e
        for _ in range(4):          # pony may wrap the driver's exception
            inner = getattr(inner, 'original_exc', None) or (inner.args[0] if inner.args and isinstance(inner.args[0], Exception) else None)
            if isinstance(inner, c02_lib.EmuFailure):
                return 'emu', (inner.kind, inner.detail)
            if inner is None:
                break
        return 'error', '%s: %s' % (name, str(e)[:300])


_PH = re.compile(r'%\(p\d+\)s|%s|\?|:p\d+')


def norm_sql(sql):
    """the statement modulo identifier quoting, identifier case and placeholder style"""
    s = sql.replace('%%', '%')
    s = _PH.sub('$', s)
    return s.replace('"', '`').lower()


def expected_page(rows, page):
    rows = sorted(rows, key=lambda r: r[1], reverse=page['desc'])
    off, lim = page['offset'], page['limit']
    return rows[off:] if lim is None else rows[off:off + lim]


def pinned(q, optional):
    """does c01.judge pin the multiplicity of every row?"""
    if optional:
        return False
    res = q['result']
    if res[0] == 'obj' or qgen.is_aggregated(q):
        return True
    exprs = res[1]
    pk_vars = set()
    for r in exprs:
        if r[0] == 'objref':
            pk_vars.add(r[1])
        elif r[0] == 'attr' and r[2] == 'id':
            pk_vars.add(r[1])
    if len(exprs) == 1 and not pk_vars:
        return True
    return pk_vars >= set(v for v, src in q['loops'])


def run_family_query(world, case):
    """K / J worlds: -> ('ok', rows) | ('rejected', name) | ('emu', (kind, detail)) | ('error', text)"""
    import pony.orm as orm
    src, params = c02_kj.query_source(case)
    env = {n: getattr(orm, n) for n in ('select', 'count', 'sum', 'min', 'max', 'desc')}
    env.update(world.classes)
    genv = dict(env)
    genv.update(params)
    genv['ENV'] = env
    genv['PARAMS'] = dict(params)
    try:
        with orm.db_session:
            res = eval(compile(src, '<query>', 'eval'), genv)
            rows = [c01.norm_row(r) for r in res]
        return 'ok', rows
    except c02_lib.EmuFailure as e:
        return 'emu', (e.kind, e.detail)
    except Exception as e:
        name = type(e).__name__
        if name in REJECT or isinstance(e, (TypeError, NotImplementedError)):
            return 'rejected', name
        return 'error', '%s: %s' % (name, str(e)[:300])


def judge_bag(rows, required, optional):
    cnt, req, opt = collections.Counter(rows), collections.Counter(required), collections.Counter(optional)
    missing = req - cnt
    extra = (cnt - req) - opt
    if missing or extra:
        return 'rows differ: missing %r, unexpected %r' % (sorted(missing.elements(), key=repr)[:5], sorted(extra.elements(), key=repr)[:5])
    return None


def trust_control(ctx, world, stmts, tables, classes):
    """emulator(sqlite personality) == live SQLite on every SELECT the provider executed; a disagreement is a harness error"""
    for sql, args in stmts:
        real = world.raw(sql, args)
        try:
            cols, emu = sqlemu.Engine('sqlite', tables).run(sql, args, raw=True)
        except sqlemu.Unmodelled as e:
            ctx.count('sqlite_emulator_unmodelled')
            continue
        except (sqlemu.SqlSyntaxError, sqlemu.ServerError) as e:
            raise EmulatorMismatch('the emulator (sqlite personality) cannot run a statement live SQLite executed: %s\n%s\nargs %r'
                                   % (e, sql, args))
        same = (emu == real) if re.search(r'\bORDER BY\b', sql) else (collections.Counter(emu) == collections.Counter(real))
        if not same:
            raise EmulatorMismatch('the emulator (sqlite personality) disagrees with live SQLite\n%s\nargs %r\nemulator %r\n'
                                   'sqlite   %r\ntables %r' % (sql, args, emu, real, tables))
        ctx.extra['traces_validated_against_impl'] = ctx.extra.get('traces_validated_against_impl', 0) + 1
        classes.append('sqlite_emulator_agrees')


def check_family_case(ctx, case):
    """the K (composite keys) and J (Json attribute, chained query methods) worlds of vlib/c02_kj.py"""
    fam, data = case['family'], case['data']
    src, params = c02_kj.query_source(case)
    desc = '%s  params %r' % (src, params)
    classes = ['kind:' + fam]
    if fam == 'K':
        classes.append('K:' + case['query']['template'])
    else:
        classes.append('J:chain:' + '-'.join(st[0] for st in case['query']['steps']))
    key = [fam, src, sorted(params.items()), data]
    ref = c02_kj.reference(case)
    lw = c02_kj.live_world(fam, data['opts'])
    lw.reset(data)
    status, rows_sqlite = run_family_query(lw, case)
    stmts = list(lw.log)
    if status != 'ok':
        if status == 'rejected':
            ctx.rejected += 1
            classes.append('rejected:sqlite:' + rows_sqlite)
            ctx.case(key=key, nontrivial=False, classes=classes)
            return
        ctx.fail(dict(case, dialect='sqlite', kind='error'), 'sqlite: %s raises %s' % (desc, rows_sqlite))
        ctx.case(key=key, nontrivial=False, classes=classes)
        return
    classes.append('accepted')
    trust_control(ctx, lw, stmts, c02_kj.tables(fam, lw.classes, data, 'sqlite'), classes)
    sqlite_sql = stmts[0][0] if stmts else ''
    results = {'sqlite': rows_sqlite}
    sent, differs = {'sqlite': sqlite_sql}, {}
    for d in DIALECTS:
        w = c02_kj.dialect_world(fam, d, data['opts'])
        w.reset(data)
        st, rows = run_family_query(w, case)
        rec = w.pool.statements[0] if w.pool.statements else None
        if st == 'rejected' and rec is not None and rec['rows'] is not None:
            st, rows = 'error', '%s raised while the rows the server returned were converted' % rows
        if rec is not None:
            sent[d] = rec['sent'] or rec['sql']
            differs[d] = norm_sql(rec['sql']) != norm_sql(sqlite_sql)
        if st == 'ok':
            results[d] = rows
            classes.append('judged:' + d)
        elif st == 'rejected':
            ctx.rejected += 1
            classes.append('rejected:%s:%s' % (d, rows))
        elif st == 'emu':
            kind, detail = rows
            if kind == 'collation':
                classes.append('filtered:mysql_collation_sensitive')
            elif kind == 'unmodelled':
                ctx.inconclusive += 1
                classes.append('unmodelled:' + d)
                ctx.count('unmodelled:%s:%s' % (d, re.sub(r'[^A-Za-z_():/%| ]+', '', detail.split(': ', 1)[-1])[:40]))
            else:
                ctx.fail(dict(case, dialect=d, kind=kind),
                         '%s: pony accepted  %s  but the %s: %s\n%s'
                         % (d, desc, 'statement is not valid SQL of the dialect' if kind == 'syntax' else 'server refuses the statement',
                            detail, sent.get(d)))
        else:
            ctx.fail(dict(case, dialect=d, kind='error'), '%s: %s runs on SQLite but raises on %s: %s\n%s' % (d, desc, d, rows, sent.get(d)))
    if ref is None:
        ctx.inconclusive += 1
        classes.append('unspecified_rows')
    else:
        required, optional = ref
        bad = set()
        for d, rows in results.items():
            msg = judge_bag(rows, required, optional)
            if msg:
                bad.add(d)
                ctx.fail(dict(case, dialect=d, kind='rows'),
                         '%s: %s: %s\n  sqlite returned %r\n  %s returned %r\n  reference %r (optional %r)\n%s'
                         % (d, desc, msg, rows_sqlite[:8], d, rows[:8], required[:8], optional[:4], sent.get(d)))
        if not optional and 'sqlite' not in bad:
            for d in DIALECTS:
                if d in results and d not in bad and collections.Counter(results[d]) != collections.Counter(rows_sqlite):
                    ctx.fail(dict(case, dialect=d, kind='rows'), '%s: %s returns %r on SQLite but %r on %s\n%s'
                             % (d, desc, rows_sqlite[:8], results[d][:8], d, sent.get(d)))
    for d in DIALECTS:
        if differs.get(d):
            classes.append('text_differs:' + d)
    nt = ref is not None and any(d in results and differs.get(d) for d in DIALECTS)
    sample = None
    if nt:
        sample = {'family': fam, 'query': src, 'params': params, 'result_size': len(rows_sqlite),
                  'sql': {d: (sent.get(d) or '').split('\n') for d in ('sqlite',) + DIALECTS if d == 'sqlite' or differs.get(d)}}
    ctx.case(key=key, nontrivial=nt, classes=classes, sample=sample)


def check_case(ctx, case):
    if case.get('family'):
        return check_family_case(ctx, case)
    data, nrepl = c02_gen.restrict_data(case['data'])
    q = dict(case['query'])
    tree, nrepl2 = c02_gen.restrict_tree([q.get('cond'), q['result']])
    q['cond'], q['result'] = tree
    page = case.get('page')
    if nrepl + nrepl2:
        ctx.count('filtered:non_ascii_strings_replaced', nrepl + nrepl2)
    text = qgen.render_query(q)
    params = qgen.query_params(q)
    mirror = c02_lib.extend_mirror(qgen.Mirror(data))
    required, optional, unspecified = qgen.ref_rows(q, mirror)
    feats = qgen.features([q.get('cond'), q['result']])
    chain = case.get('chain')
    chain_src = chain_source(q, chain) if chain else None
    desc = '%s  params %r%s' % (chain_src or text, params, '  page %r' % (page,) if page else '')
    classes = ['kind:' + ('chain' if chain else 'paged' if page else 'extra' if feats & EXTRA_FEATS or uses_bool(q) else 'plain')]
    fail_case = {'data': case['data'], 'query': case['query'], 'page': page}
    if chain:
        fail_case['chain'] = chain
        classes.append('chain:' + '-'.join(chain))

    # ---- (1) live SQLite
    lw = c02_lib.LiveWorld.get(data['opts'])
    lw.reset(data)
    status, rows_sqlite = run_query(lw, text, params, page, chain_src)
    stmts = list(lw.log)
    if status != 'ok':
        if status == 'rejected':
            ctx.rejected += 1
            classes.append('rejected:sqlite:' + rows_sqlite)
        else:
            classes.append('live_sqlite_error')        # C01's business (e.g. OperationalError for an m2m aggregate), not judged here
        ctx.case(key=[text, sorted(params.items()), page, chain, data], nontrivial=False, classes=classes)
        return
    classes.append('accepted')

    # ---- trust control: emulator(sqlite personality) == live SQLite on every SELECT the provider executed
    tables = c02_lib.tables_for(lw.classes, data, int)
    for sql, args in stmts:
        real = lw.raw(sql, args)
        try:
            cols, emu = sqlemu.Engine('sqlite', tables).run(sql, args, raw=True)
        except sqlemu.Unmodelled as e:
            ctx.count('sqlite_emulator_unmodelled')
            continue
        except (sqlemu.SqlSyntaxError, sqlemu.ServerError) as e:
            raise EmulatorMismatch('the emulator (sqlite personality) cannot run a statement live SQLite executed: %s\n%s\nargs %r'
                                   % (e, sql, args))
        same = (emu == real) if re.search(r'\bORDER BY\b', sql) else (collections.Counter(emu) == collections.Counter(real))
        if not same:
            raise EmulatorMismatch('the emulator (sqlite personality) disagrees with live SQLite\n%s\nargs %r\nemulator %r\n'
                                   'sqlite   %r\ntables %r' % (sql, args, emu, real, tables))
        ctx.extra['traces_validated_against_impl'] = ctx.extra.get('traces_validated_against_impl', 0) + 1
        classes.append('sqlite_emulator_agrees')
    sqlite_sql = stmts[0][0] if stmts else ''

    # ---- (2) PostgreSQL / MySQL through the real providers over the fake driver
    results = {'sqlite': rows_sqlite}
    sent = {}
    differs = {}
    for d in DIALECTS:
        w = c02_lib.DialectWorld.get(d, data['opts'])
        w.reset(data)
        st, rows = run_query(w, text, params, page, chain_src)
        rec = w.pool.statements[0] if w.pool.statements else None
        if st == 'rejected' and rec is not None and rec['rows'] is not None:
            st, rows = 'error', '%s raised while the rows the server returned were converted' % rows
        if rec is not None:
            sent[d] = rec['sent'] or rec['sql']
            differs[d] = norm_sql(rec['sql']) != norm_sql(sqlite_sql)
        if st == 'ok':
            results[d] = rows
            classes.append('judged:' + d)
        elif st == 'rejected':
            ctx.rejected += 1
            classes.append('rejected:%s:%s' % (d, rows))
        elif st == 'emu':
            kind, detail = rows
            if kind == 'collation':
                classes.append('filtered:mysql_collation_sensitive')
            elif kind == 'unmodelled':
                ctx.inconclusive += 1
                classes.append('unmodelled:' + d)
                ctx.count('unmodelled:%s:%s' % (d, re.sub(r'[^A-Za-z_():/%| ]+', '', detail.split(': ', 1)[-1])[:40]))
            elif kind == 'syntax':
                ctx.fail(dict(fail_case, dialect=d, kind='syntax'),
                         '%s: pony accepted  %s  but the statement it sends is not valid %s SQL: %s\n%s'
                         % (d, desc, d, detail, sent.get(d)))
            else:
                ctx.fail(dict(fail_case, dialect=d, kind='server'),
                         '%s: pony accepted  %s  but the server refuses the statement: %s\n%s' % (d, desc, detail, sent.get(d)))
        else:
            ctx.fail(dict(fail_case, dialect=d, kind='error'),
                     '%s: query  %s  runs on SQLite but raises on %s: %s\n%s' % (d, desc, d, rows, sent.get(d)))

    # ---- (3) oracle
    if unspecified:
        ctx.inconclusive += 1
        classes.append('unspecified_rows')
    else:
        misjudged = set()         # dialects whose rows fell under an open known finding
        if page is None and classes[0] == 'kind:plain' and c01.judge(q, rows_sqlite, required, optional):
            # a query of C01's own vocabulary whose SQLite answer already differs from the reference: that is C01's subject
            # (dialect independent); here only the agreement of the dialects with SQLite is checked
            classes.append('c01_domain:sqlite_differs_from_reference')
            ctx.count('c01_domain:' + text[:80])
            for d in DIALECTS:
                if d in results and collections.Counter(results[d]) != collections.Counter(rows_sqlite):
                    ctx.fail(dict(fail_case, dialect=d, kind='rows'),
                             '%s: query  %s  returns %r on SQLite but %r on %s\n%s'
                             % (d, desc, rows_sqlite[:8], results[d][:8], d, sent.get(d)))
            results = {}
            misjudged.add('sqlite')
        for d, rows in results.items():
            if page is not None:
                msg = None
                if not optional:
                    exp = expected_page(required, page)
                    if rows != exp:
                        msg = 'ordered page differs: got %r, expected %r' % (rows[:8], exp[:8])
            else:
                msg = c01.judge(q, rows, required, optional)
            if msg:
                misjudged.add(d)
                ctx.fail(dict(fail_case, dialect=d, kind='rows'),
                         '%s: query  %s: %s\n  sqlite returned %r\n  %s returned %r\n  reference %r (optional %r)\n%s'
                         % (d, desc, msg, rows_sqlite[:8], d, rows[:8], required[:8], optional[:4], sent.get(d, sqlite_sql)))
        if page is not None or pinned(q, optional):
            for d in DIALECTS:
                if d in results and d not in misjudged and 'sqlite' not in misjudged:
                    same = (results[d] == rows_sqlite) if page is not None else \
                        (collections.Counter(results[d]) == collections.Counter(rows_sqlite))
                    if not same:
                        ctx.fail(dict(fail_case, dialect=d, kind='rows'),
                                 '%s: query  %s  returns %r on SQLite but %r on %s\n%s'
                                 % (d, desc, rows_sqlite[:8], results[d][:8], d, sent.get(d)))

    # ---- (4) Oracle / CockroachDB, text level
    if not chain:
        text_level(ctx, fail_case, data, text, params, page, desc, classes)

    nt = any(d in results and differs.get(d) for d in DIALECTS) and not unspecified
    for d in DIALECTS:
        if differs.get(d):
            classes.append('text_differs:' + d)
    for f in sorted(feats & (EXTRA_FEATS | {'slice', 'index', 'upper', 'lower', 'strip', 'lstrip', 'rstrip', 'len', 'in', 'subin',
                                            'exists', 'countcoll', 'aggrattr', 'aggrgen', 'gcount', 'gaggr', 'contains',
                                            'startswith', 'endswith', 'coalesce', 'ifexp'})):
        classes.append('f:' + f)
    sample = None
    if nt:
        sample = {'query': text, 'params': params, 'page': page, 'rows_A': len(data['A']), 'rows_B': len(data['B']),
                  'result_size': len(rows_sqlite),
                  'sql': {d: (sent.get(d) or '').split('\n') for d in DIALECTS if differs.get(d)}}
    ctx.case(key=[text, sorted(params.items()), page, chain, data], nontrivial=nt, classes=classes, sample=sample)


EXTRA_FEATS = {'stripc', 'tostr', 'tcmp', 'tsubin', 'boolfn'}


def uses_bool(q):
    def walk(e):
        if isinstance(e, list):
            if e and e[0] in ('attr', 'nav') and e[-1] in ('f', 'of'):
                return True
            if e and e[0] == 'bin' and e[1] in ('//', '%'):
                return True
            return any(walk(x) for x in e)
        return isinstance(e, bool)
    return walk([q.get('cond'), q['result']])


def text_level(ctx, fail_case, data, text, params, page, desc, classes):
    # CockroachDB: pony's CRSQLBuilder text must lex and parse with the PostgreSQL lexer
    w = c02_lib.DialectWorld.get('cockroach', data['opts'])
    w.reset(data)
    st, rows = run_query(w, text, params, page)
    if st == 'emu' and rows[0] == 'syntax':
        ctx.fail(dict(fail_case, dialect='cockroach', kind='syntax'),
                 'cockroach: pony accepted  %s  but the statement does not lex/parse: %s\n%s'
                 % (desc, rows[1], w.pool.statements[0]['sql'] if w.pool.statements else None))
    elif st in ('ok', 'emu'):
        classes.append('text:cockroach_parsed')
    # Oracle: lexes with the Oracle personality; ROWNUM paging selects R[offset:offset+limit]
    w = c02_lib.DialectWorld.get('oracle', data['opts'])
    w.reset(data)
    st, rows = run_query(w, text, params, page)
    if st == 'rejected':
        classes.append('rejected:oracle:' + rows)
        return
    if st == 'error':
        classes.append('text:oracle_error')
        ctx.count('oracle_error:' + rows.split(':')[0])
        return
    if st == 'emu':
        kind, detail = rows
        if kind == 'syntax' and detail.startswith('LEX'):
            ctx.fail(dict(fail_case, dialect='oracle', kind='syntax'),
                     'oracle: pony accepted  %s  but the statement does not lex: %s\n%s' % (desc, detail, w.pool.statements[0]['sql']))
        classes.append('text:oracle_lexed' if kind != 'syntax' else 'text:oracle_not_parsed')
        return
    classes.append('text:oracle_lexed')
    if page is None:
        return
    paged_sql = w.pool.statements[0]['sql']
    w.reset(data)
    st2, full = run_query(w, text, params, dict(page, form='slice_open', offset=0, limit=None))
    if st2 != 'ok':
        classes.append('text:oracle_unpaged_not_evaluated')
        return
    off, lim = page['offset'], page['limit']
    exp = full[off:] if lim is None else full[off:off + lim]
    classes.append('text:oracle_rownum_checked')
    if rows != exp:
        ctx.fail(dict(fail_case, dialect='oracle', kind='rownum'),
                 'oracle: %s: the ROWNUM wrapper selects %r but rows[%r:%r] of the unpaged statement are %r (all rows %r)\n%s'
                 % (desc, rows, off, None if lim is None else off + lim, exp, full, paged_sql))


# ---------------------------------------------------------------------------------------------------------------------
def run(ctx):
    from hypothesis import strategies as st

    def t(case):
        check_case(ctx, case)
    both = st.integers(0, 7).flatmap(lambda i: c02_kj.cases() if i < 2 else c02_gen.cases())
    ctx.run_test(t, dict(case=both), max_examples=ctx.scale(900, 4500), name='C02')


def replay(case):
    class Ctx(object):
        inconclusive = 0
        rejected = 0
        msg = None

        def __init__(self):
            self.extra = {}

        def count(self, *a, **k):
            pass

        def case(self, *a, **k):
            pass

        def fail(self, c, message):
            if self.msg is None and (case.get('dialect') is None or c.get('dialect') == case.get('dialect')):
                self.msg = message
    c = Ctx()
    check_case(c, case)
    return c.msg


# ---------------------------------------------------------------------------------------------------------------------
# open known findings (narrow, by root cause)
# ---------------------------------------------------------------------------------------------------------------------
def _walk(e):
    if isinstance(e, list):
        yield e
        for x in e:
            for y in _walk(x):
                yield y


def _nodes(case):
    q = case.get('query') or {}
    return list(_walk([q.get('cond'), q.get('result')]))


def _is_bool_expr(e):
    if not isinstance(e, list) or not e:
        return False
    if e[0] in ('attr', 'nav'):
        return e[-1] in ('f', 'of')
    if e[0] == 'const':
        return isinstance(e[1], bool)
    if e[0] == 'param':
        return isinstance(e[2], bool)
    if e[0] == 'coalesce':
        return _is_bool_expr(e[1]) and _is_bool_expr(e[2])
    if e[0] == 'ifexp':
        return _is_bool_expr(e[2]) and _is_bool_expr(e[3])
    return False


def _pg_not_of_nullable_bool_expression(case, message):
    """PostgreSQL: `not <nullable boolean expression that is not a plain attribute>` is rendered NOT COALESCE(expr, true), which is
    false for NULL, while Python (not None) and the other dialects (COALESCE(expr, 0) = 0) give true (NumericMixin.negate)"""
    return case.get('dialect') == 'postgres' and any(
        n and n[0] == 'not' and isinstance(n[1], list) and n[1][0] == 'truth' and isinstance(n[1][1], list)
        and n[1][1][0] in ('coalesce', 'ifexp') and _is_bool_expr(n[1][1]) for n in _nodes(case))


def _mysql_strip_chars_is_one_string(case, message):
    """MySQL: s.strip(chars) is rendered TRIM(BOTH chars FROM s), which removes repetitions of the STRING chars, not of the
    characters in it; differs from Python and the other dialects as soon as chars has more than one character"""
    return case.get('dialect') == 'mysql' and any(n and n[0] == 'stripc' and len(n[3]) > 1 for n in _nodes(case))


def _mysql_floordiv_is_decimal_division(case, message):
    """MySQL: a // b is rendered (a / b), which is decimal division in MySQL (7 / 2 = 3.5000)"""
    return case.get('dialect') == 'mysql' and any(n and n[0] == 'bin' and n[1] == '//' for n in _nodes(case))


def _oracle_limit_zero_returns_everything(case, message):
    """Oracle: OraBuilder.SELECT tests `not limit`, so LIMIT 0 (q[:0], q[2:2], limit(0)) is taken for "no limit" """
    return case.get('dialect') == 'oracle' and (case.get('page') or {}).get('limit') == 0


def _pg_negative_substring_length(case, message):
    """shared root cause with C25-pg-negative-substring-length: constant slice bounds of equal sign with stop < start"""
    return case.get('dialect') == 'postgres' and 'negative substring length' in message and any(
        n and n[0] == 'slice' and n[2] is not None and n[3] is not None and n[3] < n[2] and (n[2] >= 0) == (n[3] >= 0)
        for n in _nodes(case))


def _mysql_generic_negative_start_slice(case, message):
    """shared root cause with C25-generic-negative-start-*: the generic path hands a negative slice start to substr() as is"""
    return case.get('dialect') == 'mysql' and any(n and n[0] == 'slice' and n[2] is not None and n[2] < 0 for n in _nodes(case))


def _sqlite_tuple_le_ge_expansion(case, message):
    """SQLite (no row values): (a, b) <= (c, d) is expanded to a <= c OR a = c AND b <= d: the non-last positions must compare
    strictly (CmpMonad.getsql)"""
    return case.get('dialect') == 'sqlite' and any(n and n[0] == 'tcmp' and n[1] in ('<=', '>=') for n in _nodes(case))


def _sqlite_composite_m2m_count_is_per_row(case, message):
    """SQLite: count() of a many-to-many collection whose items have a composite key is rendered as a correlated per-row subquery
    (SELECT COUNT(*) FROM (SELECT DISTINCT ...)) instead of an aggregate of the query: wrong as soon as the query is not grouped by
    the owner's key (PostgreSQL / MySQL: COUNT(DISTINCT ...) over the LEFT JOIN)"""
    return (case.get('family') == 'K' and case.get('dialect') == 'sqlite'
            and (case.get('query') or {}).get('template') in ('count_rooms', 'g_count_rooms'))


EXCLUSIONS = {
    'sqlite_composite_m2m_count_is_per_row': _sqlite_composite_m2m_count_is_per_row,
    'pg_negative_substring_length': _pg_negative_substring_length,
    'mysql_generic_negative_start_slice': _mysql_generic_negative_start_slice,
    'sqlite_tuple_le_ge_expansion': _sqlite_tuple_le_ge_expansion,
    'pg_not_of_nullable_bool_expression': _pg_not_of_nullable_bool_expression,
    'mysql_strip_chars_is_one_string': _mysql_strip_chars_is_one_string,
    'mysql_floordiv_is_decimal_division': _mysql_floordiv_is_decimal_division,
    'oracle_limit_zero_returns_everything': _oracle_limit_zero_returns_everything,
}

MANIFEST = {
    'text': 'Every generated (data set, query, optional ORDER BY pk + LIMIT/OFFSET or method chain) of the C01 space plus '
            'dialect-sensitive families (booleans, // and %, strip(chars), str(), tuple comparisons, tuple [NOT] IN subquery over '
            'nullable columns, composite-key aggregates, JSON items in chained order_by/filter/where) is run live on SQLite and through '
            "pony's real PostgreSQL and MySQL providers over a fake DB-API driver that formats arguments like psycopg2/MySQLdb and "
            'evaluates the statement with a dialect emulator (tokenizer + Pratt parser + three-valued executor; per-dialect tables '
            'transcribed from the PostgreSQL 16 and MariaDB 10.11/MySQL 8.0 manuals). All row multisets must satisfy the C01 validity '
            'predicate against the independent reference evaluator and agree with each other; a statement the dialect grammar or a '
            'modelled server type rule rejects is a violation. Oracle and CockroachDB statements must lex/parse and the Oracle ROWNUM '
            'wrapper must select rows[offset:offset+limit].',
    'note': 'No PostgreSQL/MySQL/Oracle server exists in the sandbox: those dialects are an emulation whose relational core is '
            'cross-validated against live SQLite on every case, while the per-dialect operator/function tables are trusted text; '
            'anything outside the tables is counted as inconclusive, never judged. Collation-dependent MySQL outcomes and non-ASCII '
            'text are filtered (counted). JSON beyond flat key access / truthiness / scalar comparison, array and date/time operators, '
            'AVG, GROUP_CONCAT and server type checking beyond boolean-vs-integer are not covered; Oracle/CockroachDB are text '
            'level only.',
    'technique': 'differential property-based testing across dialects (hypothesis) with a reference evaluator and a cross-validated '
                 'SQL dialect emulator as the missing servers',
}
