"""C07 Stored attribute values read back unchanged for every type.

Live part (SQLite): hypothesis draws a declaration set -- one wide entity with an attribute per type slot (bool, int of
every size / unsigned, float, Decimal of several precision/scale, str with max_len / autostrip, LongStr, bytes, date,
time / datetime / timedelta with precision options, UUID, Json, IntArray / StrArray / FloatArray; Required or Optional,
nullable or not, lazy or not) -- and for every attribute a value from its full domain (extremes included) plus, for
most of them, a second value assigned later (an independent one, or a minimal change of the stored one).  One row is written; after flush() the writing session's view of every attribute
is recorded.  Oracle, exactly as the property states it:
  fresh   a fresh db_session reads E[pk].attr == the recorded value, same type (deep through Json / arrays)
  select  select((x.id, x.attr, ...) for x in E) returns the recorded value, same type
  param   select(x.id for x in E if x.attr == <recorded value>) finds the row (exactly comparable types; not float)
The second value is assigned in the same session or in a later one (drawn) and judged the same way.

Pure part: round trips of the conversion helpers of the providers that cannot run here (no server, no driver):
timedelta2str/str2timedelta, datetime2timestamp/timestamp2datetime, the MySQL conversion table Pony registers
(timedelta encoder, TIME / DATETIME / TIMESTAMP decoders incl. mysql.str2datetime), MySQLTimeConverter.sql2py,
OraTimeConverter py2sql/sql2py, UuidConverter, JsonConverter (generic and Oracle), oracle.to_decimal/to_int_or_decimal.
The provider modules are imported over the stub driver packages in vlib/stubs.
"""
import os, shutil, tempfile, itertools

from vlib import c07_lib as lib
from vlib.runner import Violation

ID = 'C07'
LEVEL = 'exploration'
RULE = ('live: one case = one (attribute declaration, value, stage) triple written to SQLite inside a drawn wide entity '
        '(23 type slots, each kept with p=0.8; options drawn per slot) and judged by three observations (fresh session '
        'E[pk].attr, select(x.attr), ==-parameter lookup) against the value the writing session holds after flush; stage = '
        'create (constructor value) or update (second value assigned in the same or a later session; in a quarter of the '
        'attributes the second value is a minimal change of the stored one: +-1..4 ulps / relative 1e-15..1e-9 / sign flip for '
        'floats, one unit at or below the scale / precision for Decimal and time types, +-n for ints, one character / byte / item '
        'more, less or different for text, bytes, Json and arrays, or the same value again). Declarations also draw lazy=True '
        '(3 in 10; the column is then loaded by its own SELECT on first access) and float tolerance (default, None, 1e-6). Half of the '
        'str/LongStr attributes of a wide entity hold the textual form of a sibling attribute of another type in the same row (ISO '
        'date/time/datetime text truncated to the declared precision, compact JSON of Json/array values, str()/repr()/hex of the '
        'others; siblings that SQLite keeps as text are preferred 3:1), when it fits max_len. Values come from the '
        'full domain of the type plus an explicit list of extremes (size bounds, int64 bounds, +-0.0, subnormal/huge/inf floats, '
        'Decimal at and beyond scale and at full precision, year 1/999/9999, microseconds, negative and huge timedeltas, empty '
        'and non-UTF8 bytes, NUL/quote/non-BMP text, nested Json with unicode keys, empty arrays). pure: one case = one '
        '(codec, value) pair round-tripped through a provider helper. Non-trivial = the stored value is not representable '
        'unchanged in the naive SQL type: fraction digits at/beyond scale or full precision, non-integer/huge/signed-zero '
        'float, |int| >= 2**31 or at a size bound, non-ASCII/control/quote/empty/padded text, empty/non-UTF8/NUL bytes, year < 1000 '
        'or >= 9000, non-zero microseconds, negative or >= 10000-day timedelta, any UUID, nested/non-ASCII/float Json, empty or '
        'extreme arrays; every update to a minimal change of the stored value; every text that echoes a sibling. Distinct by (kind, options, Required/Optional, '
        'lazy, value, stage, previous value for minimal changes) resp. (codec, value). Float NaN, '
        'timezone-aware datetimes, top-level Json scalars and Decimal values wider than the declared precision are not generated.')
ASSUMPTIONS = ['SQLite 3.40 live through pony.orm.dbproviders.sqlite (in-memory; 1 in 16 examples on a file database with a new '
               'connection per session)',
               'Python ==, type() and the stdlib datetime/decimal/uuid/json types are the reference for "equals"; floats compare '
               'by == (so -0.0 equals 0.0)',
               'MySQL/PostgreSQL/Oracle servers and drivers are absent: for them only the pure helpers are exercised, imported over '
               'stub driver modules (vlib/stubs); the text formats a MySQL server sends for TIME/DATETIME columns are transcribed '
               'from the MySQL manual']
SHARDS = {'quick': 4, 'thorough': 16}
MIN_EVALS = {'quick': 8000, 'thorough': 150000}
CLASS_FLOORS = dict([('k:' + k, 0.008) for k in lib.KINDS] + [('codec', 0.05), ('stage:update', 0.1), ('lazy', 0.05), ('text_echo', 0.01),
                                                                   ('update_near', 0.02)])

_counter = itertools.count(1)


def _unattributed_message(spec, u):
    return '%s(%s %r): unexpected %s during %s/%s: %s' % (spec['cls'], spec['kind'], spec['opts'], type(u.exc).__name__,
                                                         u.stage, u.phase, u.exc)


def _account(ctx, specs, ex, evaluated, outcomes, mode):
    for (i, stage, seen) in evaluated:
        s = specs[i]
        value = s['v1'] if stage == 'create' else s['v2']
        key = {'k': s['kind'], 'o': s['opts'], 'c': s['cls'], 'v': lib.enc(s['kind'], value), 's': stage,
               'l': s.get('lazy')}
        try:
            nt = lib.nontrivial(s['kind'], s['opts'], seen.value)
        except Exception:
            nt = lib.nontrivial(s['kind'], s['opts'], value)
        classes = ['k:' + s['kind'], 'stage:' + stage, mode]
        if s.get('lazy'): classes.append('lazy')
        if s.get('echo'):
            # a text attribute holding the textual form of a sibling attribute's value (same row, other column type)
            classes.append('text_echo')
            classes.append('text_echo:' + s['echo'])
            key['e'] = s['echo']
            nt = True
        if stage == 'update' and s.get('v2_mode') == 'near':
            # the stored row already holds a value that differs minimally (or not at all) from the one assigned
            classes.append('update_near')
            key['p'] = lib.enc(s['kind'], s['v1'])
            nt = True
        if value is None: classes.append('null')
        if ex['file_db']: classes.append('file_db')
        if stage == 'update': classes.append('update_same_session' if ex['upd_same'] else 'update_later_session')
        ctx.case(key=key, nontrivial=nt, classes=classes,
                 sample={'attr': '%s(%s, %r%s)' % (s['cls'], s['kind'], s['opts'], ', lazy=%r' % s['lazy'] if s.get('lazy') is not None else ''),
                         'stage': stage, 'value': lib.enc(s['kind'], value), 'seen_after_flush': seen.show(),
                         'previous': lib.enc(s['kind'], s['v1']) if stage == 'update' else None})
    for o in outcomes:
        i = o['i']
        case = lib.case_of(specs[i], ex['upd_same'], ex['file_db'], o)
        if len(specs) > 1 and ctx.excluded_by(case, o['message']) is None and not replay(case):
            # not reproducible with this attribute alone: the failure depends on the sibling columns -> keep them in the case
            case = lib.case_of(specs[i], ex['upd_same'], ex['file_db'], o, before=specs[:i], after=specs[i + 1:])
            ctx.count('failure_needs_siblings')
        ctx.fail(case, o['message'])


def _filename(ctx, ex):
    if not ex['file_db']:
        return None
    return os.path.join(ctx.workdir, 'c07_%d.sqlite' % next(_counter))


def _single(ctx, s, ex):
    try:
        evaluated, outcomes = lib.evaluate([s], ex['upd_same'], _filename(ctx, ex))
    except lib.Rejected:
        ctx.rejected += 1
        ctx.count('rejected:' + s['kind'])
        return
    except lib.Unattributed as u:
        case = lib.case_of(s, ex['upd_same'], ex['file_db'])
        case['stage'], case['check'] = u.stage, 'error'
        case['got'] = {'type': type(u.exc).__name__, 'repr': repr(u.exc), 'str': str(u.exc)}
        ctx.case(key=case, nontrivial=True, classes=['k:' + s['kind'], 'error'])
        ctx.fail(case, _unattributed_message(s, u))
        return
    _account(ctx, [s], ex, evaluated, outcomes, 'single')


def run(ctx):
    S = lib._strategies()
    st = S['st']

    def wide(ex):
        specs = ex['specs']
        if not specs:
            return
        try:
            evaluated, outcomes = lib.evaluate(specs, ex['upd_same'], _filename(ctx, ex))
        except (lib.Rejected, lib.Unattributed):
            # cannot be tied to one attribute of the wide entity: judge every attribute on its own
            ctx.count('wide_fallback')
            ex1 = dict(ex, file_db=False)
            for s in specs:
                _single(ctx, s, ex1)
            return
        ctx.count('wide_entities')
        ctx.count('wide_attributes', len(specs))
        _account(ctx, specs, ex, evaluated, outcomes, 'wide')

    ctx.run_test(wide, {'ex': S['wide_example']()}, max_examples=ctx.scale(200, 700), name='wide_entity')
    if ctx.violation is not None:
        return

    # ---- pure codecs ------------------------------------------------------------------------------
    mysql_lim = lib.timedelta(hours=838, minutes=59, seconds=59)
    td_any = st.one_of(st.timedeltas(), st.timedeltas(min_value=-lib.timedelta(days=2), max_value=lib.timedelta(days=2)),
                       st.sampled_from([lib.timedelta(0), lib.timedelta(microseconds=-1), lib.timedelta(microseconds=1),
                                        lib.timedelta(seconds=-1), lib.timedelta(days=-1), -mysql_lim, mysql_lim,
                                        lib.timedelta.min, lib.timedelta.max]))
    td_mysql = st.one_of(st.timedeltas(min_value=-mysql_lim, max_value=mysql_lim),
                         st.timedeltas(min_value=-lib.timedelta(seconds=2), max_value=lib.timedelta(seconds=2)))
    fsp = st.integers(0, 6)
    dts = st.one_of(st.datetimes(), st.sampled_from([lib.dt_datetime(1, 1, 1), lib.dt_datetime(1, 1, 1, 0, 0, 0, 1),
                                                      lib.dt_datetime(9999, 12, 31, 23, 59, 59, 999999),
                                                      lib.dt_datetime(999, 12, 31, 23, 59, 59, 100000),
                                                      lib.dt_datetime(2000, 2, 29, 0, 0, 0, 10)]))
    times = st.one_of(st.times(), st.sampled_from([lib.time(0, 0, 0), lib.time(23, 59, 59, 999999), lib.time(0, 0, 0, 1),
                                                   lib.time(12, 0, 0, 500000)]))
    decs = st.decimals(allow_nan=False, allow_infinity=False, min_value=-10 ** 20, max_value=10 ** 20, places=None)
    json_any = st.one_of(S['json_top'], st.integers(-5, 5), st.text(S['text_chars'], max_size=5), st.booleans(),
                         st.floats(allow_nan=False, allow_infinity=False))

    def e(kind):
        return lambda v: lib.enc(kind, v)
    codec_cases = st.one_of(
        st.tuples(st.just('timedelta_str'), st.fixed_dictionaries({'td': td_any.map(e('timedelta'))})),
        st.tuples(st.just('mysql_timedelta_param'), st.fixed_dictionaries({'td': td_mysql.map(e('timedelta'))})),
        st.tuples(st.just('mysql_time_text'), st.fixed_dictionaries({'td': td_mysql.map(e('timedelta')), 'fsp': fsp})),
        st.tuples(st.just('timestamp'), st.fixed_dictionaries({'dt': dts.map(e('datetime'))})),
        st.tuples(st.just('mysql_datetime_text'), st.fixed_dictionaries({'dt': dts.map(e('datetime')), 'fsp': fsp})),
        st.tuples(st.just('mysql_time_attr'), st.fixed_dictionaries({'t': times.map(e('time')), 'fsp': fsp})),
        st.tuples(st.just('ora_time'), st.fixed_dictionaries({'t': times.map(e('time'))})),
        st.tuples(st.just('uuid_bytes'), st.fixed_dictionaries({'u': st.uuids().map(e('uuid'))})),
        st.tuples(st.just('json_text'), st.fixed_dictionaries({'j': json_any})),
        st.tuples(st.just('ora_number'), st.fixed_dictionaries({'d': decs.map(e('decimal')), 'comma': st.booleans()})),
        st.tuples(st.just('ora_bool'), st.fixed_dictionaries({'b': st.booleans()})),
    )

    def codec(c):
        name, value = c
        case = {'kind': 'codec', 'codec': name, 'value': value}
        try:
            nt, sample, msg = lib.codec_check(name, value)
        except Exception as exc:
            ctx.case(key=case, nontrivial=True, classes=['codec', 'codec:' + name])
            ctx.fail(case, 'codec %s raised %s: %s on %r' % (name, type(exc).__name__, exc, value))
            return
        ctx.case(key=case, nontrivial=nt, classes=['codec', 'codec:' + name], sample=dict(sample, codec=name))
        if msg:
            ctx.fail(case, msg)

    ctx.run_test(codec, {'c': codec_cases}, max_examples=ctx.scale(1200, 5000), name='codecs')


def replay(case):
    """re-execute one stored case without hypothesis; returns the violation message or None"""
    if case.get('kind') == 'codec':
        try:
            nt, sample, msg = lib.codec_check(case['codec'], case['value'])
        except Exception as exc:
            return 'codec %s raised %s: %s on %r' % (case['codec'], type(exc).__name__, exc, case['value'])
        return msg
    spec = lib.spec_from_json(case)
    before = [lib.spec_from_json(d) for d in (case.get('with') or {}).get('before', [])]
    after = [lib.spec_from_json(d) for d in (case.get('with') or {}).get('after', [])]
    specs, me = before + [spec] + after, len(before)
    tmp = None
    filename = None
    if case.get('file_db'):
        from vlib.runner import HOME
        root = os.path.join(HOME, '.work')
        os.makedirs(root, exist_ok=True)
        tmp = tempfile.mkdtemp(prefix='c07replay_', dir=root)
        filename = os.path.join(tmp, 'replay.sqlite')
    try:
        try:
            evaluated, outcomes = lib.evaluate(specs, bool(case.get('upd_same')), filename)
        except lib.Rejected:
            return None
        except lib.Unattributed as u:
            return _unattributed_message(spec, u)
        for o in outcomes:
            if o['i'] != me:
                continue
            if case.get('stage') not in (None, o['stage']):
                continue
            if case.get('check') not in (None, 'error', o['check']):
                continue
            return o['message']
        return None
    finally:
        if tmp:
            shutil.rmtree(tmp, ignore_errors=True)
            try:
                os.rmdir(os.path.dirname(tmp))
            except OSError:
                pass


# ---- exclusions: one per root cause of an OPEN known finding ---------------------------------------

def _seen(case):
    """the value the writing session held (for 'error' cases, where nothing could be read: the value written)"""
    if case.get('seen') is not None:
        return lib.dec(case['kind'], case['seen'])
    if case.get('check') == 'error':
        e = case.get('v2') if case.get('stage') == 'update' and 'v2' in case else case.get('v1')
        return None if e is None else lib.dec(case['kind'], e)
    return None


def _sqlite_time_reloads_as_str(case, message):
    """SQLiteTimeConverter.sql2py calls `datetime.strptime` on the datetime MODULE; the AttributeError is swallowed by the
    bare except and the stored text is returned: every non-NULL `time` value reloads as its isoformat() str."""
    if case.get('kind') != 'time' or case.get('check') not in ('fresh', 'select'):
        return False
    seen, got = _seen(case), case.get('got') or {}
    return seen is not None and got.get('type') == 'str' and got.get('str') == seen.isoformat()


def _sqlite_date_before_1000(case, message):
    """SQLiteDateConverter.py2sql uses strftime('%Y-%m-%d'); glibc does not zero-pad %Y, so year < 1000 is stored as
    '999-12-31', which sql2py's strptime('%Y-%m-%d') rejects (swallowed) -> the text itself is returned."""
    if case.get('kind') != 'date' or case.get('check') not in ('fresh', 'select'):
        return False
    seen, got = _seen(case), case.get('got') or {}
    return (seen is not None and seen.year < 1000 and got.get('type') == 'str'
            and got.get('str') == '%d-%02d-%02d' % (seen.year, seen.month, seen.day))


def _decimal_exp(case):
    return lib.Decimal(10) ** -lib.decimal_scale(case.get('opts') or {})


def _decimal_unrounded_in_session(case, message):
    """DecimalConverter.validate does not round to the declared scale; SQLiteDecimalConverter.py2sql quantizes only the
    copy that is sent to the database, so the writing session keeps e.g. 1.239 while the row holds 1.24 (and the
    unrounded value, used as a parameter, no longer finds the row)."""
    if case.get('kind') != 'decimal':
        return False
    seen, got = _seen(case), case.get('got') or {}
    if seen is None or not seen.is_finite():
        return False
    stored = seen.quantize(_decimal_exp(case))
    if stored == seen:
        return False
    if case.get('check') == 'param':
        return got.get('str') == 'no row'
    if case.get('check') in ('fresh', 'select') and got.get('type') == 'Decimal':
        return lib.Decimal(got['str']) == stored
    return False


def _sqlite_decimal_over_15_digits(case, message):
    """The column type DECIMAL(p, s) has NUMERIC affinity in SQLite: the text Pony sends is converted to an 8-byte REAL,
    which keeps only 15 significant decimal digits; a value with more significant digits (within the declared
    precision) comes back changed."""
    if case.get('kind') != 'decimal' or case.get('check') not in ('fresh', 'select', 'param', 'error'):
        return False
    if case.get('check') == 'error' and (case.get('got') or {}).get('type') != 'InvalidOperation':
        return False    # (the REAL, rounded up to one more integer digit, no longer fits quantize()'s 28-digit context)
    seen = _seen(case)
    if seen is None or not seen.is_finite():
        return False
    stored = seen.quantize(_decimal_exp(case))
    return len(stored.normalize().as_tuple().digits) > 15


def _sqlite_decimal_select_real_noise(case, message):
    """DECIMAL columns are REALs in SQLite and SQLite 3.40's text->REAL conversion is off by one ulp for about one value in
    10^4; select(x.attr ...) converts the REAL with an attribute-less converter (no scale: no quantize), so the noise digits
    (16th/17th significant digit) show up in the query result, while E[pk].attr quantizes them away."""
    if case.get('kind') != 'decimal' or case.get('check') != 'select':
        return False
    seen, got = _seen(case), case.get('got') or {}
    if seen is None or not seen.is_finite() or got.get('type') != 'Decimal':
        return False
    g = lib.Decimal(got['str'])
    if not g.is_finite() or g == seen:
        return False
    exp = _decimal_exp(case)
    return g.quantize(exp) == seen.quantize(exp) and abs(g - seen) <= abs(seen) * lib.Decimal('4e-16')


def _sqlite_timedelta_float_days(case, message):
    """SQLiteTimedeltaConverter stores a timedelta as a float number of days: from 2**16 days on, one ulp of the double
    is larger than a microsecond, so the sub-second part comes back changed."""
    if case.get('kind') != 'timedelta' or case.get('check') not in ('fresh', 'select', 'param'):
        return False
    seen = _seen(case)
    return seen is not None and abs(seen) >= lib.timedelta(days=lib.FLOAT_DAYS_LIMIT)


def _sqlite_array_none_update(case, message):
    """SQLiteArrayConverter.val2dbval is json.dumps(val) without the None guard of the generic ArrayConverter: an UPDATE of a
    nullable array attribute to None stores the text 'null' (an INSERT skips None columns), and loading that row builds
    TrackedArray(obj, attr, None) -> TypeError: the row cannot be loaded any more."""
    if case.get('kind') not in ('intarray', 'strarray', 'floatarray'):
        return False
    got = case.get('got') or {}
    return (case.get('stage') == 'update' and 'v2' in case and case['v2'] is None and case.get('check') == 'error'
            and got.get('type') == 'TypeError' and "'NoneType' object is not iterable" in (got.get('str') or ''))


EXCLUSIONS = {
    'sqlite_array_none_update': _sqlite_array_none_update,
    'sqlite_time_reloads_as_str': _sqlite_time_reloads_as_str,
    'sqlite_date_before_1000': _sqlite_date_before_1000,
    'decimal_unrounded_in_session': _decimal_unrounded_in_session,
    'sqlite_decimal_over_15_digits': _sqlite_decimal_over_15_digits,
    'sqlite_timedelta_float_days': _sqlite_timedelta_float_days,
    'sqlite_decimal_select_real_noise': _sqlite_decimal_select_real_noise,
}

MANIFEST = {
    'text': 'Hypothesis draws wide SQLite entities (an attribute per type slot with drawn size/precision/scale/max_len/'
            'nullable options) and values over the full domain of every type incl. extremes; one row is written and the value '
            'the writing session holds after flush is compared (value and type) with what a fresh session reads, what '
            'select(x.attr) returns and whether it finds the row as an == parameter; a second value is assigned in the same or a '
            'later session. Pure round trips cover the MySQL/Oracle/PostgreSQL conversion helpers. Sampled search: it can show '
            'a conversion that changes a value, it cannot show that none does.',
    'note': 'Live only on SQLite 3.40 (no other server or driver in the sandbox); for MySQL/Oracle/PostgreSQL only the pure '
            'helper functions run, over stub driver modules, against text formats transcribed from the MySQL manual. Float NaN, '
            'timezone-aware datetimes, top-level Json scalars and Decimal values wider than the declared precision are outside the '
            'generated domain; floats compare by == (sign of zero not asserted).',
    'technique': 'hypothesis random search over declarations x values with a write / fresh-read / select / parameter round-trip '
                 'oracle; pure codec round trips',
}
