"""C14 -- decided by the session interpreter (vlib/sessmachine.py) against the reference store (vlib/refstore.py)."""
from vlib import sesscheck

ID = 'C14'
LEVEL = 'exploration'
RULE = 'Same program space as C09 with key-bearing operations weighted up (explicit int/str/composite pks from a 5-value domain, unique and composite-unique scalars, None in optional keys, explicit ids on auto-increment entities, delete-then-recreate, value moves between objects, conflicts with rows not loaded in the session). Oracle: if the reference store holds two live objects with an equal key at commit, commit must raise and the database must equal the pre-session snapshot; a raw scan after every session never shows two rows with an equal primary, unique or composite key. Non-trivial = a program with a key conflict (refused or deferred) or a failed commit; distinct by program hash. A share of the programs (one third; one half for C11/C13/C15) comes from the hub family: every relationship starts at one entity, with cascading/unlinking relationships declared around a refusing one, populated, and then aimed operations (pending updates of children, pending removals on the hub collections, new children with explicit keys) precede the delete of the hub, so that deletes refused after part of their cascade are common.'
ASSUMPTIONS = ['live SQLite (in-memory) with foreign keys enforced immediately',
               'reference store vlib/refstore.py written from the documented relationship/cascade/key semantics (DESIGN.md section 7a)',
               'table and column names are taken from the mapping metadata (names only)']
SHARDS = {'quick': 8, 'thorough': 16}
MIN_EVALS = {'quick': 2000, 'thorough': 5000}
PROPS = {'C14'}
WEIGHTS = {'create': 8, 'set': 7, 'setm': 4, 'del': 2, 'commit': 2, 'flush': 5, 'rekey': 4}

run = sesscheck.make_run(ID, PROPS, 700, 6000, weights=WEIGHTS,
                         nontrivial=lambda program, stats: stats.get('conflict_deferred', 0) > 0 or stats.get('call_failed:CacheIndexError', 0) > 0 or stats.get('tx_failures', 0) > 0)
replay = sesscheck.make_replay(ID, PROPS)

MANIFEST = {
    'text': "Reference-store knowledge of key conflicts at commit time vs Pony's behaviour, plus raw duplicate scans of every table after every session of generated histories.",
    'note': 'SQLite only; trusts the hand-written reference store (rules and sources in DESIGN.md 7a) and hypothesis generation; '
            'explores bounded histories (<= 4 sessions x 10 calls, <= 3 entities) and cannot establish absence.',
    'technique': 'model-based property testing: generated programs interpreted against Pony and an independent reference store',
}
