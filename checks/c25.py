"""C25 String indexing and slicing translate to Python semantics.

SQLite code path, live: every string of length 0..6 x start/stop/index in {-8..8, omitted, None}
x each bound given as constant / parameter / column expression is enumerated completely;
hypothesis then samples larger bounds and non-ASCII strings.  Oracle: Python's own s[i:j] / s[i]
(index out of range is unspecified and skipped).

Other dialects (part 2, vlib/c25_dialects.py): the same grid is translated by pony's real MySQL and Oracle providers (the
generic SQLBuilder.STRING_SLICE / StringMixin.__getitem__ path) and by the PostgreSQL provider (its own branches) over stub
drivers; the statement is evaluated by the dialect emulator vlib/sqlemu.py under that dialect's substr / length / greatest
semantics (tables transcribed from the PostgreSQL 16, MariaDB 10.11 / MySQL 8.0 and Oracle manuals) and compared with Python.
"""
import itertools
from vlib.runner import Violation
from vlib import c25_dialects

ID = 'C25'
LEVEL = 'exploration'
RULE = ('grid: strings of length 0..6 x start,stop in {-8..8, omitted, None} x bound mode in {const, param, column expr} '
        '(complete), index in -8..8 x {const, param, column}; random: bounds to +-40, unicode strings to length 12. '
        'Part 1b: slices/indexes with parameter bounds inside exists/in/count subqueries and in a later filter() lambda, the same '
        'query text executed with every pair of bounds (a cached translation must not keep earlier bounds). '
        'A case is one (string, start, stop, modes) tuple; non-trivial = a negative or out-of-range or None bound, '
        'distinct by the tuple. Index out of range is unspecified (skipped, not counted). Dialect part: the same complete grid '
        '(no random part) once per dialect in {mysql (generic path), oracle (generic path), postgres}: a case is the tuple plus the '
        'dialect; the statement of the real provider is evaluated by vlib/sqlemu.py; on Oracle \'\' and NULL are identified.')
ASSUMPTIONS = ['SQLite 3.40 live through pony.orm.dbproviders.sqlite (py_string_slice UDF / substr)',
               'Python slicing of str is the reference',
               'no MySQL / Oracle / PostgreSQL server in the sandbox: their substr / length / greatest / CASE semantics are the '
               'personality tables of vlib/sqlemu.py (transcribed from the manuals, trusted text; the emulator core is cross-validated '
               'against live SQLite by C02); an unmodelled construct counts as inconclusive']
SHARDS = {'quick': 4, 'thorough': 16}
MIN_EVALS = {'quick': 20000, 'thorough': 100000}
EXHAUSTIVE = {'quick': True, 'thorough': True}

STRINGS = ['', 'a', 'ab', 'abc', 'abcd', 'abcde', 'abcdef']
BOUNDS = list(range(-8, 9))
OMIT = 'omit'


def _setup(strings, colvals):
    from pony.orm import Database, Required, Optional, PrimaryKey, db_session
    db = Database()

    class E(db.Entity):
        id = PrimaryKey(int)
        s = Optional(str)
        a = Optional(int)
        b = Optional(int)
    db.bind('sqlite', ':memory:')
    db.generate_mapping(create_tables=True)
    rows = []
    with db_session:
        n = 0
        for s in strings:
            for (a, b) in colvals:
                n += 1
                obj = E(id=n, s=s, a=a, b=b)
                rows.append((n, obj.s, a, b))    # the value Pony holds after its documented autostrip
    return db, E, rows


def _bound_src(mode, val, name, col):
    if mode == 'omit':
        return ''
    if mode == 'const':
        return repr(val)
    if mode == 'param':
        return name
    if mode == 'col':
        return 'x.' + col
    raise ValueError(mode)


def expected_slice(s, a, b):
    return s[a:b]


def run_slice_query(E, rows, smode, sval, tmode, tval, base='x.s'):
    """returns list of (case, got, expected) mismatches; rows give column values"""
    from pony.orm import select, db_session
    src = '((x.id, %s[%s:%s]) for x in E)' % (base, _bound_src(smode, sval, 'i', 'a'), _bound_src(tmode, tval, 'j', 'b'))
    with db_session:
        got = dict(select(src, {'E': E}, {'i': sval, 'j': tval})[:])
    out = []
    for (n, s, a, b) in rows:
        start = None if smode == 'omit' else (a if smode == 'col' else sval)
        stop = None if tmode == 'omit' else (b if tmode == 'col' else tval)
        if base == 'x.s':
            bs = s
        elif base == 'x.s.upper()':
            bs = s.upper()
        elif base == "(x.s + 'z')":
            bs = s + 'z'
        else:
            raise ValueError(base)
        exp = bs[start:stop]
        out.append((n, bs, start, stop, got.get(n, '<missing row>'), exp))
    return src, out


def run_index_query(E, rows, mode, val, base='x.s'):
    from pony.orm import select, db_session
    src = '((x.id, %s[%s]) for x in E)' % (base, _bound_src(mode, val, 'i', 'a'))
    with db_session:
        got = dict(select(src, {'E': E}, {'i': val})[:])
    out = []
    for (n, s, a, b) in rows:
        idx = a if mode == 'col' else val
        if idx is None:
            continue
        try:
            exp = s[idx]
        except IndexError:
            continue   # unspecified
        out.append((n, s, idx, got.get(n, '<missing row>'), exp))
    return src, out


POSITIONS = {
    'exists_subquery': '(x.id for x in E if exists(y for y in E if y.id == x.id and %s == t))',
    'in_subquery': '(x.id for x in E if x.id in (y.id for y in E if %s == t))',
    'count_subquery': '(x.id for x in E if count(y for y in E if y.id == x.id and %s == t) > 0)',
    'filter_lambda': None,
    'query_in': None,        # x in q, q = another Query object with the slice
    'query_from': None,      # select(... for x in q)
    'bulk_delete': None,     # q.delete(bulk=True); judged by the rows that are gone (rolled back afterwards)
    'kwargs_filter': None,   # q.filter(a=None) / q.where(b=None): keyword step on top of the query with the slice
}


def run_position_query(E, rows, position, kind, i, j, t):
    """the slice / index with PARAMETER bounds sits in a nested query (or a later filter() lambda); the same query text is run
    again and again with other bound values, so a translation cached for one pair of bounds must not be reused for another.
    Returns (src, got ids, ids that must match, ids that may match (index out of range: unspecified))"""
    from pony.orm import select, db_session, exists, count
    expr = 'y.s[i:j]' if kind == 'slice' else 'y.s[i]'
    must, may = set(), set()
    for (n, s, a, b) in rows:
        if kind == 'slice':
            if s[i:j] == t:
                must.add(n)
        else:
            try:
                if s[i] == t:
                    must.add(n)
            except IndexError:
                may.add(n)
    with db_session:
        if position == 'kwargs_filter':
            src = 'select(y for y in E if %s == t).filter(a=None).where(b=None)' % expr
            if kind == 'slice':
                q = select(y for y in E if y.s[i:j] == t)
            else:
                q = select(y for y in E if y.s[i] == t)
            got = set(o.id for o in q.filter(a=None).where(b=None))     # all rows of this table have a = b = None
        elif position in ('query_in', 'query_from', 'bulk_delete'):
            from pony.orm import rollback
            if kind == 'slice':
                q = select(y for y in E if y.s[i:j] == t)
            else:
                q = select(y for y in E if y.s[i] == t)
            if position == 'query_in':
                src = 'select(x.id for x in E if x in q), q = select(y for y in E if %s == t)' % expr
                got = set(select(x.id for x in E if x in q)[:])
            elif position == 'query_from':
                src = 'select(x.id for x in q), q = select(y for y in E if %s == t)' % expr
                got = set(select(x.id for x in q)[:])
            else:
                src = 'select(y for y in E if %s == t).delete(bulk=True)' % expr
                before = set(select(x.id for x in E)[:])
                q.delete(bulk=True)
                got = before - set(select(x.id for x in E)[:])
                rollback()
        elif position == 'filter_lambda':
            src = 'select(y for y in E).filter(lambda y: %s == t)' % expr
            q = select('(y for y in E)', {'E': E}, {})
            if kind == 'slice':
                got = set(o.id for o in q.filter(lambda y: y.s[i:j] == t))
            else:
                got = set(o.id for o in q.filter(lambda y: y.s[i] == t))
        else:
            src = POSITIONS[position] % expr
            got = set(select(src, {'E': E, 'exists': exists, 'count': count}, {'i': i, 'j': j, 't': t})[:])
    return src, got, must, may


def norm(v):
    # Optional(str) results: '' and None are both "empty" for an expression result? No: compare exactly,
    # but SQLite returns '' for empty slices and Pony passes it through.
    return v


def grid_cells():
    vals = BOUNDS + [None]
    cells = []
    for smode in ('omit', 'const', 'param', 'col'):
        svals = [None] if smode in ('omit', 'col') else vals
        for tmode in ('omit', 'const', 'param', 'col'):
            tvals = [None] if tmode in ('omit', 'col') else vals
            for sv in svals:
                for tv in tvals:
                    cells.append(('slice', smode, sv, tmode, tv))
    for mode in ('const', 'param', 'col'):
        ivals = [None] if mode == 'col' else BOUNDS
        for iv in ivals:
            cells.append(('index', mode, iv))
    return cells


def nontrivial_bound(v, n):
    return v is None or v < 0 or v > n


def run(ctx):
    colvals = [(a, b) for a in BOUNDS + [None] for b in BOUNDS + [None]]
    db_col, E_col, rows_col = _setup(STRINGS, colvals)           # for column-expression bounds
    db_one, E_one, rows_one = _setup(STRINGS, [(None, None)])    # one row per string
    cells = grid_cells()
    for k, cell in enumerate(cells):
        if k % ctx.nshards != ctx.shard:
            continue
        ctx.check_time()
        if cell[0] == 'slice':
            _, smode, sv, tmode, tv = cell
            uses_col = 'col' in (smode, tmode)
            E, rows = (E_col, rows_col) if uses_col else (E_one, rows_one)
            if uses_col and smode != 'col':
                rows = [r for r in rows if r[2] is None]      # a irrelevant: keep one value
            if uses_col and tmode != 'col':
                rows = [r for r in rows if r[3] is None]
            try:
                src, res = run_slice_query(E, rows, smode, sv, tmode, tv)
            except Exception as e:
                _pony_error(ctx, {'kind': 'slice', 'smode': smode, 'start': sv, 'tmode': tmode, 'stop': tv,
                                  'strings': STRINGS}, e)
                continue
            for (n, s, start, stop, got, exp) in res:
                case = {'kind': 'slice', 's': s, 'smode': smode, 'start': start, 'tmode': tmode, 'stop': stop}
                nt = (smode != 'omit' and nontrivial_bound(start, len(s))) or (tmode != 'omit' and nontrivial_bound(stop, len(s)))
                ctx.case(key=case, nontrivial=nt, classes=['slice', 's:' + smode, 't:' + tmode],
                         sample={'query': src, 's': s, 'start': start, 'stop': stop, 'got': got} if n % 7 == 3 else None)
                if got != exp:
                    ctx.fail(case, '%s with s=%r start=%r stop=%r returned %r, Python gives %r' % (src, s, start, stop, got, exp))
        else:
            _, mode, iv = cell
            E, rows = (E_col, [r for r in rows_col if r[3] is None]) if mode == 'col' else (E_one, rows_one)
            try:
                src, res = run_index_query(E, rows, mode, iv)
            except Exception as e:
                _pony_error(ctx, {'kind': 'index', 'mode': mode, 'index': iv, 'strings': STRINGS}, e)
                continue
            for (n, s, idx, got, exp) in res:
                case = {'kind': 'index', 's': s, 'mode': mode, 'index': idx}
                ctx.case(key=case, nontrivial=idx < 0 or idx == len(s) - 1, classes=['index', 'i:' + mode],
                         sample={'query': src, 's': s, 'index': idx, 'got': got} if n % 5 == 2 else None)
                if got != exp:
                    ctx.fail(case, '%s with s=%r index=%r returned %r, Python gives %r' % (src, s, idx, got, exp))


    # part 1b: parameter bounds inside nested queries / later filters; the same query text runs with every pair of bounds
    pos_cells = []
    for position in sorted(POSITIONS):
        for i in [None] + BOUNDS[::2] + [1, -1]:
            for j in [None] + BOUNDS[1::2] + [0, -2]:
                pos_cells.append((position, 'slice', i, j))
        for i in BOUNDS:
            pos_cells.append((position, 'index', i, None))
    for k, (position, kind, i, j) in enumerate(pos_cells):
        if k % ctx.nshards != ctx.shard:
            continue
        ctx.check_time()
        for probe in ('abcdef', 'ab'):
            try:
                t = probe[i:j] if kind == 'slice' else probe[i]
            except IndexError:
                continue
            case = {'kind': 'position', 'position': position, 'what': kind, 'start': i, 'stop': j, 't': t,
                    'smode': 'param', 'tmode': 'param'}
            try:
                src, got, must, may = run_position_query(E_one, rows_one, position, kind, i, j, t)
            except Exception as e:
                _pony_error(ctx, case, e)
                continue
            ctx.case(key=case, nontrivial=True, classes=['position:' + position, 'position_' + kind],
                     sample={'query': src, 'i': i, 'j': j, 't': t, 'got': sorted(got)} if k % 11 == 0 else None)
            if not (must <= got <= (must | may)):
                if kind == 'slice' and j == -1 and i in (0, None):
                    case = dict(case, kind='slice')      # the open finding C25-stop-minus-one, in this position too
                ctx.fail(case, '%s with i=%r j=%r t=%r returned ids %s, Python gives %s%s'
                         % (src, i, j, t, sorted(got), sorted(must), (' (+ optionally %s)' % sorted(may)) if may else ''))

    # part 2: the same cells on the generic (MySQL, Oracle) and PostgreSQL code paths, evaluated by the dialect emulator
    for k, cell in enumerate(cells):
        if k % ctx.nshards != ctx.shard:
            continue
        ctx.check_time()
        for dialect in c25_dialects.DIALECTS:
            c25_dialects.check_cell(ctx, dialect, cell, rows_one, rows_col, _pony_error)

    # random part: larger bounds, unicode strings, derived string expressions
    from hypothesis import strategies as st
    alphabet = st.sampled_from(list(u'abcXYZ éЖ中%_!\''))
    bound = st.one_of(st.none(), st.integers(-40, 40), st.integers(-3, 3))
    mode = st.sampled_from(['omit', 'const', 'param', 'col'])

    def t(strings, smode, sv, tmode, tv, base):
        strings = sorted(set(strings))
        # Optional(str) stores None for ''... keep '' too: Pony stores '' for Optional str
        colvals = [(sv, tv)]
        db, E, rows = _setup(strings, colvals)
        try:
            try:
                src, res = run_slice_query(E, rows, smode, sv, tmode, tv, base=base)
            except Exception as e:
                _pony_error(ctx, {'kind': 'slice', 'smode': smode, 'start': sv, 'tmode': tmode, 'stop': tv,
                                  'strings': strings, 'base': base}, e)
                return
            for (n, s, start, stop, got, exp) in res:
                case = {'kind': 'slice', 's': s, 'smode': smode, 'start': start, 'tmode': tmode, 'stop': stop, 'base': base}
                nt = (smode != 'omit' and nontrivial_bound(start, len(s))) or (tmode != 'omit' and nontrivial_bound(stop, len(s)))
                ctx.case(key=case, nontrivial=nt, classes=['random', 'base:' + base])
                if got != exp:
                    ctx.fail(case, '%s with s=%r start=%r stop=%r returned %r, Python gives %r' % (src, s, start, stop, got, exp))
        finally:
            db.disconnect()

    ctx.run_test(t, dict(strings=st.lists(st.text(alphabet, max_size=12), min_size=1, max_size=4),
                         smode=mode, sv=bound, tmode=mode, tv=bound,
                         base=st.sampled_from(['x.s', 'x.s.upper()', "(x.s + 'z')"])),
                 max_examples=ctx.scale(150, 1500), name='random_slices')


def _pony_error(ctx, case, e):
    """A query in the asserted grammar must translate; only TypeError-style rejections are allowed,
    and those are counted as rejected (the property lets Pony refuse, not answer wrongly)."""
    from pony.orm.core import TranslationError
    if isinstance(e, (TranslationError, TypeError, NotImplementedError)):
        ctx.rejected += 1
        return
    ctx.fail(dict(case, error=type(e).__name__), 'unexpected %s: %s' % (type(e).__name__, e))


def replay(case):
    """re-execute one stored case; returns message or None"""
    if 'dialect' in case:
        return c25_dialects.replay(case)
    kind = case['kind']
    s = case['s'] if 's' in case else None
    if 'position' in case:
        # replayed after another pair of bounds went through the same query text first (the cached translation)
        db, E, rows = _setup(STRINGS, [(None, None)])
        what = case['what']
        try:
            i0, j0 = case['start'], case['stop']     # prime the translation cache with other bounds of the same types
            run_position_query(E, rows, case['position'], what, None if i0 is None else (2 if i0 != 2 else 1),
                               None if j0 is None else (3 if j0 != 3 else 4), 'c')
            src, got, must, may = run_position_query(E, rows, case['position'], what, case['start'], case['stop'], case['t'])
        except Exception as e:
            from pony.orm.core import TranslationError
            if isinstance(e, (TranslationError, TypeError, NotImplementedError)):
                return None
            return 'unexpected %s: %s' % (type(e).__name__, e)
        if not (must <= got <= (must | may)):
            return '%s with i=%r j=%r t=%r returned ids %s, Python gives %s' % (src, case['start'], case['stop'], case['t'], sorted(got), sorted(must))
        return None
    if kind == 'slice':
        strings = [s] if s is not None else case['strings']
        smode, tmode = case['smode'], case['tmode']
        sv, tv = case['start'], case['stop']
        db, E, rows = _setup(strings, [(sv, tv)])
        try:
            src, res = run_slice_query(E, rows, smode, sv, tmode, tv, base=case.get('base', 'x.s'))
        except Exception as e:
            from pony.orm.core import TranslationError
            if isinstance(e, (TranslationError, TypeError, NotImplementedError)):
                return None
            return 'unexpected %s: %s' % (type(e).__name__, e)
        for (n, s_, start, stop, got, exp) in res:
            if got != exp:
                return '%s with s=%r start=%r stop=%r returned %r, Python gives %r' % (src, s_, start, stop, got, exp)
        return None
    else:
        db, E, rows = _setup([s], [(case['index'], None)])
        try:
            src, res = run_index_query(E, rows, case['mode'], case['index'])
        except Exception as e:
            return 'unexpected %s: %s' % (type(e).__name__, e)
        for (n, s_, idx, got, exp) in res:
            if got != exp:
                return '%s with s=%r index=%r returned %r, Python gives %r' % (src, s_, idx, got, exp)
        return None


def _is_stop_minus_one(case, message):
    """open finding C25-stop-minus-one: with a start that is omitted / 0 / None (constant or parameter), a constant or
    parameter stop of exactly -1 is taken for 'no stop' and the whole string is returned.  The pinned suite
    (test_declarative_strings.test_slice_13) asserts this behaviour, so it cannot be repaired without editing a test."""
    return (case.get('kind') == 'slice' and case.get('tmode') in ('const', 'param') and case.get('stop') == -1
            and case.get('smode') in ('omit', 'const', 'param') and case.get('start') in (0, None))


def _pg_negative_substring_length(case, message):
    """PostgreSQL: constant / parameter bounds of the same sign with stop < start are rendered substr(s, pos, stop - start) with
    a negative count, which PostgreSQL refuses ("negative substring length not allowed"); Python gives ''"""
    a, b = case.get('start'), case.get('stop')
    return (case.get('dialect') == 'postgres' and case.get('kind') == 'slice' and a is not None and b is not None and b < a
            and (a >= 0) == (b >= 0) and case.get('smode') in ('const', 'param') and case.get('tmode') in ('const', 'param'))


def _generic_negative_start_beyond_length(case, message):
    """generic path (MySQL, Oracle): a negative start is passed to substr() as is; when it reaches beyond the beginning of the
    string substr() returns '' / NULL instead of starting at the first character"""
    a, b = case.get('start'), case.get('stop')
    return (case.get('dialect') in ('mysql', 'oracle') and case.get('kind') == 'slice' and a is not None and a < 0
            and 's' in case and -a > len(case['s']) and (b is None or b < 0))


def _generic_negative_start_nonnegative_stop(case, message):
    """generic path (MySQL, Oracle): for start < 0 <= stop the length is computed as (stop + 1) - start, i.e. the negative offset
    is used as if it were a 1-based position"""
    a, b = case.get('start'), case.get('stop')
    return (case.get('dialect') in ('mysql', 'oracle') and case.get('kind') == 'slice' and a is not None and a < 0
            and b is not None and b >= 0)


def _null_column_bound(case, message):
    """every non-SQLite path: a bound given as a column / expression that is NULL for the row: a NULL start makes the whole
    result NULL, a NULL stop is replaced by -1 and drops the last character (Python: None = omitted)"""
    return ('dialect' in case and case.get('kind') == 'slice'
            and ((case.get('smode') == 'col' and case.get('start') is None) or (case.get('tmode') == 'col' and case.get('stop') is None)))


EXCLUSIONS = {'stop_minus_one': _is_stop_minus_one,
              'pg_negative_substring_length': _pg_negative_substring_length,
              'generic_negative_start_beyond_length': _generic_negative_start_beyond_length,
              'generic_negative_start_nonnegative_stop': _generic_negative_start_nonnegative_stop,
              'null_column_bound': _null_column_bound}

MANIFEST = {
    'text': 'Bounded-exhaustive enumeration of string length 0..6 x every start/stop/index in -8..8/omitted/None x '
            'constant/parameter/column modes on live SQLite, plus random larger bounds and unicode strings, each compared with '
            "Python's own slicing; the same complete grid is also translated by pony's real MySQL and Oracle providers (generic "
            'slice arithmetic) and PostgreSQL provider over stub drivers and the emitted statement is evaluated by a dialect '
            'emulator under that dialect\'s substr/length/greatest semantics. Exhaustive for the stated grid, sampled beyond it; '
            'cannot establish the unbounded claim.',
    'note': 'Trusts Python str slicing as the reference and the sandbox SQLite build; there is no MySQL/Oracle/PostgreSQL server: '
            'their substring semantics are tables transcribed from the manuals into vlib/sqlemu.py (trusted text, the emulator core '
            'is cross-validated against live SQLite by C02), on Oracle an empty result and NULL are identified, and the dialect '
            'part has no random extension beyond the grid.',
    'technique': 'bounded-exhaustive grid + hypothesis random search against Python slicing; dialect SQL evaluated by an emulator',
}
