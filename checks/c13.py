"""C13 -- decided by the session interpreter (vlib/sessmachine.py) against the reference store (vlib/refstore.py)."""
from vlib import sesscheck

ID = 'C13'
LEVEL = 'exploration'
RULE = "Same program space as C09 with failing calls weighted up (duplicate pk/unique/composite keys incl. set() with several keys, None for required attributes, unlinking required partners, refused deletes and cascades that fail half-way). A public-API snapshot of every object the session holds (scalars, pk, to-one references, and at depth 2 collections, plus Entity[pk] identity) is taken before each modifying call (after resolving the call's arguments) and compared with the snapshot after a call that raised; later C09-style database comparison shows a later commit writes nothing for the failed call. Non-trivial = a program in which at least one modifying call raised; distinct by program hash. A share of the programs (one third; one half for C11/C13/C15) comes from the hub family: every relationship starts at one entity, with cascading/unlinking relationships declared around a refusing one, populated, and then aimed operations (pending updates of children, pending removals on the hub collections, new children with explicit keys) precede the delete of the hub, so that deletes refused after part of their cascade are common."
ASSUMPTIONS = ['live SQLite (in-memory) with foreign keys enforced immediately',
               'reference store vlib/refstore.py written from the documented relationship/cascade/key semantics (DESIGN.md section 7a)',
               'table and column names are taken from the mapping metadata (names only)']
SHARDS = {'quick': 8, 'thorough': 16}
MIN_EVALS = {'quick': 3000, 'thorough': 5000}
PROPS = {'C13'}
WEIGHTS = {'setm': 7, 'set': 6, 'create': 7, 'del': 4, 'crem': 3, 'cclear': 2, 'read': 1, 'ident': 0, 'flush': 1, 'retake': 5}

run = sesscheck.make_run(ID, PROPS, 1200, 10000, weights=WEIGHTS, hub_share=(1, 2),
                         nontrivial=lambda program, stats: any(k.startswith('call_failed') for k in stats))
replay = sesscheck.make_replay(ID, PROPS)

MANIFEST = {
    'text': 'Before/after public-API snapshots around every failing modification in generated histories; failing calls are weighted up and include mid-cascade failures reachable by construction.',
    'note': 'SQLite only; trusts the hand-written reference store (rules and sources in DESIGN.md 7a) and hypothesis generation; '
            'explores bounded histories (<= 4 sessions x 10 calls, <= 3 entities) and cannot establish absence.',
    'technique': 'model-based property testing: generated programs interpreted against Pony and an independent reference store',
}
