"""C18 A db_session commits exactly when its body succeeds.

One case = one session form (decorator, context manager, generator / coroutine function, Flask integration over a
stub flask package, Bottle plugin over a stub bottle package) x options x a body script per attempt, executed on a
fresh file-backed SQLite database.  The committed table contents are read back through a separate plain sqlite3
connection at every probe point (attempt start, after explicit commit(), after a nested session exits, before a
generator suspends), right after the session and again after one following empty db_session; the number of body
executions and the exception that leaves the session are recorded.  Everything is compared with
vlib/c18_model.predict (a reference function that imports nothing from Pony; its rules R1-R9 cite the db_session
documentation and pony/orm/tests/test_db_session.py).
"""
import os, shutil

from vlib import c18_model as M

ID = 'C18'
LEVEL = 'exploration'
RULE = ('hypothesis draws form in {decorator, context manager, generator/coroutine function, Flask stub, Bottle stub} x '
        'options (retry 0-3, allowed_exceptions / retry_exceptions as class lists or callables -- the allowed '
        'predicate may itself raise for some classes -- over the hierarchy '
        'A<-B<-C, D, E(D,A), K(BaseException), TransactionError<-TransactionIntegrityError, Exception; bottle adds '
        'HTTPResponse<-HTTPError and a subclass of each; strict/immediate/serializable/optimistic) x 1..retry+1 attempt '
        'scripts of steps set/del/flush/commit/rollback/raise X/doomed duplicate insert/yield(with caught classes, '
        'GeneratorExit and BaseException included, after which the body goes on)/'
        'nested session (decorator or context manager with own options -- including the refused ones: ddl=True, '
        'serializable=True under a non-serializable outermost session --, depth <= 3, optionally catching the inner '
        'exception, TransactionError included) x for generators a consumer script of next/send/throw X/close/abandon (drop the last reference). '
        'One case = one such script run on a fresh SQLite file, followed by one more db_session that is empty or '
        'writes 1-2 rows and must make durable exactly its own writes. Non-trivial = at '
        'some commit-or-rollback decision (normal end, exception leaving the outermost body, suspension) uncommitted '
        'changes are pending, or the body is re-run; distinct by '
        '(form, options, executed step trace, consumer actions used). Refusals (TypeError for retry on a context '
        'manager / generator, same class in both lists; TransactionError on suspension with only reads in an open '
        'transaction) are counted as rejected.')
ASSUMPTIONS = ['SQLite 3.40 live, file-backed, one thread; committed state read through an independent sqlite3 connection',
               'stub flask / bottle packages (vlib/stubs) implement only the documented life-cycle: before_request, '
               'teardown_request(exc or None), plugin.apply(callback, route), HTTPError subclass of HTTPResponse',
               'Python exception semantics (issubclass / isinstance, generator protocol) are the trusted base',
               'reference rules R1-R9 in vlib/c18_model.py as read from the db_session documentation']
SHARDS = {'quick': 4, 'thorough': 16}
MIN_EVALS = {'quick': 2500, 'thorough': 30000}
CLASS_FLOORS = {'form:decorator': 0.15, 'form:context': 0.10, 'form:generator': 0.15, 'form:flask': 0.05,
                'form:bottle': 0.08, 'outcome:rollback': 0.10, 'outcome:commit': 0.10, 'outcome:allowed_commit': 0.02,
                'retried': 0.03, 'depth>1': 0.10, 'allowed_through_superclass:list': 0.001,
                'allowed_through_superclass:callable': 0.001, 'retried_through_superclass:list': 0.001,
                'raise:after_write': 0.05, 'raise:after_flush': 0.02, 'raise:after_commit': 0.01,
                'raise:before_write': 0.03, 'predicate_error:decisive': 0.002,
                'generator_exit_caught_by_body:decisive': 0.003, 'consumer:close': 0.01, 'consumer:abandon': 0.005,
                'following_session_writes': 0.2, 'nested_session_refused': 0.02,
                'nested_refusal_caught_by_body:decisive': 0.003}

BUDGET = {   # examples per shard: (quick, thorough)
    'decorator': (280, 1000),
    'context': (150, 500),
    'generator': (240, 850),
    'flask': (90, 280),
    'bottle': (140, 470),
}


# ------------------------------------------------------------------------------------------------ generator

def _strategies():
    """all strategy objects are built once (building them per draw dominated the run time)"""
    from hypothesis import strategies as st

    ids = st.integers(1, 3)
    vals = st.integers(0, 3)
    flag = st.sampled_from([False, False, True])
    spec_classes = st.lists(st.sampled_from(M.LIST_CLASSES + ['A', 'D', 'Exception', 'TE']), max_size=3, unique=True)
    excspec = st.one_of(
        st.none(),
        st.fixed_dictionaries({'kind': st.sampled_from(['list', 'callable']), 'classes': spec_classes}))
    # allowed_exceptions predicates may be badly written: they raise for some exception classes (R10)
    raises_for = st.one_of(st.just([]),
                           st.lists(st.sampled_from(['A', 'A', 'B', 'D', 'E', 'K', 'Exception', 'Exception']), min_size=1,
                                    max_size=2, unique=True))
    allowed_spec = st.one_of(
        st.none(),
        st.fixed_dictionaries({'kind': st.just('list'), 'classes': spec_classes}),
        st.fixed_dictionaries({'kind': st.just('callable'), 'classes': spec_classes, 'raises_for': raises_for}))
    catch = st.lists(st.sampled_from(M.CATCH_CLASSES), max_size=2, unique=True)
    inner_form = st.sampled_from(['decorator', 'context'])

    def make_opts(form, inner):
        if form == 'decorator':
            retry = st.sampled_from([0, 0, 0, 2]) if inner else st.sampled_from([0, 0, 1, 1, 2, 3])
        elif form == 'context':
            retry = st.just(0) if inner else st.sampled_from([0] * 11 + [2])
        else:
            retry = st.sampled_from([0] * 24 + [1])
        serializable = st.sampled_from([False] * 24 + [True]) if form == 'generator' else flag
        fields = {'retry': retry, 'allowed': allowed_spec, 'retry_exc': excspec, 'strict': flag,
                  'immediate': flag, 'serializable': serializable, 'optimistic': st.sampled_from([True, True, False])}
        if inner:
            # nested sessions may ask for what Pony refuses inside an ordinary session (R13): ddl=True, and (context
            # manager form) serializable=True under a non-serializable outermost session
            fields['ddl'] = st.sampled_from([False] * 7 + [True])
        return st.fixed_dictionaries(fields)

    opts_st = dict(((form, inner), make_opts(form, inner))
                   for form in ('decorator', 'context', 'generator') for inner in (False, True))

    catch_biased = st.lists(st.sampled_from(['A', 'A', 'B', 'C', 'D', 'E', 'TE', 'TE', 'TE']), max_size=2, unique=True)
    # around a yield the body may also intercept GeneratorExit / everything (R11)
    catch_yield = st.lists(st.sampled_from(['A', 'A', 'B', 'D', 'E', 'GeneratorExit', 'GeneratorExit', 'GeneratorExit',
                                            'BaseException', 'BaseException']), max_size=2, unique=True)
    after_st = st.one_of(st.just([]), st.lists(st.tuples(st.just('set'), st.integers(1, 4), vals).map(list),
                                               min_size=1, max_size=2))
    coin = st.integers(0, 9)
    raise_index = st.integers(0, 59)       # resolved against a per-case class pool (see _resolve)

    def make_case_st(form):
        blocks = {}

        def make_block(depth):
            # a block is 1..3 segments "some writes, then one punctuation step", then an ending
            punct = ['none'] * 3 + ['flush', 'commit']
            if depth == 1:
                punct += ['rollback']
            if depth < 3:
                punct += ['nest'] * 3
            if form == 'generator' and depth == 1:
                punct += ['yield'] * 10
            punct_st = st.sampled_from(punct)
            n_segments = st.integers(1, 3) if depth == 1 else st.integers(0, 2)
            if form == 'generator' and depth == 1:
                n_segments = st.integers(1, 4)
            n_writes = st.integers(0, 2)
            ending_st = st.sampled_from(['finish'] * 9 + ['raise'] * 9 + ['dup'] * 2 if depth == 1
                                        else ['finish'] * 6 + ['raise'] * 4)
            write_kind = st.sampled_from(['set'] * 5 + ['del'])

            @st.composite
            def block(draw):
                steps = []
                for _ in range(draw(n_segments)):
                    for _ in range(draw(n_writes)):
                        if draw(write_kind) == 'set':
                            steps.append(['set', draw(ids), draw(vals)])
                        else:
                            steps.append(['del', draw(ids)])
                    kind = draw(punct_st)
                    if kind == 'yield':
                        if draw(coin) < 8:
                            steps.append(['commit'])          # a generator has to commit before it suspends (R7)
                        caught = draw(catch_yield)
                        steps.append(['yield', caught])
                        if ('GeneratorExit' in caught or 'BaseException' in caught) and draw(coin) < 7:
                            # a body that intercepts being closed typically "cleans up" by writing something (R11)
                            for _ in range(1 + draw(coin) % 2):
                                steps.append(['set', draw(ids), draw(vals)])
                            if draw(coin) < 5:
                                return steps
                    elif kind == 'nest':
                        iform = draw(inner_form)
                        steps.append(['nest', {'form': iform, 'opts': draw(opts_st[(iform, True)])},
                                      draw(blocks[depth + 1]), draw(catch_biased)])
                    elif kind != 'none':
                        steps.append([kind])
                ending = draw(ending_st)
                if ending == 'raise':
                    if draw(coin) < 3:
                        steps.append(['flush'])
                    steps.append(['raise', draw(raise_index)])
                elif ending == 'dup':
                    steps.append(['dup'])
                    tail = draw(coin)
                    if tail < 3:
                        steps.append(['flush'])
                    elif tail < 5:
                        steps.append(['commit'])
                return steps
            return block()

        for depth in (3, 2, 1):
            blocks[depth] = make_block(depth)
        initial = st.dictionaries(ids, vals, max_size=3)
        action = st.one_of(st.just(['next']), st.just(['next']), st.tuples(st.just('send'), vals).map(list),
                           st.tuples(st.just('throw'), raise_index).map(list),
                           st.tuples(st.just('throw'), raise_index).map(list), st.just(['close']), st.just(['close']),
                           st.just(['close']), st.just(['abandon']), st.just(['abandon']))
        drive = st.lists(action, min_size=1, max_size=4)
        n_attempts_st = dict((r, st.integers(1, r + 1)) for r in range(4))
        flags = st.booleans()

        @st.composite
        def case_st(draw):
            case = {'form': form}
            if form in ('decorator', 'context', 'generator'):
                case['opts'] = draw(opts_st[(form, False)])
            else:
                case['opts'] = {}
            case['initial'] = [list(r) for r in sorted(draw(initial).items())]
            n_attempts = 1
            if form == 'decorator':
                n_attempts = draw(n_attempts_st[case['opts']['retry']])
            case['attempts'] = [draw(blocks[1]) for _ in range(n_attempts)]
            for block in case['attempts'][:-1]:
                if draw(coin) < 8:
                    block.append(['raise', draw(raise_index)])     # earlier attempts mostly fail (R4)
            if form == 'generator':
                case['async'] = draw(flags)
                case['drive'] = draw(drive)
            case['after'] = draw(after_st)
            return _resolve(case)
        return case_st()

    return make_case_st


def _resolve(case):
    """replace the drawn class indices of raise / throw by class names from a pool that favours the classes the
    session's own exception lists talk about (and their sub/superclasses)"""
    form = case['form']
    pool = list(M.BODY_CLASSES)
    if form == 'bottle':
        pool += M.BOTTLE_CLASSES * 3
    opts = case.get('opts') or {}
    related = []
    named = []
    for key in ('allowed', 'retry_exc'):
        if opts.get(key):
            named += opts[key]['classes']
            named += opts[key].get('raises_for') or []
    if form == 'decorator' and opts.get('retry') and not opts.get('retry_exc'):
        named += ['TE']
    for n in named:
        related += [c for c in M.BODY_CLASSES if M.is_sub(c, n) and c != 'K' or c == n]
    pool = related * 4 + pool

    def fix(block):
        for step in block:
            if step[0] == 'raise':
                step[1] = pool[step[1] % len(pool)]
            elif step[0] == 'nest':
                fix(step[2])
    for block in case['attempts']:
        fix(block)
    for action in case.get('drive') or []:
        if action[0] == 'throw':
            action[1] = pool[action[1] % len(pool)]
    return case


def _lists_overlap(opts):
    a, r = opts.get('allowed'), opts.get('retry_exc')
    if a is None or a['kind'] != 'list':
        return False
    if r is not None and r['kind'] != 'list':
        return False
    r_list = r['classes'] if r is not None else ['TE']
    return any(c in r_list for c in a['classes'])


def normalize(case):
    """make a drawn script respect the preconditions of the modelled fragment (see c18_model.Inconclusive)"""
    form = case['form']
    outer_ser = bool((case.get('opts') or {}).get('serializable')) and form in ('decorator', 'context')

    def norm_block(block, depth, state):
        out = []
        for step in block:
            if state['done']:
                break
            op = step[0]
            if state['poison']:
                if op in ('flush', 'commit'):
                    out.append(step)
                    state['done'] = True
                continue
            if op == 'set':
                if step[1] in state['deleted']:
                    continue
                out.append(step)
            elif op == 'del':
                state['deleted'].add(step[1])
                out.append(step)
            elif op in ('commit', 'rollback'):
                state['deleted'] = set()
                out.append(step)
            elif op == 'flush':
                out.append(step)
            elif op == 'dup':
                state['poison'] = True
                out.append(step)
            elif op == 'raise':
                out.append(step)
                break
            elif op == 'yield':
                if form == 'generator' and depth == 1:
                    out.append(step)
            elif op == 'nest':
                if depth >= 3:
                    continue
                spec = {'form': step[1]['form'], 'opts': dict(step[1]['opts'])}
                if _lists_overlap(spec['opts']):
                    spec['opts']['allowed'] = None        # would be refused with TypeError (R8)
                if spec['form'] == 'context' or spec['opts'].get('ddl'):
                    spec['opts']['retry'] = 0           # TypeError otherwise (R8 / 'ddl' and 'retry' together)
                out.append(['nest', spec, norm_block(step[2], depth + 1, state), list(step[3])])
        return out

    new = dict(case)
    new['attempts'] = [norm_block(b, 1, {'deleted': set(), 'poison': False, 'done': False}) for b in case['attempts']]
    if form == 'generator':
        n_yields = sum(1 for s in new['attempts'][0] if s[0] == 'yield')
        new['drive'] = [list(a) for a in (case.get('drive') or [])][:n_yields]
    return new


# ------------------------------------------------------------------------------------------------ running

def _classes(case, exp):
    out = ['form:' + case['form'], 'outcome:' + exp['outcome'], 'depth:%d' % exp['depth']]
    if exp['depth'] > 1:
        out.append('depth>1')
    if exp['retried']:
        out.append('retried')
    if exp['caught']:
        out.append('inner_exception_caught')
    for p in sorted(set(exp['points'])):
        out.append('raise:' + p)
    opts = case.get('opts') or {}
    for f in ('strict', 'immediate', 'serializable'):
        if opts.get(f):
            out.append('flag:' + f)
    if opts.get('optimistic') is False:
        out.append('flag:not_optimistic')
    for k in ('allowed', 'retry_exc'):
        if opts.get(k):
            out.append('%s:%s' % (k, opts[k]['kind']))
    if case.get('async'):
        out.append('coroutine')
    if exp['outcome'] == 'allowed_commit' and exp['decisive'] and opts.get('allowed') \
            and exp['exc']['cls'] not in opts['allowed']['classes']:
        out.append('allowed_through_superclass:' + opts['allowed']['kind'])
    if exp['retried'] and opts.get('retry_exc') and any(
            c not in opts['retry_exc']['classes'] for c in exp.get('retried_classes', [])):
        out.append('retried_through_superclass:' + opts['retry_exc']['kind'])
    if exp['decisive']:
        out.append('decisive:' + case['form'])
    if exp.get('close_caught'):
        out.append('generator_exit_caught_by_body' + (':decisive' if exp['decisive'] else ''))
    if exp.get('closing'):
        out.append('consumer:' + exp['closing'])
    if exp['outcome'] == 'predicate_error' and exp['decisive']:
        out.append('predicate_error:decisive')
    if case.get('after'):
        out.append('following_session_writes')
    if exp.get('refused'):
        out.append('nested_session_refused')
    if exp.get('refused_caught'):
        out.append('nested_refusal_caught_by_body' + (':decisive' if exp['decisive'] else ''))
    return out


def _evaluate(ctx, case):
    from vlib import c18_harness as H
    verdict, exp, obs, msg = H.run_case(case, ctx.workdir)
    if verdict == 'inconclusive':
        ctx.inconclusive += 1
        return
    key = {'form': case['form'], 'opts': case.get('opts'), 'trace': exp.get('trace'),
           'drive': (case.get('drive') or [])[:exp.get('drive_used', 0)], 'async': case.get('async'),
           'after': case.get('after') or []}
    if exp['reject'] or exp.get('ambiguous_te'):
        ctx.rejected += 1
    if obs.leak:
        ctx.count('session_state_left_behind')
    ctx.case(key=key, nontrivial=bool(exp['decisive']), classes=_classes(case, exp),
             sample={'form': case['form'], 'opts': case.get('opts'), 'attempts': case['attempts'],
                     'drive': case.get('drive'), 'after': case.get('after'), 'outcome': exp['outcome'],
                     'executions': obs.executions,
                     'exception': H.exc_name(H.env(), obs.exc), 'final_rows': obs.final})
    if verdict == 'violation':
        ctx.fail(case, msg)


def run(ctx):
    from vlib import c18_harness as H
    H.env()
    case_st = _strategies()
    for form in ('decorator', 'context', 'generator', 'flask', 'bottle'):
        def t(raw):
            _evaluate(ctx, normalize(raw))
        ctx.run_test(t, dict(raw=case_st(form)), max_examples=ctx.scale(*BUDGET[form]), name='c18_' + form)
        if ctx.violation is not None:
            return


def replay(case):
    from vlib import c18_harness as H
    from vlib.runner import HOME
    workdir = os.path.join(HOME, '.work', 'replay_%d' % os.getpid())
    os.makedirs(workdir, exist_ok=True)
    try:
        verdict, exp, obs, msg = H.run_case(case, workdir)
        return msg if verdict == 'violation' else None
    finally:
        shutil.rmtree(workdir, ignore_errors=True)
        try:
            os.rmdir(os.path.join(HOME, '.work'))
        except OSError:
            pass


def _flask_exit_without_exc_type(case, message):
    """open finding C18-flask-exit-without-exc-type: pony/flask/__init__.py::_exit_session calls
    `session.__exit__(exc=exception)`, i.e. without the exception TYPE, and DBSessionContextManager._commit_or_rollback
    decides on `exc_type is None` -> a Flask request whose view raised is committed.  Matches only: Flask form, the view's
    exception reaches teardown_request with uncommitted changes pending, and the symptom is exactly that those pending
    changes are what ended up committed (or, after a failed flush() in the view, the commit attempt hits an assert)."""
    if case.get('form') != 'flask':
        return False
    exp = M.predict(case)
    if exp.get('outcome') != 'rollback' or not exp.get('exc'):
        return False
    if exp['exc']['cls'] == 'TIE' and exp['exc']['origin'] == 'pony':
        # the view's flush() failed; teardown then tries to COMMIT the broken cache instead of rolling back and
        # trips over `assert not cache.saved_objects` (nothing is committed, but the wrong exception comes out)
        return message.startswith('exception leaving the session: got AssertionError')
    return bool(exp.get('decisive')) and message.startswith(
        'final committed rows %r, expected' % (exp.get('pending_at_exit'),))


EXCLUSIONS = {'flask_exit_without_exc_type': _flask_exit_without_exc_type}

MANIFEST = {
    'text': 'Random db_session scripts (decorator, context manager, generator/coroutine function, Flask and Bottle '
            'integrations over stub packages; retry, allowed/retry exception lists and callables, nesting to depth 3, '
            'strict/immediate/serializable/optimistic) run on file-backed SQLite and compared with an independent '
            'reference function for committed rows (read through a separate sqlite3 connection), number of body '
            'executions and the propagated exception; a following session (empty or writing) must commit exactly its '
            'own work. Sampled, not exhaustive.',
    'note': 'Flask and Bottle are stubs implementing only the documented request life-cycle; "allowed exception => commit" '
            'is not asserted for generator sessions (undocumented); the should_retry attribute set by providers on lost '
            'connections, ddl=True and sql_debug are not generated; single thread, SQLite only.',
    'technique': 'hypothesis random scripts against a reference model (differential, independent read-back)',
}
