"""C34 Permission checks follow the declared access rules.

One generated case = a configuration: 1..5 access rules (entity sets, permission sets, group / role / label requirements,
exclude() of entities and of attributes incl. relationship attributes) over a small model (P, D, SD(D), T with a
one-to-many, a many-to-many and a one-to-one relationship), 1..3 users (plain objects of two classes, None, an entity
instance) with generated group sets, role tables (user, object) -> roles served through user_roles_getter, label tables
served through obj_labels_getter, 1..7 objects.  Every (user, permission, target) decision for every entity, attribute
and object is asked from Pony (has_perm and the can_* wrappers) three times -- in canonical order, re-ordered inside the
same db_session (the per-session cache is live) and re-ordered in a fresh db_session -- and compared with the reference
decision function in vlib/c34_model.py, which is written from the rule semantics and never calls Pony.  Database.to_json
is then called for generated (user, data, include) and its output is checked never to contain an object (or a schema
entity / attribute) the reference says the user may not view.

Histories: a case also carries 0..2 later epochs.  The db_session that precedes an epoch (it has just asked every
question, so Pony's per-thread group / role memo is full) is left normally, by a commit that fails on leaving the block
(duplicate unique key), by an exception in its body, by a failing flush, or after an explicit rollback(); then the tables
behind the getters change (the users' groups, the (user, object) roles, the object labels) and a new db_session -- asking
either about freshly fetched instances or about the very instances the previous session loaded -- must answer, and
to_json must filter, for the NEW tables.
"""
from math import gcd

from vlib import c34_model as M

ID = 'C34'
LEVEL = 'exploration'
RULE = ('hypothesis: configuration = 1..5 rules (entities subset of P/D/SD/T, permissions subset of view/edit/create/delete, '
        '0..2 required groups, 0..2 roles, 0..2 labels, excluded entities, excluded attributes incl. relationship attributes; '
        'six perm() argument styles incl. both spellings of a keyword (group= with groups=, role= with roles=, label= with '
        'labels=) in one call) x 1..3 users (PlainUser / OtherUser / None / a P instance; group getters returning '
        'list, single string or None) x (user, object) role tables and object label tables (a general getter and a '
        'class-restricted getter each) x 1..7 linked objects. One evaluation = one (configuration, user, permission, target) '
        'has_perm decision (target = entity, attribute or object), asked 3 times (canonical order; re-ordered in the same '
        'session; re-ordered in a new session) and, with the can_* wrappers, compared with the reference model, then asked '
        'twice more with Pony\'s rule sets iterated in declaration and in reversed order (answers must not move); then 0..2 '
        'later epochs: the preceding db_session ends normally / with a commit that fails on leaving it / with an exception in '
        'the body / with a failing flush / after rollback(), the group, role and label tables behind the getters are '
        're-drawn, and every decision is asked again in a new db_session (about fresh instances or about the instances kept '
        'from the previous session) and counted as one more evaluation against the reference for the new tables; each to_json '
        'call is one more evaluation. Non-trivial = at least one rule is registered for the permission on the target\'s entity '
        '(otherwise has_perm is False before any rule is looked at); distinct by (configuration hash, user, permission, target). '
        'Relationship attributes are only checked against the two implications the statement fixes.')
ASSUMPTIONS = ['reference decision function vlib/c34_model.py (entity / object / non-relationship attribute level exact; '
               'relationship attributes: both sides granted => granted, granted => one side granted)',
               'role and label requirements are vacuous at entity and attribute level (there is no object to take them from)',
               'SQLite in-memory database through pony.orm.dbproviders.sqlite',
               'the per-(entity, permission) rule container entity._access_rules_[perm] is a set iterated in an unspecified '
               '(address-dependent) order; passes 4/5 replace it by a sequence of the same rules in declaration / reversed '
               'order, which is one of the orders the set could have produced',
               'getter registries (pony.orm.core.usergroup_functions etc.) are process-global: six table-driven getters are '
               'registered once per worker process']
SHARDS = {'quick': 4, 'thorough': 16}
MIN_EVALS = {'quick': 250000, 'thorough': 3000000}
CLASS_FLOORS = {'entity:granted': 0.01, 'entity:denied_only_by_entity_exclusion': 0.001,
                'attr:granted': 0.02, 'attr:denied_only_by_attr_exclusion': 0.001,
                'object:granted': 0.01, 'object:granted_through_roles_or_labels': 0.001,
                'relattr:both_sides': 0.005, 'relattr:no_side': 0.01,
                'to_json:returned': 0.0005, 'to_json:refused': 0.0005,
                'history:answer_changed_after_commit_error': 0.002, 'history:answer_changed_after_body_error': 0.001,
                'history:answer_changed_after_flush_error': 0.001, 'history:answer_changed_after_rollback_call': 0.001,
                'history:answer_changed_after_normal': 0.001, 'history:kept_instances': 0.02}


# ------------------------------------------------------------------------------------------------------------------
# Pony side
# ------------------------------------------------------------------------------------------------------------------
class DocMixin(object):
    pass


class PlainUser(object):
    def __init__(self, idx):
        self.idx = idx

    def __repr__(self):
        return 'PlainUser#%d' % self.idx


class OtherUser(object):
    def __init__(self, idx):
        self.idx = idx

    def __repr__(self):
        return 'OtherUser#%d' % self.idx


CUR = {'cfg': None, 'entity_users': {}}
_installed = []


def _ukey(user):
    if isinstance(user, (PlainUser, OtherUser)):
        return user.idx
    return CUR['entity_users'][user.id]


def _okey(obj):
    return '%s:%d' % (obj.__class__._root_.__name__, obj.id)


def _shape(v):
    return list(v) if isinstance(v, (list, tuple)) else v


def _install():
    """the getter registries are module-level lists in pony.orm.core: register table-driven getters once per process"""
    if _installed:
        return
    from pony.orm import user_groups_getter, user_roles_getter, obj_labels_getter

    @user_groups_getter()
    def groups_any(user):
        return _shape(CUR['cfg']['users'][_ukey(user)].get('g1'))

    @user_groups_getter(PlainUser)
    def groups_plain(user):
        return _shape(CUR['cfg']['users'][_ukey(user)].get('g2'))

    @user_roles_getter()
    def roles_any(user, obj):
        return _shape(CUR['cfg']['roles1'].get('%d|%s' % (_ukey(user), _okey(obj))))

    @user_roles_getter(PlainUser, DocMixin)
    def roles_plain_doc(user, obj):
        return _shape(CUR['cfg']['roles2'].get('%d|%s' % (_ukey(user), _okey(obj))))

    @obj_labels_getter()
    def labels_any(obj):
        return _shape(CUR['cfg']['labels1'].get(_okey(obj)))

    @obj_labels_getter(DocMixin)
    def labels_doc(obj):
        return _shape(CUR['cfg']['labels2'].get(_okey(obj)))

    _installed.append(True)


class Env(object):
    pass


def build(cfg):
    from pony.orm import Database, PrimaryKey, Required, Optional, Set, db_session, perm
    _install()
    db = Database()

    class P(db.Entity):
        id = PrimaryKey(int)
        name = Required(str)
        note = Optional(str)
        docs = Set('D')
        best = Optional('T')

    class D(db.Entity, DocMixin):
        id = PrimaryKey(int)
        title = Required(str)
        body = Optional(str)
        owner = Required(P)
        tags = Set('T')

    class SD(D):
        extra = Optional(int)

    class T(db.Entity):
        id = PrimaryKey(int)
        label = Required(str)
        docs = Set(D)
        fan = Optional(P)

    class Aux(db.Entity):                       # no rule ever names it: only used to make a commit / flush fail
        id = PrimaryKey(int)
        k = Required(int, unique=True)

    db.bind('sqlite', ':memory:')
    db.generate_mapping(create_tables=True)
    env = Env()
    env.db = db
    env.Aux = Aux
    env.aux_next = 1
    env.pool, env.prev_pool, env.keep = {}, {}, False
    env.entities = {'P': P, 'D': D, 'SD': SD, 'T': T}
    env.attrs = {}
    env.rule_objs = []
    for a in M.ATTR_NAMES:
        e, n = a.split('.')
        env.attrs[a] = getattr(env.entities[e], n)
        assert env.attrs[a].entity is env.entities[e], a

    for r in cfg['rules']:
        style = r.get('style', 0)
        with db.set_perms_for(*[env.entities[e] for e in r['entities']]):
            kw = {}
            if style == 0:
                args = list(r['perms'])
                for k, v in (('groups', r['groups']), ('roles', r['roles']), ('labels', r['labels'])):
                    kw[k] = list(v)
            elif style == 1:
                args = [' '.join(r['perms'])]
                for k, v in (('group', r['groups']), ('role', r['roles']), ('label', r['labels'])):
                    if v:
                        kw[k] = ' '.join(v)
            elif style == 2:
                args = [','.join(r['perms'])]
                for k, v in (('groups', r['groups']), ('roles', r['roles']), ('labels', r['labels'])):
                    kw[k] = ', '.join(v) if v else None
            elif style == 3:
                args = [list(r['perms'])]
                for k, v in (('group', r['groups']), ('role', r['roles']), ('label', r['labels'])):
                    if v:
                        kw[k] = tuple(v)
            else:
                # both spellings of a keyword in one call (group= and groups=, role= and roles=, label= and labels=):
                # the requirement is the union of the names given under either spelling
                args = list(r['perms'])
                for k, v in (('group', r['groups']), ('role', r['roles']), ('label', r['labels'])):
                    v = list(v)
                    if style == 4:
                        one, many = v[:1], v[1:]               # first name under the singular keyword, the rest plural
                    else:
                        one, many = v[1:], v[:1]               # the other way round
                    if one:
                        kw[k] = one[0] if len(one) == 1 else list(one)
                    if many:
                        kw[k + 's'] = ' '.join(many) if style == 4 else list(many)
                    elif style == 5 and not v:
                        kw[k + 's'] = []
            rule = perm(*args, **kw)
            env.rule_objs.append(rule)
            xs = [env.entities[e] for e in r['excl_entities']] + [env.attrs[a] for a in r['excl_attrs']]
            if style % 2 == 0:
                if xs:
                    rule.exclude(*xs)
            else:
                for x in xs:
                    rule.exclude(x)

    with db_session:
        Aux(id=1, k=1)
        people = [P(id=i + 1, name='p%d' % i) for i in range(cfg['people'])]
        tags = [T(id=k + 1, label='t%d' % k, fan=None if t['fan'] is None else people[t['fan']])
                for k, t in enumerate(cfg['tags'])]
        for j, d in enumerate(cfg['docs']):
            cls = SD if d['sub'] else D
            cls(id=j + 1, title='d%d' % j, owner=people[d['owner']], tags=[tags[k] for k in d['tags']])
    env.plain = {}
    CUR['entity_users'] = {}
    for ui, u in enumerate(cfg['users']):
        if u['kind'] == 'plain':
            env.plain[ui] = PlainUser(ui)
        elif u['kind'] == 'other':
            env.plain[ui] = OtherUser(ui)
        elif u['kind'] == 'entity':
            CUR['entity_users'][u['person'] + 1] = ui
    CUR['cfg'] = cfg
    return env


class _Seq(list):
    """stands in for the set in entity._access_rules_[perm]: same rules, iteration order chosen by the harness"""
    def add(self, rule):
        if rule not in self:
            self.append(rule)


def _set_rule_order(env, reverse):
    """Pony keeps the rules of an (entity, permission) in a set of AccessRule objects hashed by address, so the order in
    which has_perm meets them is unspecified.  Replace every such set by a sequence of the same rules in declaration
    order (or reversed): any answer that changes with it depends on something the declared rules do not fix."""
    index = {id(r): i for i, r in enumerate(env.rule_objs)}
    for entity in env.entities.values():
        for perm_name, rules in list(entity._access_rules_.items()):
            ordered = sorted(rules, key=lambda r: index[id(r)], reverse=reverse)
            assert len(ordered) == len(set(map(id, rules)))
            entity._access_rules_[perm_name] = _Seq(ordered)


def _user(env, cfg, ui):
    u = cfg['users'][ui]
    if u['kind'] == 'none':
        return None
    if u['kind'] == 'entity':
        return _instance(env, 'P:%d' % (u['person'] + 1))
    return env.plain[ui]


def _instance(env, okey):
    '''the entity instance for okey: fetched in the current db_session, or -- in a session run with keep=True -- the very
    instance the previous db_session worked with (users and objects alike, so that `user is obj` keeps its meaning)'''
    obj = env.pool.get(okey)
    if obj is None:
        if env.keep and okey in env.prev_pool:
            obj = env.prev_pool[okey]
        else:
            e, n = okey.split(':')
            obj = env.entities[e][int(n)]
        env.pool[okey] = obj
    return obj


def _target(env, target):
    kind, name = target
    if kind == 'E':
        return env.entities[name]
    if kind == 'A':
        return env.attrs[name]
    return _instance(env, name)


def _ask(env, cfg, ui, fn, target):
    from pony.orm import core
    user = _user(env, cfg, ui)
    x = _target(env, target)
    if fn in M.PERMS:
        return bool(core.has_perm(user, fn, x))
    return bool(getattr(core, fn)(user, x))


FNS = M.PERMS + sorted(M.CAN)


class _BodyError(Exception):
    pass


def _session(env, body, end=None, keep=False):
    """run body() inside one db_session and leave the session the way `end` says:
    normal / None  -- the block is left normally (commit);
    commit_error   -- an object with a duplicate unique key is pending, so the commit made on leaving the block fails;
    body_error     -- an exception is raised inside the block (with a pending insert): rollback path;
    flush_error    -- flush() of a duplicate unique key fails inside the block: rollback path;
    rollback_call  -- rollback() is called inside the block, which is then left normally.
    keep=True: permission questions in this session are asked about the entity instances (objects and entity users) that
    the previous session loaded, not about freshly fetched ones."""
    from pony.orm import db_session, rollback, flush
    from pony.orm import core
    commit_errors = (core.TransactionIntegrityError, core.IntegrityError, core.CommitException)
    env.prev_pool, env.pool, env.keep = env.pool, {}, keep
    try:
        with db_session:
            body()
            if end in ('commit_error', 'flush_error'):
                env.aux_next += 1
                env.Aux(id=env.aux_next, k=1)            # Aux[1] (k=1) is in the database but not loaded here
                if end == 'flush_error':
                    flush()
            elif end == 'body_error':
                env.aux_next += 1
                env.Aux(id=env.aux_next, k=env.aux_next)
                raise _BodyError()
            elif end == 'rollback_call':
                env.aux_next += 1
                env.Aux(id=env.aux_next, k=env.aux_next)
                rollback()
    except _BodyError:
        return
    except commit_errors:
        if end not in ('commit_error', 'flush_error'):
            raise
        return
    if end in ('commit_error', 'flush_error', 'body_error'):
        raise AssertionError('harness: a db_session meant to end with %s ended normally' % end)


def _describe(ref, cfg, ui, target):
    kind, name = target
    s = 'user#%d %r groups=%s' % (ui, cfg['users'][ui]['kind'], sorted(ref.groups(ui)))
    if kind == 'O':
        s += ' roles=%s; object %s class=%s labels=%s' % (sorted(ref.roles(ui, name)), name, ref.obj_class(name),
                                                        sorted(ref.labels(name)))
    return s


def evaluate(cfg, report, count=None):
    """run the whole procedure for one configuration.  report(focus, message) is called for every mismatch;
    count(key, nontrivial, classes, sample) for every first-pass decision of every epoch."""
    from pony.orm import set_current_user
    import json
    from vlib.runner import chash
    cfg = M.normalise(cfg)
    env = build(cfg)
    try:
        targets = M.targets(cfg)
        decisions = [(ui, fn, t) for ui in range(len(cfg['users'])) for t in targets for fn in FNS]
        n = len(decisions)
        rules_json = json.dumps(cfg['rules'], sort_keys=True)

        def make_judge(ref, ecfg, first, epoch, history):
            def judge(k, got, pass_no):
                ui, fn, t = decisions[k]
                focus = {'kind': 'decision', 'user': ui, 'fn': fn, 'target': t, 'pass': pass_no, 'got': got}
                if epoch:
                    focus['epoch'] = epoch
                if k in first and first[k] != got:
                    report(focus, '%s(%s, %s) answered %r in pass %d but %r when first asked (same rules, same tables)'
                           % (fn, _describe(ref, ecfg, ui, t), t[1], got, pass_no, first[k]))
                    return
                lo, up = ref.bounds(ui, fn, t)
                rel = t[0] == 'A' and M.ATTRS[t[1]][1] is not None
                if got and not up:
                    why = 'no rule grants the attribute or its reverse %s' % M.ATTRS[t[1]][1] if rel else 'no rule grants it'
                    report(focus, '%s%s(%s, %s) is True but %s under the declared rules %s'
                           % (history, fn, _describe(ref, ecfg, ui, t), t[1], why, rules_json))
                elif lo and not got:
                    report(focus, '%s%s(%s, %s) is False but the declared rules grant it%s: %s'
                           % (history, fn, _describe(ref, ecfg, ui, t), t[1],
                              ' on both sides of the relationship' if rel else '', rules_json))
            return judge

        def order(stride, offset):
            stride = stride % n or 1
            while gcd(stride, n) != 1:
                stride += 1
            return [(offset + i * stride) % n for i in range(n)]

        def tables_hash(ecfg):
            return chash([cfg['rules'], ecfg['users'], ecfg['roles1'], ecfg['roles2'], ecfg['labels1'],
                          ecfg['labels2'], cfg['docs'], cfg['tags'], cfg['people']])

        def count_decision(ref, ecfg, h, k, got, extra_classes=()):
            ui, fn, t = decisions[k]
            nt, classes = ref.classify(ui, fn, t)
            sample = None
            if nt and k % 37 == 5:
                sample = {'rules': cfg['rules'], 'user': ecfg['users'][ui], 'groups': sorted(ref.groups(ui)),
                          'permission': fn, 'target': t, 'pony': got, 'reference_bounds': list(ref.bounds(ui, fn, t))}
                if t[0] == 'O':
                    sample['roles'] = sorted(ref.roles(ui, t[1]))
                    sample['labels'] = sorted(ref.labels(t[1]))
                if extra_classes:
                    sample['history'] = list(extra_classes)
            count([h, ui, fn, t], nt, list(classes) + list(extra_classes), sample)

        epochs = cfg['epochs']
        next_end = lambda e: epochs[e]['end'] if e < len(epochs) else None     # how the last session of epoch e ends

        # ---- epoch 0: the tables as declared -------------------------------------------------------------------
        ref = M.Ref(cfg)
        first = {}
        judge = make_judge(ref, cfg, first, 0, '')
        h0 = tables_hash(cfg) if count is not None else None

        def session_a():
            for k in range(n):                                         # pass 1: canonical order
                ui, fn, t = decisions[k]
                got = _ask(env, cfg, ui, fn, t)
                judge(k, got, 1)
                first[k] = got
                if count is not None and fn in M.PERMS:
                    count_decision(ref, cfg, h0, k, got)
            _to_json_checks(env, cfg, ref, report, count, 0)           # interleaved: to_json fills the same caches
            for k in order(cfg['order']['stride'], cfg['order']['offset']):   # pass 2: re-ordered, same session
                ui, fn, t = decisions[k]
                judge(k, _ask(env, cfg, ui, fn, t), 2)
        _session(env, session_a)

        def session_b():
            for k in order(cfg['order']['stride'] * 7 + 3, cfg['order']['offset'] + 1):   # pass 3: new session
                ui, fn, t = decisions[k]
                judge(k, _ask(env, cfg, ui, fn, t), 3)
        _session(env, session_b)

        answers = []
        for reverse in (False, True):                                 # pass 4/5: rule iteration order chosen by the harness,
            def session_order():                                      # one fresh session (fresh permission cache) each
                _set_rule_order(env, reverse)
                answers.append({k: _ask(env, cfg, *decisions[k]) for k in range(n) if decisions[k][1] in M.PERMS})
            _session(env, session_order, next_end(0) if reverse else None)
        for k in sorted(answers[0]):
            a, b = answers[0][k], answers[1][k]
            if a != b or a != first[k]:
                ui, fn, t = decisions[k]
                report({'kind': 'rule_order', 'user': ui, 'fn': fn, 'target': t, 'got': [first[k], a, b]},
                       '%s(%s, %s) depends on the order in which Pony iterates its set of rules: %r as first asked, %r '
                       'with the rules met in declaration order, %r in reverse declaration order; declared rules %s'
                       % (fn, _describe(ref, cfg, ui, t), t[1], first[k], a, b, rules_json))

        # ---- later epochs: the previous session ended as epochs[e-1]['end'] says, then the tables changed --------------
        prev_ref = ref
        for e in range(1, len(epochs) + 1):
            ecfg = M.effective(cfg, e)
            eref = M.Ref(ecfg)
            CUR['cfg'] = ecfg                                         # the getters now serve the new tables
            ended = epochs[e - 1]['end']
            kept = bool(epochs[e - 1].get('keep'))
            history = ('[epoch %d: the previous db_session of this thread asked the same questions and ended with %s; '
                       'the getters then started to return new groups / roles / labels%s] '
                       % (e, ended, '; the entity instances loaded by that session are asked about again' if kept else ''))
            efirst = {}
            ejudge = make_judge(eref, ecfg, efirst, e, history)
            eh = tables_hash(ecfg) if count is not None else None

            def session_e():
                for k in order(cfg['order']['stride'] + e, cfg['order']['offset'] + e):
                    ui, fn, t = decisions[k]
                    got = _ask(env, ecfg, ui, fn, t)
                    ejudge(k, got, 1)
                    efirst[k] = got
                    if count is not None and fn in M.PERMS:
                        extra = ['history:after_' + ended] + (['history:kept_instances'] if kept else [])
                        if eref.bounds(ui, fn, t) != prev_ref.bounds(ui, fn, t):
                            extra.append('history:answer_changed_after_' + ended)
                        count_decision(eref, ecfg, eh, k, got, extra)
                if not kept:
                    _to_json_checks(env, ecfg, eref, report, count, e)   # to_json wants objects of the current session
            _session(env, session_e, next_end(e), keep=kept)
            prev_ref = eref
    finally:
        set_current_user(None)
        CUR['cfg'] = None
        env.db.disconnect()


def _to_json_checks(env, cfg, ref, report, count, epoch=0):
    import json
    from pony.orm import set_current_user
    from pony.orm.core import PermissionError as PonyPermissionError
    all_objects = M.object_keys(cfg)
    for jn, op in enumerate(cfg['json']):
        ui = op['user'] % len(cfg['users'])
        data = [all_objects[i % len(all_objects)] for i in op['data']]
        include = [a for a in op['include'] if a in M.ATTRS]
        closure = ref.closure(data, include)
        hidden = [o for o in closure if not ref.bounds(ui, 'can_view', ['O', o])[1]]
        set_current_user(_user(env, cfg, ui))
        base = {'kind': 'to_json', 'op': jn, 'user': ui, 'fn': 'can_view'}
        if epoch:
            base['epoch'] = epoch
        try:
            try:
                text = env.db.to_json({'items': [_target(env, ['O', o]) for o in data]},
                                      include=[env.attrs[a] for a in include], with_schema=bool(op['with_schema']))
            except PonyPermissionError as e:
                if count is not None:
                    count(None, False, ['to_json:refused'], None)
                if not hidden:
                    report(dict(base, target=['O', None], got=False),
                           'to_json(%s, include=%s) for %s refused with PermissionError (%s) although the rules let the user '
                           'view every object reachable from the data: %s'
                           % (data, include, _describe(ref, cfg, ui, ['E', '']), e, closure))
                continue
        finally:
            set_current_user(None)
        if count is not None:
            count(None, False, ['to_json:returned'], None)
        out = json.loads(text)
        got = set()
        for item in out['data']['items']:
            got.add((item['class'], item['pk']))
        for cls, by_pk in out['objects'].items():
            for pk in by_pk:
                got.add((cls, int(pk)))
        for cls, pk in sorted(got):
            okey = '%s:%d' % ('D' if cls == 'SD' else cls, pk)
            if not ref.bounds(ui, 'can_view', ['O', okey])[1]:
                report(dict(base, target=['O', okey], got=True),
                       'to_json(%s, include=%s) for %s contains object %s[%d] which the user may not view under the '
                       'declared rules %s' % (data, include, _describe(ref, cfg, ui, ['O', okey]), cls, pk,
                                              json.dumps(cfg['rules'], sort_keys=True)))
        if op['with_schema']:
            listed = {}
            for e in out['schema']:
                listed[e['name']] = {a['name'] for a in e['newAttrs']}
            for ename in M.ENTITIES:
                may = ref.bounds(ui, 'can_view', ['E', ename])[0]
                if (ename in listed) != may:
                    report(dict(base, kind='schema', target=['E', ename], got=ename in listed),
                           'to_json schema for %s %s entity %s but the reference says can_view=%r'
                           % (_describe(ref, cfg, ui, ['E', ename]), 'lists' if ename in listed else 'omits', ename, may))
                    continue
                if not may:
                    continue
                for a in M.ATTR_NAMES:
                    if M.ATTRS[a][0] != ename:
                        continue
                    lo, up = ref.bounds(ui, 'can_view', ['A', a])
                    is_listed = a.split('.')[1] in listed[ename]
                    rev = M.ATTRS[a][1]
                    if rev is None:
                        if is_listed != lo:
                            report(dict(base, kind='schema', target=['A', a], got=is_listed),
                                   'to_json schema for %s %s attribute %s but the reference says can_view=%r'
                                   % (_describe(ref, cfg, ui, ['A', a]), 'lists' if is_listed else 'omits', a, lo))
                    elif is_listed and not (up and ref.bounds(ui, 'can_view', ['E', M.ATTRS[rev][0]])[1]):
                        report(dict(base, kind='schema', target=['A', a], got=True),
                               'to_json schema for %s lists relationship attribute %s although no rule lets the user view it '
                               'or its reverse (or the entity on the other side)' % (_describe(ref, cfg, ui, ['A', a]), a))


# ------------------------------------------------------------------------------------------------------------------
# generator
# ------------------------------------------------------------------------------------------------------------------
def configs():
    from hypothesis import strategies as st

    def subset(xs, lo=0, hi=None):
        return st.lists(st.sampled_from(xs), min_size=lo, max_size=hi if hi is not None else len(xs), unique=True).map(sorted)

    names_shape = lambda xs, hi: st.one_of(st.none(), st.sampled_from(xs), subset(xs, 0, hi))
    @st.composite
    def rule_st(draw):
        entities = draw(subset(M.ENTITIES, 1, 3))
        own = sorted(M.expand(entities))
        own_attrs = [a for a in M.EXCLUDABLE if M.ATTRS[a][0] in own]
        own_rel = [a for a in own_attrs if M.ATTRS[a][1]]
        near = sorted(set(own_rel) | {M.ATTRS[a][1] for a in own_rel})      # both sides of the rule's relationships
        xa = [st.just([]), subset(M.EXCLUDABLE, 0, 3), subset(own_attrs, 0, 3)]
        if near:
            xa.append(subset(near, 1, 3))
        perms = draw(subset(M.PERMS, 1, 4))
        return {
            'entities': entities,
            'perms': [p for p in M.PERMS if p in perms],
            'groups': draw(subset(M.GROUPS, 0, 2)),
            'roles': draw(st.one_of(st.just([]), subset(M.ROLES, 0, 2), st.just(['self']))),
            'labels': draw(st.one_of(st.just([]), subset(M.LABELS, 0, 2))),
            'excl_entities': draw(st.one_of(st.just([]), subset(M.ENTITIES, 0, 2), subset(own, 0, 2))),
            'excl_attrs': draw(st.one_of(*xa)),
            'style': draw(st.integers(0, 5)),
        }
    rule = rule_st()
    user = st.fixed_dictionaries({
        'kind': st.sampled_from(['plain', 'plain', 'other', 'entity', 'entity', 'none']),
        'person': st.integers(0, 1),
        'g1': names_shape(M.GROUPS, 3),
        'g2': names_shape(M.GROUPS, 2),
    })

    @st.composite
    def cfgs(draw):
        cfg = {'rules': draw(st.lists(rule, min_size=1, max_size=5)),
               'users': draw(st.lists(user, min_size=1, max_size=3)),
               'people': draw(st.integers(1, 2)),
               'tags': draw(st.lists(st.fixed_dictionaries({'fan': st.one_of(st.none(), st.integers(0, 1))}), max_size=2)),
               'docs': draw(st.lists(st.fixed_dictionaries({'sub': st.booleans(), 'owner': st.integers(0, 1),
                                                            'tags': subset([0, 1], 0, 2)}), max_size=3))}
        seen = set()
        for u in cfg['users']:                                      # one user per P instance
            if u['kind'] == 'entity':
                p = u['person'] % cfg['people']
                if p in seen:
                    u['kind'] = 'plain'
                seen.add(p)
        M.normalise(cfg)
        objs = M.object_keys(cfg)
        roles1, roles2, labels1, labels2 = {}, {}, {}, {}
        # the class-restricted tables (roles2: PlainUser x DocMixin, labels2: DocMixin) are filled for every user / object:
        # entries outside the registered classes must be ignored by Pony (the reference ignores them)
        for ui, u in enumerate(cfg['users']):
            if u['kind'] == 'none':
                continue
            for o in objs:
                for table in (roles1, roles2):
                    v = draw(names_shape(M.ROLES, 2))
                    if v is not None:
                        table['%d|%s' % (ui, o)] = v
        for o in objs:
            for table in (labels1, labels2):
                v = draw(names_shape(M.LABELS, 2))
                if v is not None:
                    table[o] = v
        cfg.update(roles1=roles1, roles2=roles2, labels1=labels1, labels2=labels2)
        cfg['order'] = {'stride': draw(st.integers(1, 1000)), 'offset': draw(st.integers(0, 1000))}
        cfg['json'] = draw(st.lists(st.fixed_dictionaries({
            'user': st.integers(0, 2), 'data': st.lists(st.integers(0, 6), min_size=1, max_size=3),
            'include': subset(M.REL_ATTRS, 0, 3), 'with_schema': st.booleans()}), min_size=1, max_size=2))
        # later epochs: how the previous db_session ends, and the tables the getters serve from then on
        epochs = []
        for _ in range(draw(st.integers(0, 2))):
            ep = {'end': draw(st.sampled_from(M.END_MODES + ['commit_error'])), 'keep': draw(st.booleans()),
                  'g': [[draw(names_shape(M.GROUPS, 3)), draw(names_shape(M.GROUPS, 2))] for _u in cfg['users']],
                  'roles1': {}, 'labels1': {}}
            for ui, u in enumerate(cfg['users']):
                if u['kind'] == 'none':
                    continue
                for o in objs:
                    v = draw(names_shape(M.ROLES, 2))
                    if v is not None:
                        ep['roles1']['%d|%s' % (ui, o)] = v
            for o in objs:
                v = draw(names_shape(M.LABELS, 2))
                if v is not None:
                    ep['labels1'][o] = v
            epochs.append(ep)
        cfg['epochs'] = epochs
        return cfg
    return cfgs()


def run(ctx):
    def t(cfg):
        def report(focus, message):
            ctx.fail({'cfg': cfg, 'focus': focus}, message)

        def count(key, nontrivial, classes, sample):
            ctx.case(key=key, nontrivial=nontrivial, classes=classes, sample=sample)
        evaluate(cfg, report, count)
    ctx.run_test(t, dict(cfg=configs()), max_examples=ctx.scale(500, 2000), name='rule_sets')


def replay(case):
    """re-run one stored configuration without hypothesis; returns the violation message (the one for the stored focus
    when it still fails, otherwise the first mismatch) or None"""
    import copy
    found = []

    def report(focus, message):
        found.append((focus, message))
    evaluate(copy.deepcopy(case['cfg']), report, None)
    if not found:
        return None
    want = case.get('focus') or {}
    ident = lambda f: (f.get('kind'), f.get('user'), f.get('fn'), f.get('target'), f.get('epoch', 0))
    for focus, message in found:
        if ident(focus) == ident(want):
            return message
    return found[0][1]


# ------------------------------------------------------------------------------------------------------------------
# open known findings: narrow predicates named by root cause
# ------------------------------------------------------------------------------------------------------------------
def _explained_by(case, variant, level):
    """the stored mismatch is 'Pony granted what the rules do not grant', it is about a target of the given level, and it
    disappears when the reference is given exactly the defect named by `variant` (and nothing else)"""
    focus = case.get('focus') or {}
    target = focus.get('target') or [None, None]
    if focus.get('got') is not True or focus.get('kind') not in ('decision', 'to_json', 'schema'):
        return False
    if target[0] != level or target[1] is None:
        return False
    if level == 'A' and M.ATTRS[target[1]][1] is None:
        return False
    cfg = M.normalise(dict(case['cfg']))
    ref = M.Ref(M.effective(cfg, focus.get('epoch', 0)))
    ui, fn = focus['user'], focus['fn']
    if ref.bounds(ui, fn, target)[1]:
        return False                      # not a wrong grant at all (e.g. an unstable answer): never excluded
    return ref.bounds(ui, fn, target, variant=variant)[1]


def _obj_entity_exclusion_ignored(case, message):
    """open finding C34-object-entity-exclusion-ignored: at object level has_perm tests `x in rule.entities_to_exclude`
    with x the object, which is never true, so a rule that excludes the object's class still grants the object."""
    return _explained_by(case, 'obj_ignores_entity_exclusions', 'O')


def _reverse_loop_over_forward_rules(case, message):
    """open finding C34-reverse-loop-forward-rules: for a relationship attribute the reverse-side loop iterates the forward
    entity's rules, so a forward rule that excludes the attribute still grants it whenever that same rule does not
    exclude the reverse entity / reverse attribute and the reverse entity has any rule for the permission."""
    return _explained_by(case, 'reverse_loop_over_forward_rules', 'A')


def _early_return_depends_on_rule_order(case, message):
    """open finding C34-relattr-early-return-rule-order: inside the loop over the forward rules has_perm executes
    `if not reverse_rules: return False` as soon as ONE forward rule does not grant a relationship attribute whose reverse
    entity has no rule for the permission; a later forward rule that grants the attribute is then never looked at, so the
    answer depends on the iteration order of a set of AccessRule objects (hashed by address)."""
    focus = case.get('focus') or {}
    target = focus.get('target') or [None, None]
    if focus.get('kind') != 'rule_order' or target[0] != 'A' or focus.get('fn') not in M.PERMS:
        return False
    entity, rev, _ = M.ATTRS[target[1]]
    if rev is None:
        return False
    ref = M.Ref(M.effective(M.normalise(dict(case['cfg'])), focus.get('epoch', 0)))
    ui, fn = focus['user'], focus['fn']
    if ref.registered(M.ATTRS[rev][0], fn):
        return False                      # the reverse entity has rules: the early return cannot fire
    g = ref.groups(ui)
    grants = [r['groups'] <= g and entity not in r['xe'] and target[1] not in r['xa'] for r in ref.registered(entity, fn)]
    return any(grants) and not all(grants)


EXCLUSIONS = {'early_return_depends_on_rule_order': _early_return_depends_on_rule_order,
              'obj_entity_exclusion_ignored': _obj_entity_exclusion_ignored,
              'reverse_loop_over_forward_rules': _reverse_loop_over_forward_rules}

MANIFEST = {
    'text': 'Hypothesis-generated rule sets (1-5 rules with group/role/label requirements and entity/attribute exclusions) over '
            'a 4-class model with three relationships, 1-3 users of four kinds and up to 7 objects; every (user, permission, '
            'entity|attribute|object) decision of has_perm / can_* is asked three times (canonical, re-ordered in the same '
            'session, re-ordered in a new session) and compared with an independent reference decision function; multi-session '
            'histories (sessions ended by a failing commit, a body exception, a failing flush or rollback(), followed by '
            'changed group / role / label tables) must answer for the current tables; to_json '
            'output (objects and schema) is checked to contain nothing the reference forbids. Sampled, not exhaustive.',
    'note': 'The permission subsystem is undocumented: relationship attributes are only held to the two implications the '
            'statement fixes under either reading of its reverse-side clause; entity/attribute level treat role and label '
            'requirements as vacuous. Rule iteration order inside Pony (a set of AccessRule objects hashed by address) cannot '
            'be controlled, so order-dependent answers in the unasserted in-between cases are not detected.',
    'technique': 'hypothesis random search against a reference decision model + repeated/re-ordered call metamorphic check',
}
