"""C11 -- decided by the session interpreter (vlib/sessmachine.py) against the reference store (vlib/refstore.py)."""
from vlib import sesscheck

ID = 'C11'
LEVEL = 'exploration'
RULE = 'One-to-one-in-key histories (vlib/c11_seat.py): Seat(PrimaryKey(room, person)) with Seat.person the required side of a one-to-one relationship; creations that fail while their key is being linked (person already seated, key already live), deletes, flushes and commits are decided by a dict model, and after every call every possible key is looked up by get(), Seat[objects], Seat[raw ids], Person.seat, Room.seats and select(): no object may be left behind by a failed creation and an allowed creation must succeed. Nested-key histories (vlib/nested_hist.py): sessions over Shelf(PrimaryKey(room, no)) / Box(PrimaryKey(shelf, pos)) / Tag(PrimaryKey(box)) / Item(box) that create chains of new objects whose keys reference each other, flush single objects or everything, delete with cascades, re-create deleted keys and look objects up; a dict model decides each call; this check reports the identity category. Nested-key part (vlib/c11_nested.py): Shelf(PrimaryKey(room, no)) / Box(PrimaryKey(shelf, pos)) / Item(box) with generated rows; Box objects are reached by navigation, attribute-path and tuple queries, Box[room, no, pos], Box[shelf, pos], get() and selects in a drawn order and must be one Python object per key with the right key. Main part: Same program space as C09 with identity checks weighted up: for every object the program holds, Entity[pk], get(pk), get(unique=value), select(), select_by_sql() and an in-session pickle round trip must return the very same Python object, and get(unique=v) must return the current holder according to the reference store. Non-trivial = an identity check executed after a key change, delete or failed creation in the same session; distinct by program hash. A share of the programs (one third; one half for C11/C13/C15) comes from the hub family: every relationship starts at one entity, with cascading/unlinking relationships declared around a refusing one, populated, and then aimed operations (pending updates of children, pending removals on the hub collections, new children with explicit keys) precede the delete of the hub, so that deletes refused after part of their cascade are common.'
ASSUMPTIONS = ['live SQLite (in-memory) with foreign keys enforced immediately',
               'reference store vlib/refstore.py written from the documented relationship/cascade/key semantics (DESIGN.md section 7a)',
               'table and column names are taken from the mapping metadata (names only)']
SHARDS = {'quick': 8, 'thorough': 16}
MIN_EVALS = {'quick': 3000, 'thorough': 5000}
PROPS = {'C11'}
WEIGHTS = {'ident': 8, 'read': 6, 'rekey': 5}

run = sesscheck.make_run(ID, PROPS, 1000, 8000, weights=WEIGHTS, hub_weights={'ident': 6, 'read': 3}, hub_share=(1, 2),
                         nontrivial=lambda program, stats: stats.get('op:ident', 0) > 0 and (stats.get('op:del', 0) + stats.get('op:set', 0) + stats.get('op:setm', 0)) > 0)
_replay_session = sesscheck.make_replay(ID, PROPS)
_run_session = run


def run(ctx):
    _run_session(ctx)
    if ctx.violation is not None:
        return
    # nested-key part (vlib/c11_nested.py): keys that contain a reference to a composite-key entity, reached by several paths
    from vlib import c11_nested

    def tn(case):
        msg = c11_nested.judge(case)
        ctx.case(key=case, nontrivial=len(case['boxes']) >= 2 and len(set(case['paths'])) >= 2, classes=['nested_keys'],
                 sample={'boxes': case['boxes'], 'paths': case['paths']} if len(case['boxes']) >= 2 else None)
        if msg:
            ctx.fail(case, msg)
    ctx.run_test(tn, dict(case=c11_nested.cases()), max_examples=ctx.scale(150, 1500), name='C11_nested')
    if ctx.violation is not None:
        return
    from vlib import nested_hist

    def th(case):
        msg = nested_hist.judge(case, 'identity')
        nops = sum(len(s_['ops']) for s_ in case['sessions'])
        ctx.case(key=case, nontrivial=nops >= 4, classes=['nested_hist'], sample={'sessions': [[o[0] for o in s_['ops']] for s_ in case['sessions']]} if nops >= 6 else None)
        if msg:
            ctx.fail(case, msg)
    ctx.run_test(th, dict(case=nested_hist.cases()), max_examples=ctx.scale(150, 1500), name='C11_nested_hist')
    if ctx.violation is not None:
        return
    # one-to-one-in-key part (vlib/c11_seat.py): creations that fail while their key is being linked
    from vlib import c11_seat

    def ts(case):
        msg = c11_seat.judge(case)
        nt = c11_seat.nontrivial(case)
        ctx.case(key=case, nontrivial=nt, classes=['seat_hist'], sample={'initial': case['initial'], 'sessions': case['sessions']} if nt else None)
        if msg:
            ctx.fail(case, msg)
    ctx.run_test(ts, dict(case=c11_seat.cases()), max_examples=ctx.scale(100, 1000), name='C11_seat')


def replay(case):
    if case.get('kind') == 'nested_hist':
        from vlib import nested_hist
        return nested_hist.judge(case, 'identity')
    if case.get('kind') == 'seat':
        from vlib import c11_seat
        return c11_seat.judge(case)
    if case.get('kind') == 'nested':
        from vlib import c11_nested
        return c11_nested.judge(case)
    return _replay_session(case)

MANIFEST = {
    'text': 'Identity-map invariants (one Python object per primary key by every access path, unique-key lookups return the current holder) checked at generated points of generated histories including key changes, deletes and failed creations.',
    'note': 'SQLite only; trusts the hand-written reference store (rules and sources in DESIGN.md 7a) and hypothesis generation; '
            'explores bounded histories (<= 4 sessions x 10 calls, <= 3 entities) and cannot establish absence.',
    'technique': 'model-based property testing: generated programs interpreted against Pony and an independent reference store',
}
