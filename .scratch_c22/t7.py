import sys, os, json, traceback
sys.path.insert(0, '/verif')
from vlib import c22_ops as O
wd = '/verif/.scratch_c22/wd7'; os.makedirs(wd, exist_ok=True)
case = json.load(open('/verif/replays/C22-3a57916021a9ae5e.json'))['case']
print(json.dumps({k: v for k, v in case.items()}))
orig = O._outcome_of_error
def patched(e):
    if type(e).__name__ == 'KeyError':
        traceback.print_exception(e)
    return orig(e)
O._outcome_of_error = patched
mm, info = O.judge(wd, {k: v for k, v in case.items() if k != 'mismatches'})
print(info['switches'])
