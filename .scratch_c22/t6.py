import sys, json
sys.path.insert(0, '/verif')
from vlib import c22_ops as O
d = O.describe_traced('line'); print({k: (v if v == 'all lines' else v) for k, v in d.items() if 'fetch' in k})
