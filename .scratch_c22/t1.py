import sys, os, json, time
sys.path.insert(0, '/verif')
from vlib import c22_ops as O
wd = '/verif/.scratch_c22/wd'; os.makedirs(wd, exist_ok=True)
print(json.dumps(O.describe_traced('access'), indent=1))
case = {'mode': 'access', 'setup': [{'op': 'slice_gen', 'n': 1}],
        'actors': [[[{'op': 'slice_gen', 'n': 2}]], [[{'op': 'slice_gen', 'n': 2}]]], 'preempts': []}
t=time.time()
mm, info = O.judge(wd, case)
print(time.time()-t, mm, {k: v for k, v in info.items() if k != 'setup'})
N = info['yield_points']
found = 0
t=time.time(); runs=0
for p1 in range(N+2):
    for p2 in range(p1+1, N+3):
        c = dict(case, preempts=[[p1, 1], [p2, 0]])
        mm, info = O.judge(wd, c); runs += 1
        if mm:
            found += 1
            if found <= 3: print(p1, p2, O.message_for(c, mm, info))
print('runs', runs, 'found', found, time.time()-t)
