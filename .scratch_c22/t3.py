import sys, os, json, time
sys.path.insert(0, '/verif')
from vlib import c22_ops as O
wd = '/verif/.scratch_c22/wd'; os.makedirs(wd, exist_ok=True)
ops = [{'op': 'slice_gen', 'n': 2}, {'op': 'slice_str', 'n': 3}, {'op': 'slice2_gen', 'm': 1, 'n': 3},
       {'op': 'slice_ent', 'n': 2, 'v': 'al'}, {'op': 'getattr_gen', 'name': 'b'}, {'op': 'getattr_str', 'name': 'a'},
       {'op': 'lambda', 'which': 0, 'k': 1}, {'op': 'lambda', 'which': 2, 'k': 1}, {'op': 'lambda_str', 'k': 2},
       {'op': 'chain', 'k': 2, 'n': 2}, {'op': 'where_getattr', 'name': 's'}, {'op': 'where_getattr', 'name': 'a'},
       {'op': 'kw', 'a': 2}, {'op': 'raw', 'which': 0, 'k': 1}, {'op': 'raw', 'which': 1, 'k': 2}, {'op': 'raw', 'which': 2, 'k': 2},
       {'op': 'rawfrag', 'k': 1}, {'op': 'get', 'id': 3}, {'op': 'get', 'id': 99}, {'op': 'children', 'id': 1}, {'op': 'count', 'which': 1, 'k': 2},
       {'op': 'log_insert', 'k': 1, 'tag': 'x'}, {'op': 'db_insert', 'k': 1, 'tag': 'x'}, {'op': 'log_read', 'tag': 'x'},
       {'op': 'publish', 'what': 'P', 'id': 1}, {'op': 'foreign', 'src': 0, 'mode': 'assign'}]
out = O.run_solo(wd, [], [ops], 1, 2)
for (si, oi, oc), op in zip(out, ops + ['END']):
    print(op, '->', json.dumps(oc)[:300])
# foreign modes
for what, modes in (('P', O.FOREIGN_MODES_P), ('C', O.FOREIGN_MODES_C)):
    for over in (False, True):
        for mode in modes:
            a0 = [[{'op': 'publish', 'what': what, 'id': 2}]] + ([] if over else [])
            if not over:
                a0 = [[{'op': 'publish', 'what': what, 'id': 2}, {'op': 'get', 'id': 1}]]
                pre = [[2, 1]]   # after publish, before next op
            else:
                pre = []
            case = {'mode': 'access', 'setup': [], 'actors': [a0, [[{'op': 'foreign', 'src': 0, 'mode': mode}, {'op': 'get', 'id': 4}, {'op':'children','id':4}]]], 'preempts': pre}
            outs, info = O.run_concurrent(wd, case)
            mm, info = O.judge(wd, case)
            print(what, 'over' if over else 'live', mode, json.dumps(outs[1][0][2])[:200], '| MISMATCH' if mm else '', [m['kind'] for m in mm], info['switches'])
