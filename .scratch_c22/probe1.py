import sys, threading, os
from pony.orm import *
from pony.orm import core
path = '/verif/.scratch_c22/p1.db'
if os.path.exists(path): os.remove(path)
db = Database()
class P(db.Entity):
    id = PrimaryKey(int); s = Optional(str); a = Optional(int); children = Set('C')
class C(db.Entity):
    id = PrimaryKey(int); parent = Optional(P); tag = Optional(str)
db.bind('sqlite', path, create_db=True, timeout=0)
db.generate_mapping(create_tables=True)
with db_session:
    p1 = P(id=1, s='abc', a=1); p2 = P(id=2, s='xyz', a=2)
    C(id=1, parent=p1, tag='t'); C(id=2, parent=p2, tag='u')

slot = {}
ev1 = threading.Event(); ev2 = threading.Event()
def A():
    with db_session:
        slot['p'] = P[1]
        slot['c'] = C[1]
        ev1.set(); ev2.wait()
def B():
    ev1.wait()
    with db_session:
        p = slot['p']
        def t(name, f):
            try: r = f(); print(name, 'OK', r)
            except Exception as e: print(name, 'RAISED', type(e).__name__, e)
        t('query param', lambda: select(c.id for c in C if c.parent == p)[:])
        t('kw filter', lambda: C.select().filter(parent=p)[:])
        t('get kw', lambda: C.get(parent=p))
        t('entity select kw', lambda: C.select(parent=p)[:])
        t('in set', lambda: select(c.id for c in C if c in p.children)[:])
        t('attr read', lambda: p.s)
        t('coll read', lambda: [c.id for c in p.children])
        def assign():
            c = C[2]; c.parent = p
        t('assign', assign)
        def add():
            P[2].children.add(slot['c'])
        t('add', add)
        t('create', lambda: C(id=9, parent=p))
        t('contains', lambda: slot['c'] in P[2].children)
        t('in own coll', lambda: P[2].children.remove(slot['c']))
        t('set()', lambda: C[2].set(parent=p))
        t('exists kw', lambda: C.exists(parent=p))
        t('raw param', lambda: db.select('id from C where parent = $(p.id)'))
        rollback()
    ev2.set()
ta = threading.Thread(target=A); tb = threading.Thread(target=B)
ta.start(); tb.start(); ta.join(); tb.join()
