import sys, os, json, time
sys.path.insert(0, '/verif')
from vlib import c22_ops as O
wd = '/verif/.scratch_c22/wd'; os.makedirs(wd, exist_ok=True)
case = {'mode': 'access', 'setup': [{'op': 'slice_gen', 'n': 1}],
        'actors': [[[{'op': 'slice_gen', 'n': 2}]], [[{'op': 'slice_gen', 'n': 2}]]], 'preempts': [[6,1],[16,0]]}
O.judge(wd, case)
t=time.time()
for i in range(50):
    e = O.new_env(wd); O.close_env(e)
print('env', (time.time()-t)/50)
t=time.time()
for i in range(50):
    O.run_concurrent(wd, case)
print('concurrent', (time.time()-t)/50)
import cProfile, pstats
cProfile.run('for i in range(30): O.run_concurrent(wd, case)', '/verif/.scratch_c22/prof')
pstats.Stats('/verif/.scratch_c22/prof').sort_stats('cumtime').print_stats(25)
print(os.getloadavg())
