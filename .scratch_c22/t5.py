import sys, os, json, time
sys.path.insert(0, '/verif')
from vlib import c22_ops as O
wd = '/verif/.scratch_c22/wd5'; os.makedirs(wd, exist_ok=True)
case = {'mode': 'access', 'setup': [{'op': 'slice_gen', 'n': 1}],
        'actors': [[[{'op': 'slice_gen', 'n': 2}]], [[{'op': 'slice_gen', 'n': 2}]]], 'preempts': []}
mm, info = O.judge(wd, case)
N = info['yield_points']; print('N', N)
hits = []
for p1 in range(N):
    for p2 in range(p1+1, N+1):
        c = dict(case, preempts=[[p1, 0], [p2, 0]])
        mm, info = O.judge(wd, c)
        if mm: hits.append((p1, p2, info['switches']))
print(hits)
