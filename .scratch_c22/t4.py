import sys, os, json, time
sys.path.insert(0, '/verif')
from vlib import c22_ops as O
from checks import c22
wd = '/verif/.scratch_c22/wd'; os.makedirs(wd, exist_ok=True)
tot = 0
for tier in ('quick', 'thorough'):
    tot = 0
    for (si, mode, depth) in c22.enumeration_plan(tier):
        sc = c22.SCENARIOS[si]
        base = {'mode': mode, 'setup': sc['setup'], 'actors': sc['actors'], 'preempts': []}
        _, info = O.run_concurrent(wd, base)
        n = info['yield_points']; na = len(sc['actors'])
        est = n * (na - 1) if depth == 1 else n * (na - 1) + (n * n // 2) * (na - 1) ** 2
        tot += est
        print(tier, sc['name'], mode, depth, 'N0', n, 'traced', info['traced_points'], 'est runs', est)
    print(tier, 'total', tot)
