"""B4/B5: query grammar + reference evaluator for C01/C24/C05.

A *query* is pure data (nested lists); `render(q)` gives the generator-expression source text that is handed to Pony
(as a string query, as a compiled generator, as a lambda where the shape allows) and `Ref(data).rows(q)` evaluates the same
tree over plain mirror dicts with Python semantics extended by SQL NULL (DESIGN.md 7a).  The evaluator shares no code
with Pony.

Schema template (options drawn per case):
    A: id, n int, on Optional int, s str, os Optional str, bs Set(B)
    B: id, n int, on Optional int, s str, os Optional str, a Required|Optional A, cs Set(C)
    C: id, n int, s str, bs Set(B)
"""
import itertools, functools
from hypothesis import strategies as st

ENT_ATTRS = {
    'A': {'n': 'int', 'on': 'oint', 's': 'str', 'os': 'str'},
    'B': {'n': 'int', 'on': 'oint', 's': 'str', 'os': 'str'},
    'C': {'n': 'int', 's': 'str'},
}
COLLS = {'A': {'bs': 'B'}, 'B': {'cs': 'C'}, 'C': {'bs': 'B'}}
REFS = {'B': {'a': 'A'}}

INTS = [-2, -1, 0, 1, 2, 3, 7]
STRS = ['', 'a', 'ab', 'Ab', 'b', 'abc', 'x y', "it's", 'a%', 'a_b', 'é', 'a!', 'a!b', '!%']


class Unspecified(Exception):
    """Python itself would raise for this row (index out of range, max(None, ...)): the row is not judged"""


# ------------------------------------------------------------------------------------------------ schema and data
def build_schema(db, opts):
    from pony.orm import Required, Optional, Set, PrimaryKey
    b_a = Required if opts.get('b_a_required', True) else Optional

    class A(db.Entity):
        id = PrimaryKey(int)
        n = Required(int)
        on = Optional(int)
        s = Required(str, autostrip=False)
        os = Optional(str, autostrip=False)
        bs = Set('B')

    class B(db.Entity):
        id = PrimaryKey(int)
        n = Required(int)
        on = Optional(int)
        s = Required(str, autostrip=False)
        os = Optional(str, autostrip=False)
        a = b_a(A)
        cs = Set('C')

    class C(db.Entity):
        id = PrimaryKey(int)
        n = Required(int)
        s = Required(str, autostrip=False)
        bs = Set(B)
    return {'A': A, 'B': B, 'C': C}


@st.composite
def datasets(draw, max_a=4, max_b=6, max_c=3):
    opts = {'b_a_required': draw(st.booleans())}
    ints = st.sampled_from(INTS)
    oints = st.one_of(st.none(), ints)
    s_req = st.sampled_from([s for s in STRS if s])
    s_opt = st.sampled_from(STRS)
    na = draw(st.integers(0, max_a))
    a_rows = [{'id': i + 1, 'n': draw(ints), 'on': draw(oints), 's': draw(s_req), 'os': draw(s_opt)} for i in range(na)]
    nb = draw(st.integers(0, max_b)) if (na or not opts['b_a_required']) else 0
    b_rows = []
    for i in range(nb):
        if opts['b_a_required']:
            a = draw(st.integers(1, na))
        else:
            a = draw(st.one_of(st.none(), st.integers(1, na))) if na else None
        b_rows.append({'id': i + 1, 'n': draw(ints), 'on': draw(oints), 's': draw(s_req), 'os': draw(s_opt), 'a': a})
    nc = draw(st.integers(0, max_c))
    c_rows = []
    for i in range(nc):
        bs = sorted(draw(st.sets(st.integers(1, nb), max_size=3))) if nb else []
        c_rows.append({'id': i + 1, 'n': draw(ints), 's': draw(s_req), 'bs': bs})
    return {'opts': opts, 'A': a_rows, 'B': b_rows, 'C': c_rows}


def load_data(classes, data):
    from pony.orm import db_session
    with db_session:
        objs = {'A': {}, 'B': {}, 'C': {}}
        for r in data['A']:
            objs['A'][r['id']] = classes['A'](id=r['id'], n=r['n'], on=r['on'], s=r['s'], os=r['os'])
        for r in data['B']:
            kw = dict(id=r['id'], n=r['n'], on=r['on'], s=r['s'], os=r['os'])
            if r['a'] is not None:
                kw['a'] = objs['A'][r['a']]
            objs['B'][r['id']] = classes['B'](**kw)
        for r in data['C']:
            objs['C'][r['id']] = classes['C'](id=r['id'], n=r['n'], s=r['s'], bs=[objs['B'][i] for i in r['bs']])


class Mirror(object):
    """plain objects mirroring the data set (dicts with resolved relationships)"""
    def __init__(self, data):
        self.objs = {'A': {}, 'B': {}, 'C': {}}
        for r in data['A']:
            self.objs['A'][r['id']] = {'_e': 'A', 'id': r['id'], 'n': r['n'], 'on': r['on'], 's': r['s'], 'os': r['os'], 'bs': []}
        for r in data['B']:
            o = {'_e': 'B', 'id': r['id'], 'n': r['n'], 'on': r['on'], 's': r['s'], 'os': r['os'], 'a': None, 'cs': []}
            if r['a'] is not None:
                o['a'] = self.objs['A'][r['a']]
                o['a']['bs'].append(o)
            self.objs['B'][r['id']] = o
        for r in data['C']:
            o = {'_e': 'C', 'id': r['id'], 'n': r['n'], 's': r['s'], 'bs': []}
            for i in r['bs']:
                b = self.objs['B'][i]
                o['bs'].append(b)
                b['cs'].append(o)
            self.objs['C'][r['id']] = o

    def all(self, ent):
        return [self.objs[ent][k] for k in sorted(self.objs[ent])]


# ------------------------------------------------------------------------------------------------ expression trees
# node = [kind, ...]; types: 'int', 'oint' (nullable int), 'str', 'bool'
def render(e):
    k = e[0]
    if k == 'attr':        # ['attr', var, name]
        return '%s.%s' % (e[1], e[2])
    if k == 'nav':         # ['nav', var, ref, name]
        return '%s.%s.%s' % (e[1], e[2], e[3])
    if k == 'const':
        return repr(e[1])
    if k == 'param':       # ['param', name, value]
        return e[1]
    if k == 'bin':
        return '(%s %s %s)' % (render(e[2]), e[1], render(e[3]))
    if k == 'neg':
        return '(-%s)' % render(e[1])
    if k == 'abs':
        return 'abs(%s)' % render(e[1])
    if k == 'len':
        return 'len(%s)' % render(e[1])
    if k in ('upper', 'lower', 'strip', 'lstrip', 'rstrip'):
        return '%s.%s()' % (render(e[1]), k)
    if k == 'slice':
        return '%s[%s:%s]' % (render(e[1]), '' if e[2] is None else repr(e[2]), '' if e[3] is None else repr(e[3]))
    if k == 'index':
        return '%s[%r]' % (render(e[1]), e[2])
    if k == 'countcoll':   # ['countcoll', var, coll, form]
        return ('count(%s.%s)' if e[3] == 0 else 'len(%s.%s)') % (e[1], e[2])
    if k == 'aggrattr':    # ['aggrattr', fn, var, coll, attr]
        return '%s(%s.%s.%s)' % (e[1], e[2], e[3], e[4])
    if k == 'aggrgen':     # ['aggrgen', fn, var, coll, ivar, expr, cond]
        src = '%s(%s for %s in %s.%s' % (e[1], render(e[5]), e[4], e[2], e[3])
        if e[6] is not None:
            src += ' if %s' % render(e[6])
        return src + ')'
    if k == 'coalesce':
        return 'coalesce(%s, %s)' % (render(e[1]), render(e[2]))
    if k == 'ifexp':
        return '(%s if %s else %s)' % (render(e[2]), render(e[1]), render(e[3]))
    # conditions
    if k == 'cmp':
        return '%s %s %s' % (render(e[2]), e[1], render(e[3]))
    if k == 'chain':       # a < b <= c
        return '%s %s %s %s %s' % (render(e[1]), e[2], render(e[3]), e[4], render(e[5]))
    if k == 'tcmp':        # (a, b) <= (c, d): lexicographic comparison of tuples of non-null ints
        return '(%s) %s (%s)' % (', '.join(render(x) for x in e[2]), e[1], ', '.join(render(x) for x in e[3]))
    if k == 'in':          # ['in', negated, expr, [const nodes]]
        return '%s %s (%s,)' % (render(e[2]), 'not in' if e[1] else 'in', ', '.join(render(c) for c in e[3]))
    if k == 'isnone':
        return '%s %s None' % (render(e[2]), 'is not' if e[1] else 'is')
    if k == 'and':
        return '(%s and %s)' % (render(e[1]), render(e[2]))
    if k == 'or':
        return '(%s or %s)' % (render(e[1]), render(e[2]))
    if k == 'not':
        return '(not %s)' % render(e[1])
    if k == 'truth':
        return render(e[1])
    if k == 'startswith':
        return '%s.startswith(%s)' % (render(e[1]), render(e[2]))
    if k == 'endswith':
        return '%s.endswith(%s)' % (render(e[1]), render(e[2]))
    if k == 'contains':    # ['contains', negated, item, container]
        return '%s %s %s' % (render(e[2]), 'not in' if e[1] else 'in', render(e[3]))
    if k == 'exists':      # ['exists', negated, var, coll, ivar, cond]
        src = 'exists(%s for %s in %s.%s' % (e[4], e[4], e[2], e[3])
        if e[5] is not None:
            src += ' if %s' % render(e[5])
        src += ')'
        return ('not ' + src) if e[1] else src
    if k == 'collempty':   # ['collempty', form, var, coll]   form 0: not x.bs   1: x.bs.is_empty()  2: x.bs (truthy)
        if e[1] == 0:
            return 'not %s.%s' % (e[2], e[3])
        if e[1] == 1:
            return '%s.%s.is_empty()' % (e[2], e[3])
        return '%s.%s' % (e[2], e[3])
    if k == 'between':
        return 'between(%s, %s, %s)' % (render(e[1]), render(e[2]), render(e[3]))
    if k == 'refnone':     # ['refnone', negated, var, ref]
        return '%s.%s %s None' % (e[2], e[3], 'is not' if e[1] else 'is')
    if k == 'subin':       # ['subin', negated, expr, ent, ivar, iexpr, cond]   expr in (iexpr for ivar in Ent if cond)
        src = '%s %s (%s for %s in %s' % (render(e[2]), 'not in' if e[1] else 'in', render(e[5]), e[4], e[3])
        if e[6] is not None:
            src += ' if %s' % render(e[6])
        return src + ')'
    if k == 'objsubin':    # ['objsubin', negated, var, ent2, ivar, ref, cond]
        src = '%s %s (%s.%s for %s in %s' % (e[2], 'not in' if e[1] else 'in', e[4], e[5], e[4], e[3])
        if e[6] is not None:
            src += ' if %s' % render(e[6])
        return src + ')'
    raise ValueError('render: %r' % (e,))


def params_of(e, out=None):
    if out is None:
        out = {}
    if isinstance(e, list):
        if e and e[0] == 'param':
            out[e[1]] = e[2]
        else:
            for x in e:
                params_of(x, out)
    return out


def features(e, out=None):
    if out is None:
        out = set()
    if isinstance(e, list):
        if e and isinstance(e[0], str):
            out.add(e[0])
        for x in e:
            features(x, out)
    return out


# ------------------------------------------------------------------------------------------------ reference evaluation
NOTIN_IGNORES_NONE = [False]     # evaluation mode: do None elements of a list/subquery count for `not in`?


def k_and(a, b):
    if a is False or b is False:
        return False
    if a is None or b is None:
        return None
    return True


def k_or(a, b):
    if a is True or b is True:
        return True
    if a is None or b is None:
        return None
    return False


def k_not(a):
    return None if a is None else (not a)


def ev(e, env):
    """value of a value-expression (None = missing)"""
    k = e[0]
    if k == 'attr':
        return env[e[1]][e[2]]
    if k == 'nav':
        ref = env[e[1]][e[2]]
        if ref is None:
            return None
        return ref[e[3]]
    if k == 'const':
        return e[1]
    if k == 'param':
        return e[2]
    if k == 'bin':
        a, b = ev(e[2], env), ev(e[3], env)
        if a is None or b is None:
            return None
        op = e[1]
        if op == '+':
            return a + b
        if op == '-':
            return a - b
        if op == '*':
            return a * b
        raise ValueError(op)
    if k == 'neg':
        a = ev(e[1], env)
        return None if a is None else -a
    if k == 'abs':
        a = ev(e[1], env)
        return None if a is None else abs(a)
    if k == 'len':
        a = ev(e[1], env)
        return None if a is None else len(a)
    if k in ('upper', 'lower', 'strip', 'lstrip', 'rstrip'):
        a = ev(e[1], env)
        return None if a is None else getattr(a, k)()
    if k == 'slice':
        a = ev(e[1], env)
        return None if a is None else a[e[2]:e[3]]
    if k == 'index':
        a = ev(e[1], env)
        if a is None:
            return None
        try:
            return a[e[2]]
        except IndexError:
            raise Unspecified()
    if k == 'countcoll':
        return len(env[e[1]][e[2]])
    if k == 'aggrattr':
        vals = [o[e[4]] for o in env[e[2]][e[3]]]
        return aggregate(e[1], vals, distinct_count=True)
    if k == 'aggrgen':
        vals = []
        for o in env[e[2]][e[3]]:
            env2 = dict(env)
            env2[e[4]] = o
            if e[6] is not None and cond(e[6], env2) is not True:
                continue
            vals.append(ev(e[5], env2))
        return aggregate(e[1], vals, distinct_count=True)
    if k == 'coalesce':
        a = ev(e[1], env)
        return a if a is not None else ev(e[2], env)
    if k == 'ifexp':
        c = cond(e[1], env)
        return ev(e[2], env) if c is True else ev(e[3], env)
    raise ValueError('ev: %r' % (e,))


def aggregate(fn, vals, distinct_count=False):
    vals = [v for v in vals if v is not None]
    if fn == 'count':
        # count(x.attr) / count(expr for ...) count DISTINCT non-missing values (Pony's documented default)
        return len(set(vals)) if distinct_count else len(vals)
    if fn == 'sum':
        return sum(vals)
    if not vals:
        return None
    if fn == 'min':
        return min(vals)
    if fn == 'max':
        return max(vals)
    if fn == 'avg':
        return sum(vals) / float(len(vals))
    raise ValueError(fn)


def compare(op, a, b):
    if a is None or b is None:
        return None
    if op == '==':
        return a == b
    if op == '!=':
        return a != b
    if op == '<':
        return a < b
    if op == '<=':
        return a <= b
    if op == '>':
        return a > b
    if op == '>=':
        return a >= b
    raise ValueError(op)


def cond(e, env):
    """True / False / None (unknown)"""
    k = e[0]
    if k == 'cmp':
        return compare(e[1], ev(e[2], env), ev(e[3], env))
    if k == 'chain':
        return k_and(compare(e[2], ev(e[1], env), ev(e[3], env)), compare(e[4], ev(e[3], env), ev(e[5], env)))
    if k == 'tcmp':
        a = tuple(ev(x, env) for x in e[2])
        b = tuple(ev(x, env) for x in e[3])
        if None in a or None in b:
            return None
        return compare(e[1], a, b)
    if k == 'in':
        a = ev(e[2], env)
        res = False
        for c in e[3]:
            res = k_or(res, compare('==', a, ev(c, env)))
        return k_not(res) if e[1] else res
    if k == 'isnone':
        a = ev(e[2], env)
        return (a is not None) if e[1] else (a is None)
    if k == 'and':
        return k_and(cond(e[1], env), cond(e[2], env))
    if k == 'or':
        return k_or(cond(e[1], env), cond(e[2], env))
    if k == 'not':
        return k_not(cond(e[1], env))
    if k == 'truth':
        a = ev(e[1], env)
        return bool(a)            # missing, 0 and '' are falsy; definite
    if k in ('startswith', 'endswith'):
        a, b = ev(e[1], env), ev(e[2], env)
        if a is None or b is None:
            return None
        return getattr(a, k)(b)
    if k == 'contains':
        item, cont = ev(e[2], env), ev(e[3], env)
        if item is None or cont is None:
            return None
        r = item in cont
        return (not r) if e[1] else r
    if k == 'exists':
        found = False
        for o in env[e[2]][e[3]]:
            env2 = dict(env)
            env2[e[4]] = o
            if e[5] is None or cond(e[5], env2) is True:
                found = True
                break
        return (not found) if e[1] else found
    if k == 'collempty':
        empty = not env[e[2]][e[3]]
        return (not empty) if e[1] == 2 else empty
    if k == 'between':
        a, lo, hi = ev(e[1], env), ev(e[2], env), ev(e[3], env)
        return k_and(compare('>=', a, lo), compare('<=', a, hi))
    if k == 'refnone':
        r = env[e[2]][e[3]]
        return (r is not None) if e[1] else (r is None)
    if k == 'subin':
        a = ev(e[2], env)
        res = False
        mirror = env['__mirror__']
        for o in mirror.all(e[3]):
            env2 = dict(env)
            env2[e[4]] = o
            if e[6] is not None and cond(e[6], env2) is not True:
                continue
            v = ev(e[5], env2)
            if v is None and NOTIN_IGNORES_NONE[0]:
                continue
            res = k_or(res, compare('==', a, v))
        return k_not(res) if e[1] else res
    if k == 'objsubin':
        me = env[e[2]]
        found = False
        mirror = env['__mirror__']
        for o in mirror.all(e[3]):
            env2 = dict(env)
            env2[e[4]] = o
            if e[6] is not None and cond(e[6], env2) is not True:
                continue
            ref = o[e[5]]
            if ref is not None and ref is me:      # a missing reference is simply not the object (Python semantics;
                found = True                       # Pony adds IS NOT NULL to the subquery of NOT IN for exactly this)
                break
        return (not found) if e[1] else found
    raise ValueError('cond: %r' % (e,))


# ------------------------------------------------------------------------------------------------ queries
# query = {'loops': [[var, source]], 'cond': node|None, 'result': ['obj', var] | ['exprs', [nodes]] | ['aggr', ...],
#          'order': [[node, desc]]|None}
# source: ['ent', 'A'] | ['coll', outer var, coll name]
def render_query(q):
    loops = []
    for var, src in q['loops']:
        if src[0] == 'ent':
            loops.append('for %s in %s' % (var, src[1]))
        else:
            loops.append('for %s in %s.%s' % (var, src[1], src[2]))
    res = q['result']
    if res[0] == 'obj':
        elt = res[1]
    elif res[0] == 'exprs':
        parts = [render_result(r) for r in res[1]]
        elt = parts[0] if len(parts) == 1 else '(%s)' % ', '.join(parts)
    else:
        raise ValueError(res)
    text = '%s %s' % (elt, ' '.join(loops))
    if q.get('cond') is not None:
        text += ' if %s' % render(q['cond'])
    return text


def render_result(r):
    if r[0] == 'objref':       # a loop variable as a result column
        return r[1]
    if r[0] == 'gcount':       # count(var) in a grouped query
        return 'count(%s)' % r[1]
    if r[0] == 'gaggr':        # ['gaggr', fn, node]
        return '%s(%s)' % (r[1], render(r[2]))
    return render(r)


def loop_rows(q, mirror):
    """all assignments of the loop variables (inner joins over collections)"""
    envs = [{'__mirror__': mirror}]
    for var, src in q['loops']:
        new = []
        for env in envs:
            items = mirror.all(src[1]) if src[0] == 'ent' else env[src[1]][src[2]]
            for o in items:
                e2 = dict(env)
                e2[var] = o
                new.append(e2)
        envs = new
    return envs


COLL_AGGREGATES = {'countcoll', 'aggrattr', 'aggrgen'}


def has_coll_aggregate(e):
    """a collection aggregate such as count(x.bs) / sum(b.n for b in x.bs) somewhere in the expression"""
    return bool(features(e) & COLL_AGGREGATES)


def is_aggregated(q):
    res = q['result']
    return res[0] == 'exprs' and any(r[0] in ('gcount', 'gaggr') for r in res[1])


def ref_rows(q, mirror):
    """reference result: (rows, optional_rows, unspecified_count) where rows is a list (bag) of hashable row values;
    objects are represented as (entity, id)."""
    rows, optional = [], []
    unspecified = 0
    envs = loop_rows(q, mirror)
    kept = []
    kept_optional = []
    for env in envs:
        try:
            keep = q.get('cond') is None or cond(q['cond'], env) is True
            if q.get('cond') is not None and 'subin' in features(q['cond']):
                # `x not in (subquery containing None)`: Python says True (None != x); Pony implements that by adding
                # IS NOT NULL to the subquery, so the Python reading is the required one.  Only rows whose LEFT operand
                # is missing stay ambiguous (Python: True/False, SQL: unknown) and are accepted either way.
                NOTIN_IGNORES_NONE[0] = True
                try:
                    keep2 = cond(q['cond'], env) is True
                finally:
                    NOTIN_IGNORES_NONE[0] = False
                if keep != keep2:
                    if _subin_left_missing(q['cond'], env):
                        kept_optional.append(env)
                        continue
                    keep = keep2
            if not keep:
                continue
        except Unspecified:
            unspecified += 1
            continue
        if q.get('cond') is not None and uses_missing_ref(q['cond'], env):
            kept_optional.append(env)     # kept under NULL semantics, dropped by an inner join: either is accepted
            continue
        kept.append(env)
    res = q['result']
    if res[0] == 'obj':
        for env in kept:
            o = env[res[1]]
            rows.append((o['_e'], o['id']))
        for env in kept_optional:
            o = env[res[1]]
            optional.append((o['_e'], o['id']))
        return rows, optional, unspecified
    if is_aggregated(q):
        if kept_optional:
            return rows, optional, unspecified + len(kept_optional)    # group contents undetermined: not judged
        groups = {}
        order = []
        for env in kept:
            key = []
            try:
                for r in res[1]:
                    if r[0] in ('gcount', 'gaggr'):
                        if r[0] == 'gaggr' and uses_missing_ref(r[2], env):
                            raise Unspecified()
                        continue
                    v, opt = result_value(r, env)
                    if opt:
                        raise Unspecified()
                    key.append(v)
            except Unspecified:
                unspecified += 1
                continue
            key = tuple(key)
            if key not in groups:
                groups[key] = []
                order.append(key)
            groups[key].append(env)
        if not any(r[0] not in ('gcount', 'gaggr') for r in res[1]) and not groups:
            groups[()] = []
            order.append(())
        for key in order:
            row = []
            ki = 0
            for r in res[1]:
                if r[0] == 'gcount':
                    row.append(len(set((env[r[1]]['_e'], env[r[1]]['id']) for env in groups[key])))
                elif r[0] == 'gaggr':
                    vals = [ev(r[2], env) for env in groups[key]]
                    row.append(aggregate(r[1], vals, distinct_count=True))
                else:
                    row.append(key[ki])
                    ki += 1
            rows.append(tuple(row) if len(row) > 1 else row[0])
        return rows, optional, unspecified
    for env in kept:
        try:
            vals = [result_value(r, env) for r in res[1]]
        except Unspecified:
            unspecified += 1
            continue
        row = tuple(v for v, opt in vals)
        row = row if len(row) > 1 else row[0]
        if any(opt for v, opt in vals):
            optional.append(row)      # navigates through a missing reference: Pony's inner join may drop it
        else:
            rows.append(row)
    for env in kept_optional:
        try:
            vals = [result_value(r, env) for r in res[1]]
        except Unspecified:
            continue
        row = tuple(v for v, opt in vals)
        optional.append(row if len(row) > 1 else row[0])
    return rows, optional, unspecified


def _subin_left_missing(e, env):
    if not isinstance(e, list) or not e:
        return False
    if e[0] == 'subin':
        try:
            return ev(e[2], env) is None
        except Exception:
            return True
    return any(_subin_left_missing(x, env) for x in e[1:] if isinstance(x, list))


def uses_missing_ref(e, env):
    """does the expression navigate through a reference that is None for this row?  (Python would raise
    AttributeError; Pony's inner join drops the row; SQL outer-join semantics would give NULL: not asserted)"""
    if not isinstance(e, list) or not e:
        return False
    if e[0] == 'nav' and e[1] in env and env[e[1]].get(e[2]) is None:
        return True
    # inner loops (aggrgen / exists / subin) bind their own, differently named variable, which is not in env
    return any(uses_missing_ref(x, env) for x in e[1:] if isinstance(x, list))


def result_value(r, env):
    """(value, navigates_through_missing_reference)"""
    if r[0] == 'objref':
        o = env[r[1]]
        return (o['_e'], o['id']), False
    if r[0] in ('gcount', 'gaggr'):
        return None, False
    return ev(r, env), uses_missing_ref(r, env)


# ------------------------------------------------------------------------------------------------ generators
@functools.lru_cache(maxsize=None)
def value_exprs(var, ent, typ, depth, allow_coll=True):
    """strategy of value expressions of the given type over loop variable var of entity ent"""
    attrs = ENT_ATTRS[ent]
    leaves = []
    if typ == 'int':
        names = [n for n, t in attrs.items() if t in ('int', 'oint')]
        leaves.append(st.sampled_from(names).map(lambda n: ['attr', var, n]))
        leaves.append(st.sampled_from(names).map(lambda n: ['attr', var, n]))
        leaves.append(st.sampled_from(names).map(lambda n: ['attr', var, n]))
        leaves.append(st.sampled_from(INTS).map(lambda v: ['const', v]))
        leaves.append(st.sampled_from(INTS).map(lambda v: ['param', 'pi_%s' % str(v).replace('-', 'm'), v]))
        if ent in REFS:
            ref = list(REFS[ent])[0]
            tattrs = [n for n, t in ENT_ATTRS[REFS[ent][ref]].items() if t in ('int', 'oint')]
            leaves.append(st.sampled_from(tattrs).map(lambda n: ['nav', var, ref, n]))
        if allow_coll and ent in COLLS:
            coll = list(COLLS[ent])[0]
            tent = COLLS[ent][coll]
            leaves.append(st.sampled_from([0, 1]).map(lambda f: ['countcoll', var, coll, f]))
            tints = [n for n, t in ENT_ATTRS[tent].items() if t in ('int', 'oint')]
            leaves.append(st.tuples(st.sampled_from(['sum', 'min', 'max', 'count']), st.sampled_from(tints)).map(
                lambda t: ['aggrattr', t[0], var, coll, t[1]]))
    else:
        names = [n for n, t in attrs.items() if t == 'str']
        leaves.append(st.sampled_from(names).map(lambda n: ['attr', var, n]))
        leaves.append(st.sampled_from(names).map(lambda n: ['attr', var, n]))
        leaves.append(st.sampled_from(names).map(lambda n: ['attr', var, n]))
        leaves.append(st.sampled_from(STRS).map(lambda v: ['const', v]))
        leaves.append(st.sampled_from(STRS).map(lambda v: ['param', 'ps_%d' % STRS.index(v), v]))
        if ent in REFS:
            ref = list(REFS[ent])[0]
            leaves.append(st.sampled_from(['s', 'os']).map(lambda n: ['nav', var, ref, n]))
    leaf = st.one_of(*leaves)
    if depth <= 0:
        return leaf
    sub = value_exprs(var, ent, typ, depth - 1, allow_coll)
    if typ == 'int':
        strs = value_exprs(var, ent, 'str', depth - 1, allow_coll)
        return st.one_of(
            leaf, leaf,
            st.tuples(st.sampled_from(['+', '-', '*']), sub, sub).map(lambda t: ['bin', t[0], t[1], t[2]]),
            sub.map(lambda e: ['neg', e]),
            sub.map(lambda e: ['abs', e]),
            strs.map(lambda e: ['len', e]),
            st.tuples(sub, sub).map(lambda t: ['coalesce', t[0], t[1]]),
        )
    return st.one_of(
        leaf, leaf,
        st.tuples(sub, sub).map(lambda t: ['bin', '+', t[0], t[1]]),
        st.tuples(st.sampled_from(['upper', 'lower', 'strip', 'lstrip', 'rstrip']), sub).map(lambda t: [t[0], t[1]]),
        st.tuples(sub, st.one_of(st.none(), st.integers(-3, 3)), st.one_of(st.none(), st.integers(-3, 4))).map(
            # (start omitted/0, stop -1) is the open finding C25-stop-minus-one: generated as stop -2 instead
            lambda t: ['slice', t[0], t[1], -2 if (t[2] == -1 and t[1] in (None, 0)) else t[2]]),
    )


def has_param(e, name):
    return name in params_of(e)


@functools.lru_cache(maxsize=None)
def conditions(var, ent, depth, inner=False):
    ints = value_exprs(var, ent, 'int', 1, allow_coll=not inner)
    strs = value_exprs(var, ent, 'str', 1, allow_coll=not inner)
    cmpop = st.sampled_from(['==', '!=', '<', '<=', '>', '>='])
    atoms = [
        st.tuples(cmpop, ints, ints).map(lambda t: ['cmp', t[0], t[1], t[2]]),
        st.tuples(cmpop, strs, strs).map(lambda t: ['cmp', t[0], t[1], t[2]]),
        st.tuples(ints, cmpop, ints, cmpop, ints).map(lambda t: ['chain', t[0], t[1], t[2], t[3], t[4]]),
        st.tuples(st.booleans(), ints, st.lists(st.sampled_from(INTS).map(lambda v: ['const', v]), min_size=1, max_size=3)).map(
            lambda t: ['in', t[0], t[1], t[2]]),
        st.tuples(st.booleans(), strs, st.lists(st.sampled_from(STRS).map(lambda v: ['const', v]), min_size=1, max_size=3)).map(
            lambda t: ['in', t[0], t[1], t[2]]),
        st.tuples(st.booleans(), st.sampled_from(['on', 'n'])).map(lambda t: ['isnone', t[0], ['attr', var, t[1]]])
        if 'on' in ENT_ATTRS[ent] else st.just(['isnone', False, ['attr', var, 'n']]),
        ints.map(lambda e: ['truth', e]),
        strs.map(lambda e: ['truth', e]),
        st.tuples(strs, st.sampled_from(['a', 'b', 'A', '%', '_', "'"])).map(lambda t: ['startswith', t[0], ['const', t[1]]]),
        st.tuples(strs, st.sampled_from(['a', 'b', 'c', '%', '_', 'y'])).map(lambda t: ['endswith', t[0], ['const', t[1]]]),
        st.tuples(st.booleans(), st.sampled_from(['a', 'b', '%', '_', ' ', "'", 'é']), strs).map(
            lambda t: ['contains', t[0], ['const', t[1]], t[2]]),
        st.tuples(ints, st.sampled_from(INTS), st.sampled_from(INTS)).map(lambda t: ['between', t[0], ['const', t[1]], ['const', t[2]]]),
    ]
    # needles that are not literals (parameter / column / expression): the LIKE pattern is escaped in SQL, not in Python
    strs0 = value_exprs(var, ent, 'str', 0, allow_coll=False)
    atoms.append(st.tuples(st.sampled_from(['startswith', 'endswith']), strs, strs0).map(lambda t: [t[0], t[1], t[2]]))
    atoms.append(st.tuples(st.booleans(), strs0, strs).map(lambda t: ['contains', t[0], t[1], t[2]]))
    # lexicographic comparison of tuples (non-null int elements only: Python raises for None, SQL gives unknown)
    telem = st.one_of(st.sampled_from(['n', 'id']).map(lambda n: ['attr', var, n]), st.sampled_from(INTS).map(lambda v: ['const', v]),
                      st.sampled_from(INTS).map(lambda v: ['param', 'pi_%s' % str(v).replace('-', 'm'), v]))
    tcmp = st.integers(2, 3).flatmap(lambda n: st.tuples(
        cmpop, st.lists(telem, min_size=n, max_size=n), st.lists(telem, min_size=n, max_size=n))).map(
        lambda t: ['tcmp', t[0], t[1], t[2]])
    atoms.extend([tcmp, tcmp, atoms[-1], atoms[-2]])
    # negated forms get their own atoms (negation of comparisons / truth tests has dedicated translation code)
    attr_int = st.sampled_from([n for n, t in ENT_ATTRS[ent].items() if t in ('int', 'oint')]).map(lambda n: ['attr', var, n])
    attr_str = st.sampled_from([n for n, t in ENT_ATTRS[ent].items() if t == 'str']).map(lambda n: ['attr', var, n])
    atoms.append(st.tuples(cmpop, attr_int, ints).map(lambda t: ['not', ['cmp', t[0], t[1], t[2]]]))
    atoms.append(st.tuples(cmpop, attr_int, attr_int).map(lambda t: ['not', ['cmp', t[0], t[1], t[2]]]))
    atoms.append(attr_int.map(lambda e: ['not', ['truth', e]]))
    atoms.append(attr_str.map(lambda e: ['not', ['truth', e]]))
    atoms.append(attr_int.map(lambda e: ['truth', e]))
    if ent in REFS:
        ref = list(REFS[ent])[0]
        atoms.append(st.booleans().map(lambda n: ['refnone', n, var, ref]))
    if not inner and ent in COLLS:
        coll = list(COLLS[ent])[0]
        tent = COLLS[ent][coll]
        ivar = 'i' + var
        atoms.append(st.sampled_from([0, 1, 2]).map(lambda f: ['collempty', f, var, coll]))
        atoms.append(st.tuples(st.booleans(), st.one_of(st.none(), conditions(ivar, tent, 0, inner=True))).map(
            lambda t: ['exists', t[0], var, coll, ivar, t[1]]))
        atoms.append(st.tuples(st.sampled_from(['sum', 'min', 'max', 'count']),
                               value_exprs(ivar, tent, 'int', 0, allow_coll=False),
                               st.one_of(st.none(), conditions(ivar, tent, 0, inner=True)), cmpop, st.sampled_from(INTS)).map(
            lambda t: ['cmp', t[3], ['aggrgen', t[0], var, coll, ivar, t[1], t[2]], ['const', t[4]]]))
    if not inner:
        other = {'A': 'B', 'B': 'A', 'C': 'B'}[ent]
        ovar = 'o' + var
        atoms.append(st.tuples(st.booleans(), ints, value_exprs(ovar, other, 'int', 0, allow_coll=False),
                               st.one_of(st.none(), conditions(ovar, other, 0, inner=True))).map(
            lambda t: ['subin', t[0], t[1], other, ovar, t[2], t[3]]))
    if not inner and ent == 'A':
        for _ in range(3):
            atoms.append(st.tuples(st.booleans(), st.one_of(st.none(), conditions('oy', 'B', 0, inner=True))).map(
                lambda t: ['objsubin', t[0], var, 'B', 'oy', 'a', t[1]]))
    atom = st.integers(0, len(atoms) - 1).flatmap(lambda i: atoms[i])
    if depth <= 0:
        return atom
    sub = conditions(var, ent, depth - 1, inner)
    return st.integers(0, 9).flatmap(lambda i: atom if i < 5 else (
        st.tuples(sub, sub).map(lambda t: ['and', t[0], t[1]]) if i < 7 else
        st.tuples(sub, sub).map(lambda t: ['or', t[0], t[1]]) if i < 9 else
        atom.map(lambda e: ['not', e])))


@st.composite
def queries(draw, kinds=('obj', 'obj', 'exprs', 'join', 'group', 'objagg')):
    kind = draw(st.sampled_from(list(kinds)))
    ent = draw(st.sampled_from(['A', 'B', 'B', 'C']))
    var = 'x'
    loops = [[var, ['ent', ent]]]
    cvar, cent = var, ent
    if kind == 'join' and ent in COLLS:
        coll = list(COLLS[ent])[0]
        loops.append(['y', ['coll', var, coll]])
    c = draw(st.one_of(st.none(), conditions(var, ent, 2)))
    if len(loops) == 2 and draw(st.booleans()):
        yent = COLLS[ent][list(COLLS[ent])[0]]
        c2 = draw(conditions('y', yent, 1, inner=True))
        c = c2 if c is None else ['and', c, c2]
    if kind in ('obj', 'join'):
        if len(loops) == 2 and draw(st.booleans()):
            result = ['obj', 'y']
        else:
            result = ['obj', var]
        if len(loops) == 2 and draw(st.integers(0, 2)) == 0:
            yent = COLLS[ent][list(COLLS[ent])[0]]
            result = ['exprs', [draw(st.sampled_from([['attr', 'x', 'n'], ['attr', 'x', 's'], ['objref', 'x']])),
                                draw(st.sampled_from([['attr', 'y', 'n'], ['attr', 'y', 's'], ['objref', 'y']]))]]
    elif kind == 'objagg':
        # the documented grouped form (x, count(x.coll), sum(x.coll.n) ...): one row per object
        coll = list(COLLS[ent])[0]
        tent = COLLS[ent][coll]
        tints = [n for n, t in ENT_ATTRS[tent].items() if t in ('int', 'oint')]
        items = [['objref', var]]
        for i in range(draw(st.integers(1, 2))):
            if draw(st.booleans()):
                items.append(['countcoll', var, coll, 0])
            else:
                items.append(['aggrattr', draw(st.sampled_from(['sum', 'min', 'max', 'count'])), var, coll,
                              draw(st.sampled_from(tints))])
        result = ['exprs', items]
    elif kind == 'exprs':
        n = draw(st.integers(1, 3))
        items = []
        for i in range(n):
            typ = draw(st.sampled_from(['int', 'str']))
            # collection aggregates in a result list are query-level aggregates (implicit GROUP BY): not generated here
            items.append(draw(value_exprs(var, ent, typ, 1, allow_coll=False)))
        if draw(st.integers(0, 3)) == 0:
            items.insert(0, ['attr', var, 'id'])
        result = ['exprs', items]
    else:
        keys = []
        for i in range(draw(st.integers(0, 2))):
            typ = draw(st.sampled_from(['int', 'str']))
            keys.append(draw(value_exprs(var, ent, typ, 0, allow_coll=False)))
        aggs = []
        for i in range(draw(st.integers(1, 2))):
            if draw(st.booleans()):
                aggs.append(['gcount', var])
            else:
                aggs.append(['gaggr', draw(st.sampled_from(['sum', 'min', 'max', 'count'])),
                             draw(value_exprs(var, ent, 'int', 0, allow_coll=False))])
        result = ['exprs', keys + aggs]
    return {'loops': loops, 'cond': c, 'result': result}


def query_params(q):
    return params_of([q.get('cond'), q['result']])
