"""C32 helper: diagram -> pony entities, data, session-script executor, reference model and oracle.

A *case* is plain JSON:

    {'diagram': {...options...}, 'data': {'P': [...rows...], 'C': [...], 'T': [...], 'O': [...]},
     'prep':   [[action, ...], ...]      what happens inside the db_session,
     'end':    'commit' | 'rollback' | 'exception' | 'commit_exception',
     'form':   'with' | 'decorator',
     'strict': bool,
     'ops':    [[op, ...], ...]          what is done with the leftover objects afterwards}

Object keys are [root entity name, pk] (pk is int | str | [a, b] for the composite key, or 'newN' for an
object created without a pk value).  The oracle never looks at Pony's in-memory state: expected values come
from the database content read through a plain sqlite3 connection (at the start and at the end of the session)
and from the values the script itself assigned.
"""
import os, sqlite3, json, copy

PYT = {'int': 'int', 'str': 'str', 'bool': 'bool', 'float': 'float'}

DEFAULT_DIAGRAM = {'ppk': 'int', 'cpk': 'int', 'tpk': 'int', 'ref': 'required', 'unique': False,
                   'inherit': False, 'o2o': False, 'lazy_set': False, 'extra': [], 'json': False}


JSON_TYPES = ('json', 'intarray')


class HarnessError(Exception):
    pass


class Rejected(Exception):
    """Pony legitimately refused a step of the in-session script (not a verdict about the property)"""


class InSessionError(Exception):
    """the in-session script itself failed inside Pony with an unexpected exception: the case says nothing about
    leftover objects (counted as inconclusive, with a sample)"""


def norm_diagram(d):
    out = dict(DEFAULT_DIAGRAM)
    out.update(d or {})
    out['extra'] = [list(x) for x in out['extra']]
    return out


def hk(key):
    """JSON key [E, pk] -> hashable"""
    e, pk = key
    if isinstance(pk, (list, tuple)):
        pk = tuple(pk)
    return (e, pk)


def jk(h):
    e, pk = h
    if isinstance(pk, tuple):
        pk = list(pk)
    return [e, pk]


def is_symbolic(pk):
    return isinstance(pk, str) and pk.startswith('new')


# ------------------------------------------------------------------------------------------------
# diagram description (independent of Pony): list of attribute descriptions per entity
# ------------------------------------------------------------------------------------------------

def attr_meta(diagram):
    d = norm_diagram(diagram)

    def A(name, kind, type, **kw):
        a = {'name': name, 'kind': kind, 'type': type, 'required': False, 'lazy': False, 'unique': False,
             'm2m': False, 'sub': False, 'auto': False}
        a.update(kw)
        return a
    P = []
    if d['ppk'] == 'str':
        P.append(A('id', 'pk', 'str'))
    else:
        P.append(A('id', 'pk', 'int', auto=(d['ppk'] == 'auto')))
    P += [A('title', 'scalar', 'str', required=True), A('note', 'scalar', 'str'),
          A('blob', 'scalar', 'str', lazy=True), A('rank', 'scalar', 'int')]
    if d['json']:
        P.append(A('meta', 'scalar', 'json'))
    P.append(A('kids', 'coll', 'C', reverse='parent', lazy=bool(d['lazy_set'])))
    C = []
    if d['cpk'] == 'composite':
        C += [A('a', 'pk', 'int'), A('b', 'pk', 'int')]
    else:
        C.append(A('id', 'pk', 'int', auto=(d['cpk'] == 'auto')))
    C += [A('name', 'scalar', 'str', required=True), A('nick', 'scalar', 'str'),
          A('bio', 'scalar', 'str', lazy=True), A('num', 'scalar', 'int')]
    if d['unique']:
        C.append(A('code', 'scalar', 'int', unique=True))
    if d['json']:
        C += [A('doc', 'scalar', 'json'), A('arr', 'scalar', 'intarray')]
    for i, (t, req, lazy) in enumerate(d['extra']):
        C.append(A('x%d' % i, 'scalar', t, required=bool(req), lazy=bool(lazy)))
    C.append(A('parent', 'ref', 'P', required=(d['ref'] == 'required'), reverse='kids'))
    C.append(A('tags', 'coll', 'T', reverse='cs', m2m=True))
    if d['o2o']:
        C.append(A('badge', 'o2orev', 'O', reverse='owner'))
    if d['inherit']:
        C.append(A('extra2', 'scalar', 'str', sub=True))
    T = [A('id', 'pk', 'str' if d['tpk'] == 'str' else 'int'),
         A('label', 'scalar', 'str', required=True), A('memo', 'scalar', 'str', lazy=True),
         A('cs', 'coll', 'C', reverse='tags', m2m=True)]
    meta = {'P': P, 'C': C, 'T': T}
    if d['o2o']:
        meta['O'] = [A('id', 'pk', 'int'), A('serial', 'scalar', 'str', required=True),
                     A('owner', 'ref', 'C', required=True, reverse='badge')]
    return meta


def pk_attrs(meta, e):
    return [a['name'] for a in meta[e] if a['kind'] == 'pk']


def get_attr(meta, e, name):
    for a in meta[e]:
        if a['name'] == name:
            return a
    raise HarnessError('no attribute %s.%s' % (e, name))


def row_pk(meta, e, row):
    names = pk_attrs(meta, e)
    if len(names) == 1:
        return row[names[0]]
    return tuple(row[n] for n in names)


def entity_source(diagram):
    """python source of the entity classes (executed with `db` and pony names in scope)"""
    d = norm_diagram(diagram)
    meta = attr_meta(d)
    lines = []

    def decl(e, a):
        n, k, t = a['name'], a['kind'], a['type']
        if k == 'pk':
            if len(pk_attrs(meta, e)) > 1:
                return '%s = Required(%s)' % (n, t)
            return '%s = PrimaryKey(%s%s)' % (n, t, ', auto=True' if a['auto'] else '')
        if k == 'scalar':
            opts = ''
            if a['lazy']:
                opts += ', lazy=True'
            if a['unique']:
                opts += ', unique=True'
            t = {'json': 'Json', 'intarray': 'IntArray'}.get(t, t)
            return '%s = %s(%s%s)' % (n, 'Required' if a['required'] else 'Optional', t, opts)
        if k == 'ref':
            return '%s = %s(%r, reverse=%r)' % (n, 'Required' if a['required'] else 'Optional', t, a['reverse'])
        if k == 'o2orev':
            return '%s = Optional(%r, reverse=%r)' % (n, t, a['reverse'])
        if k == 'coll':
            return '%s = Set(%r, reverse=%r%s)' % (n, t, a['reverse'], ', lazy=True' if a['lazy'] else '')
        raise HarnessError(k)
    for e in ('P', 'C', 'T', 'O'):
        if e not in meta:
            continue
        lines.append('class %s(db.Entity):' % e)
        for a in meta[e]:
            if a['sub']:
                continue
            lines.append('    ' + decl(e, a))
        pks = pk_attrs(meta, e)
        if len(pks) > 1:
            lines.append('    PrimaryKey(%s)' % ', '.join(pks))
        if e == 'C' and d['inherit']:
            lines.append('class C2(C):')
            for a in meta[e]:
                if a['sub']:
                    lines.append('    ' + decl(e, a))
    return '\n'.join(lines) + '\n'


# ------------------------------------------------------------------------------------------------
# environment: one Database bound to one sqlite file
# ------------------------------------------------------------------------------------------------

class Env(object):
    pass


def faulty_connection_class():
    """sqlite3 connection whose COMMIT can be made to fail like 'database is locked' (the transaction stays open and
    is rolled back by whoever handles the error)"""
    class Conn(sqlite3.Connection):
        fail_commit = False
        fail_rollback = False      # the connection 'died': ROLLBACK (also the one done when it is released) fails

        def commit(self):
            if type(self).fail_commit:
                raise sqlite3.OperationalError('database is locked')
            return sqlite3.Connection.commit(self)

        def rollback(self):
            if type(self).fail_rollback:
                raise sqlite3.OperationalError('connection is dead')
            return sqlite3.Connection.rollback(self)
    return Conn


AUX_ROWS = [(1, 10), (2, 20), (3, 30)]


def build_env(diagram, path, with_aux=True):
    import pony.orm as orm
    d = norm_diagram(diagram)
    env = Env()
    env.diagram = d
    env.meta = attr_meta(d)
    env.path = path
    if os.path.exists(path):
        os.remove(path)
    db = orm.Database()
    ns = {'db': db, 'PrimaryKey': orm.PrimaryKey, 'Required': orm.Required, 'Optional': orm.Optional, 'Set': orm.Set,
          'Json': orm.Json, 'IntArray': orm.IntArray}
    env.source = entity_source(d)
    exec(env.source, ns)
    env.conn_cls = faulty_connection_class()
    db.bind('sqlite', path, create_db=True, factory=env.conn_cls)
    db.generate_mapping(create_tables=True)
    env.db = db
    env.aux_db = None
    env.aux_conn_cls = faulty_connection_class()
    env.aux_path = path + '.aux'
    if not with_aux:
        return _finish_env(env, ns, d)
    # a second, independent database (entity X) for sessions that span two databases
    if os.path.exists(env.aux_path):
        os.remove(env.aux_path)
    env.aux_conn_cls = faulty_connection_class()
    adb = orm.Database()
    ans = {'db': adb, 'PrimaryKey': orm.PrimaryKey, 'Required': orm.Required}
    exec('class X(db.Entity):\n    id = PrimaryKey(int)\n    val = Required(int)\n', ans)
    adb.bind('sqlite', env.aux_path, create_db=True, factory=env.aux_conn_cls)
    adb.generate_mapping(create_tables=True)
    env.aux_db = adb
    env.X = ans['X']
    con = sqlite3.connect(env.aux_path)
    con.executemany('insert into "%s" values (?, ?)' % env.X._table_, AUX_ROWS)
    con.commit()
    con.close()
    return _finish_env(env, ns, d)


def _finish_env(env, ns, d):
    env.ents = {e: ns[e] for e in env.meta}
    if d['inherit']:
        env.ents['C2'] = ns['C2']
    env.qglobals = dict(env.ents)
    # schema metadata used by the raw reader (table / column names only)
    env.tables = {}
    for e in env.meta:
        cls = env.ents[e]
        cols = {}
        for a in env.meta[e]:
            pa = getattr(cls, a['name'], None)
            if pa is None and a['sub']:
                pa = getattr(env.ents['C2'], a['name'])
            if a['kind'] in ('pk', 'scalar', 'ref'):
                cols[a['name']] = list(pa.columns)
        tname = cls._table_
        env.tables[e] = {'table': tname if isinstance(tname, str) else tname[-1], 'cols': cols,
                         'disc': cls._discriminator_attr_.column if cls._discriminator_attr_ is not None else None}
    tags = env.ents['C'].tags
    t = tags.table
    env.m2m = {'table': t if isinstance(t, str) else t[-1], 'tcols': list(tags.columns),
               'ccols': list(tags.reverse.columns)}
    env.saved_rows = None
    return env


def close_env(env):
    env.conn_cls.fail_commit = env.aux_conn_cls.fail_commit = False
    env.conn_cls.fail_rollback = env.aux_conn_cls.fail_rollback = False
    for db in (env.db, env.aux_db):
        if db is None:
            continue
        try:
            db.disconnect()
        except Exception:
            pass
        try:
            from pony.orm.core import local
            local.db2cache.pop(db, None)
        except Exception:
            pass
    for path in (env.path, env.aux_path):
        for suffix in ('', '-journal', '-wal', '-shm'):
            try:
                os.remove(path + suffix)
            except OSError:
                pass


def _raw(env):
    con = sqlite3.connect(env.path)
    return con


def dump_text(env):
    out = []
    for path in (env.path, env.aux_path) if env.aux_db is not None else (env.path,):
        con = sqlite3.connect(path)
        try:
            out.append('\n'.join(con.iterdump()))
        finally:
            con.close()
    return '\n-- second database\n'.join(out)


def aux_state(env):
    if env.aux_db is None:
        return {}
    con = sqlite3.connect(env.aux_path)
    try:
        return dict(con.execute('select id, val from "%s"' % env.X._table_).fetchall())
    finally:
        con.close()


def _conv(t, v):
    if v is None:
        return None
    if t == 'bool':
        return bool(v)
    if t in JSON_TYPES:
        return json.loads(v)
    return v


def raw_state(env):
    """{entity: {pk: row}} read through plain sqlite3; refs are pk values, collections frozensets of pks"""
    con = _raw(env)
    try:
        state = {}
        meta = env.meta
        for e in meta:
            tb = env.tables[e]
            names = [a['name'] for a in meta[e] if a['kind'] in ('pk', 'scalar', 'ref')]
            collist = []
            for n in names:
                collist += tb['cols'][n]
            sel = ', '.join('"%s"' % c for c in collist)
            if tb['disc']:
                sel += ', "%s"' % tb['disc']
            rows = {}
            for r in con.execute('select %s from "%s"' % (sel, tb['table'])):
                row = {}
                i = 0
                for n in names:
                    a = get_attr(meta, e, n)
                    k = len(tb['cols'][n])
                    vals = r[i:i + k]
                    i += k
                    if a['kind'] == 'ref':
                        if any(v is None for v in vals):
                            row[n] = None
                        else:
                            row[n] = vals[0] if k == 1 else tuple(vals)
                    else:
                        row[n] = _conv(a['type'], vals[0])
                if tb['disc']:
                    row['_cls'] = r[i]
                rows[row_pk(meta, e, row)] = row
            state[e] = rows
        links = set()
        m = env.m2m
        nc, nt = len(m['ccols']), len(m['tcols'])
        sel = ', '.join('"%s"' % c for c in m['ccols'] + m['tcols'])
        for r in con.execute('select %s from "%s"' % (sel, m['table'])):
            c = r[0] if nc == 1 else tuple(r[:nc])
            t = r[nc] if nt == 1 else tuple(r[nc:])
            links.add((c, t))
        for pk, row in state['P'].items():
            row['kids'] = frozenset(c for c, crow in state['C'].items() if crow['parent'] == pk)
        for pk, row in state['C'].items():
            row['tags'] = frozenset(t for c, t in links if c == pk)
            if 'O' in state:
                owners = [o for o, orow in state['O'].items() if orow['owner'] == pk]
                row['badge'] = owners[0] if owners else None
        for pk, row in state['T'].items():
            row['cs'] = frozenset(c for c, t in links if t == pk)
        return state
    finally:
        con.close()


def _pkval(pk):
    return tuple(pk) if isinstance(pk, list) else pk


def load_data(env, data):
    """insert the initial rows through Pony once, remember the raw rows, later restore them raw"""
    import pony.orm as orm
    meta = env.meta
    with orm.db_session:
        objs = {}
        for e in ('P', 'T', 'C', 'O'):
            if e not in meta:
                continue
            for row in data.get(e, []):
                kw = {}
                cls = env.ents[row.get('_cls') or e]
                for a in meta[e]:
                    n = a['name']
                    if n not in row:
                        continue
                    v = row[n]
                    if a['kind'] == 'pk':
                        if a['auto']:
                            continue
                        kw[n] = v
                    elif a['kind'] == 'scalar':
                        kw[n] = v
                    elif a['kind'] == 'ref':
                        kw[n] = None if v is None else objs[(a['type'], _pkval(v))]
                    elif a['kind'] == 'coll' and a['m2m'] and e == 'C':
                        kw[n] = [objs[('T', _pkval(t))] for t in v]
                obj = cls(**kw)
                orm.flush()
                objs[(e, row_pk(meta, e, {k: _pkval(v) if isinstance(v, list) else v for k, v in row.items()}))] = obj
    # self check of the raw reader against the data spec (harness invariant, not the property)
    st = raw_state(env)
    for e in meta:
        rows = data.get(e, [])
        if len(st[e]) != len(rows):
            raise HarnessError('raw reader sees %d %s rows, data has %d' % (len(st[e]), e, len(rows)))
        for row in rows:
            pk = row_pk(meta, e, {k: _pkval(v) if isinstance(v, list) else v for k, v in row.items()})
            got = st[e].get(pk)
            if got is None:
                raise HarnessError('row %s[%r] missing in raw state' % (e, pk))
            for a in meta[e]:
                n = a['name']
                if n not in row:
                    continue
                want = row[n]
                if a['kind'] == 'coll':
                    if not (a['m2m'] and e == 'C'):
                        continue
                    want = frozenset(_pkval(t) for t in want)
                elif isinstance(want, list) and a['type'] not in JSON_TYPES:
                    want = tuple(want)
                if got[n] != want:
                    raise HarnessError('raw state %s[%r].%s = %r, data says %r' % (e, pk, n, got[n], want))
    con = _raw(env)
    try:
        saved = {}
        for (name,) in con.execute("select name from sqlite_master where type='table'").fetchall():
            saved[name] = con.execute('select * from "%s"' % name).fetchall()
        env.saved_rows = saved
    finally:
        con.close()


def restore_data(env):
    con = _raw(env)
    try:
        con.execute('PRAGMA foreign_keys = OFF')
        con.execute('PRAGMA synchronous = OFF')
        for name, rows in env.saved_rows.items():
            con.execute('delete from "%s"' % name)
        for name, rows in env.saved_rows.items():
            if rows:
                q = 'insert into "%s" values (%s)' % (name, ', '.join('?' * len(rows[0])))
                con.executemany(q, rows)
        con.commit()
    finally:
        con.close()
    if env.aux_db is None:
        return
    con = sqlite3.connect(env.aux_path)
    try:
        con.execute('PRAGMA synchronous = OFF')
        con.execute('delete from "%s"' % env.X._table_)
        con.executemany('insert into "%s" values (?, ?)' % env.X._table_, AUX_ROWS)
        con.commit()
    finally:
        con.close()


# ------------------------------------------------------------------------------------------------
# in-place changes of Json / array values: [kind, ...] applied to a plain python value (model) or to Pony's
# tracked container (harness)
# ------------------------------------------------------------------------------------------------

def do_mut(val, mut):
    """apply the mutation to the container itself; raises LookupError/TypeError/AttributeError when it does not fit"""
    k = mut[0]
    if k == 'setitem':
        val[mut[1]] = mut[2]
    elif k == 'delitem':
        del val[mut[1]]
    elif k == 'nested_append':
        val[mut[1]].append(mut[2])
    elif k == 'update':
        val.update(mut[1])
    elif k == 'pop':
        val.pop(mut[1])
    elif k == 'clear':
        val.clear()
    elif k == 'append':
        val.append(mut[1])
    elif k == 'extend':
        val.extend(mut[1])
    elif k == 'setidx':
        val[mut[1]] = mut[2]
    elif k == 'pop_last':
        val.pop()
    else:
        raise HarnessError('unknown mutation %r' % (mut,))


def mut_fits(val, mut, t):
    """the mutation is meaningful for this plain value (so that only Pony's liveness check can refuse it)"""
    k = mut[0]
    if t == 'json':
        if not isinstance(val, dict) or k not in ('setitem', 'delitem', 'nested_append', 'update', 'pop', 'clear'):
            return False
        if k in ('delitem', 'pop'):
            return mut[1] in val
        if k == 'nested_append':
            return isinstance(val.get(mut[1]), list)
        return True
    if t == 'intarray':
        if not isinstance(val, list) or k not in ('append', 'extend', 'setidx', 'pop_last'):
            return False
        if k == 'setidx':
            return 0 <= mut[1] < len(val)
        if k == 'pop_last':
            return len(val) > 0
        return True
    return False


# ------------------------------------------------------------------------------------------------
# reference model of what the session did (which values are certainly in memory, what was assigned)
# ------------------------------------------------------------------------------------------------

L, U, Q = 'L', 'U', '?'      # certainly loaded / certainly not loaded / unknown

READ_ACTIONS = ('get', 'query_all', 'ref', 'members', 'read', 'loadattr', 'loadobj', 'contains', 'count')
WRITE_ACTIONS = ('create', 'assign', 'mutate', 'add', 'remove', 'delete', 'flush', 'commit')


class Model(object):
    def __init__(self, diagram, data):
        self.diagram = norm_diagram(diagram)
        self.meta = attr_meta(self.diagram)
        self.pending = {}
        for e in self.meta:
            self.pending[e] = {}
            for row in data.get(e, []):
                jnames = set(a['name'] for a in self.meta[e] if a['type'] in JSON_TYPES)
                r = {k: (copy.deepcopy(v) if k in jnames else _pkval(v) if isinstance(v, list) and k != 'tags' else v)
                     for k, v in row.items()}
                if 'tags' in r:
                    r['tags'] = set(_pkval(t) for t in r['tags'])
                self.pending[e][row_pk(self.meta, e, r)] = r
        self.mem = {}            # hkey -> object description
        self.touched = set()     # hkeys whose links changed since the last commit
        self.modified = False    # anything changed since the last commit
        self.any_write = False
        self.phase2 = False
        self.only_creates = True   # the session never needed the database (no connection was opened)
        self.unsaved = set()       # objects with something to save at the next flush
        self.uncertain_end = False
        self.touch_all = False     # a delete (with its cascades) happened since the last commit
        self.aux = {}              # pk -> description of the objects of the second database (entity X)
        self.aux_pending = {1: 10, 2: 20, 3: 30}
        self.ncreated = 0

    # -- helpers
    def cols(self, e, cls=None):
        return [a for a in self.meta[e] if a['kind'] in ('scalar', 'ref') and (not a['sub'] or cls == 'C2')]

    def new_obj(self, h, loaded, cls=None):
        e = h[0]
        st = {}
        for a in self.meta[e]:
            n = a['name']
            if a['sub'] and cls != 'C2':
                continue
            if a['kind'] == 'pk':
                st[n] = L
            elif a['kind'] in ('scalar', 'ref'):
                st[n] = (U if a['lazy'] else L) if loaded else U
            elif a['kind'] == 'coll':
                st[n] = U
            else:
                st[n] = Q
        if self.phase2:
            for a in self.cols(e, cls):
                if not a['lazy'] and st[a['name']] == U:
                    st[a['name']] = Q
        o = {'state': st, 'assigned': {}, 'created': False, 'deleted': False, 'deleted_ok': False,
             'dirty': False, 'dirty_sure': False, 'cls': cls or e, 'committed_create': False, 'captured': False,
             'cls_known': bool(loaded), 'held': set()}
        self.mem[h] = o
        if loaded:
            self.stubs_for(h)
        return o

    def row(self, h):
        return self.pending[h[0]].get(h[1])

    def stubs_for(self, h):
        row = self.row(h)
        if row is None:
            return
        for a in self.meta[h[0]]:
            if a['kind'] == 'ref' and row.get(a['name']) is not None:
                t = (a['type'], row[a['name']])
                if t not in self.mem:
                    trow = self.row(t)
                    self.new_obj(t, False, trow.get('_cls') if trow else None)

    def make_loaded(self, h, lazy_too=False, sub_too=True):
        o = self.mem[h]
        if o['created']:
            return
        for a in self.cols(h[0], o['cls']):
            if a['lazy'] and not lazy_too:
                continue
            if a['sub'] and not sub_too:
                if o['state'][a['name']] == U:
                    o['state'][a['name']] = Q
                continue
            o['state'][a['name']] = L
        o['cls_known'] = True
        self.stubs_for(h)

    def sub_ok(self, h):
        """the python object certainly has the subclass (a stub of the root class learns its class when loaded)"""
        o = self.mem[h]
        return o['cls'] == 'C2' and (o['cls_known'] or o['created'])

    def unknown_stub(self, t):
        """an object that may have entered the identity map as a stub without the script asking for it: if the script
        fetches it later, it may or may not get loaded"""
        if t in self.mem:
            return
        trow = self.row(t)
        o = self.new_obj(t, False, (trow or {}).get('_cls'))
        for a in self.cols(t[0], o['cls']):
            if not a['lazy']:
                o['state'][a['name']] = Q

    def blur_seeds(self, e):
        """loading one stub of an entity loads its fellow stubs in the same batch (and creates stubs of what they
        refer to)"""
        for h, o in list(self.mem.items()):
            if h[0] == e and not o['created']:
                for a in self.cols(e, o['cls']):
                    if not a['lazy'] and o['state'][a['name']] == U:
                        o['state'][a['name']] = Q
                row = self.row(h)
                if row is not None:
                    for a in self.meta[e]:
                        if a['kind'] == 'ref' and row.get(a['name']) is not None:
                            self.unknown_stub((a['type'], row[a['name']]))

    def enter_phase2(self):
        if self.phase2:
            return
        self.phase2 = True
        for h, o in self.mem.items():
            for a in self.cols(h[0], o['cls']):
                if not a['lazy'] and o['state'][a['name']] == U:
                    o['state'][a['name']] = Q

    def members_now(self, h, coll):
        e, pk = h
        if coll == 'kids':
            return set(c for c, r in self.pending['C'].items() if r.get('parent') == pk)
        if coll == 'tags':
            return set(self.pending['C'][pk].get('tags', ()))
        if coll == 'cs':
            return set(c for c, r in self.pending['C'].items() if pk in r.get('tags', ()))
        raise HarnessError(coll)

    def _database_free(self, act):
        """the action certainly does not touch the database (so it does not save pending objects either)"""
        k = act[0]
        if k == 'get':
            h = hk([act[1], act[2]])
            if h[0] == 'C' and self.diagram['inherit'] and h in self.mem and not self.mem[h]['created']:
                return False
            return h in self.mem
        if k == 'read':
            o = self.mem.get(hk(act[1]))
            if o is None:
                return False
            return o['state'].get(act[2]) == L or (o['created'] and o.get('unsaved_sure', False))
        return False

    def alive(self, h):
        """usable by further in-session actions (objects that a cascade may have deleted are left alone)"""
        o = self.mem.get(h)
        return o is not None and not o['deleted'] and not o['deleted_ok']

    # -- validity + effect of one in-session action; returns False when the action makes no sense here
    def apply(self, act):
        k = act[0]
        meta = self.meta
        if k in READ_ACTIONS:        # anything that may query the database flushes pending changes first
            for o in self.mem.values():
                o['dirty_sure'] = False
            if not self._database_free(act):
                for o in self.mem.values():
                    o['unsaved_sure'] = False
        if k == 'get':
            h = hk([act[1], act[2]])
            if h[0] not in meta or self.row(h) is None:
                return False
            if h in self.mem:
                if self.mem[h]['deleted']:
                    return False
                self.mem[h]['captured'] = True
                if h[0] == 'C' and self.diagram['inherit'] and not self.mem[h]['created']:
                    # E[pk] of a cached stub of an entity with subclasses loads it (and its fellow stubs)
                    self.only_creates = False
                    self.blur_seeds('C')
                return True
            self.only_creates = False
            if self.phase2:
                # after modifications the identity map may already hold this object as a stub
                self.unknown_stub(h)
                self.mem[h]['captured'] = True
                return True
            self.new_obj(h, True, self.row(h).get('_cls'))['captured'] = True
            return True
        if k == 'query_all':
            e = act[1]
            if e not in meta or self.phase2:
                return False
            self.only_creates = False
            for pk in list(self.pending[e]):
                h = (e, pk)
                if h not in self.mem:
                    self.new_obj(h, True, self.row(h).get('_cls'))
                else:
                    self.make_loaded(h)
                self.mem[h]['captured'] = True
            return True
        if k == 'ref':
            h = hk(act[1])
            if not self.alive(h):
                return False
            a = get_attr(meta, h[0], act[2])
            o = self.mem[h]
            if a['kind'] != 'ref' or o['state'].get(a['name']) != L or self.phase2:
                return False
            row = self.row(h)
            if row is None or row.get(a['name']) is None:
                return False
            t = (a['type'], row[a['name']])
            if t not in self.mem:
                self.new_obj(t, False, (self.row(t) or {}).get('_cls'))
            self.mem[t]['captured'] = True
            if a['type'] == 'C' and self.diagram['inherit']:
                # reading a reference to an entity with subclasses loads the seed (and its fellow seeds)
                self.only_creates = False
                self.blur_seeds('C')
                self.make_loaded(t)
            return True
        if k == 'members':
            h = hk(act[1])
            if not self.alive(h) or self.phase2:
                return False
            a = get_attr(meta, h[0], act[2])
            o = self.mem[h]
            if a['kind'] != 'coll' or o['created']:
                return False
            self.only_creates = False
            for h2, o2 in list(self.mem.items()):    # n+1 prefetch may load the same collection of other objects
                if h2[0] == h[0] and h2 != h and not o2['created'] and not o2['deleted']:
                    if o2['state'][a['name']] == U:
                        o2['state'][a['name']] = Q
                    if self.row(h2) is not None:
                        for m in self.members_now(h2, a['name']):
                            self.unknown_stub((a['type'], m))
            o['state'][a['name']] = L
            for m in self.members_now(h, a['name']):
                t = (a['type'], m)
                if a['m2m']:
                    if t not in self.mem:
                        self.new_obj(t, False, (self.row(t) or {}).get('_cls'))
                else:
                    if t not in self.mem:
                        self.new_obj(t, True, (self.row(t) or {}).get('_cls'))
                    else:
                        self.make_loaded(t)
                self.mem[t]['captured'] = True
            if a['m2m'] and a['type'] == 'C' and self.diagram['inherit']:
                # items of an entity with subclasses are loaded to learn their class (and bring stubs of what they refer to)
                self.blur_seeds('C')
            return True
        if k == 'read':
            h = hk(act[1])
            if not self.alive(h):
                return False
            a = get_attr(meta, h[0], act[2])
            o = self.mem[h]
            if a['kind'] == 'coll' or (a['sub'] and not self.sub_ok(h)):
                return False
            if a['type'] in JSON_TYPES:
                o['held'].add(a['name'])       # the harness keeps the container it read
            st = o['state'][a['name']]
            if a['kind'] in ('ref', 'o2orev') and self.diagram['inherit'] and a['type'] == 'C' \
                    and not (o['created'] and o.get('unsaved_sure')):
                # reading a reference to an entity with subclasses loads the referred stub (and its fellow stubs)
                self.only_creates = False
                self.blur_seeds('C')
            if st == L:
                return True
            if o['created'] and o.get('unsaved_sure'):
                return True         # every attribute of an unsaved new object is in memory
            self.only_creates = False
            if o['created']:
                return True
            if a['kind'] == 'o2orev':
                o['state'][a['name']] = L
                row = self.row(h)
                # the related O object (if any) is fetched completely
                for opk, orow in self.pending.get('O', {}).items():
                    if orow.get('owner') == h[1]:
                        t = ('O', opk)
                        if t not in self.mem:
                            self.new_obj(t, True)
                        else:
                            self.make_loaded(t)
                return True
            if a['lazy']:
                o['state'][a['name']] = L
                return True
            self.blur_seeds(h[0])
            self.make_loaded(h)
            return True
        if k == 'loadattr':
            h = hk(act[1])
            if not self.alive(h):
                return False
            a = get_attr(meta, h[0], act[2])
            o = self.mem[h]
            if a['kind'] not in ('scalar', 'ref') or o['created'] or (a['sub'] and not self.sub_ok(h)):
                return False
            self.only_creates = False
            o['state'][a['name']] = L
            if a['kind'] == 'ref':
                self.stubs_for(h)
            return True
        if k == 'loadobj':
            h = hk(act[1])
            if not self.alive(h) or self.mem[h]['created']:
                return False
            self.only_creates = False
            # obj.load() of a stub that still has the root class loads the attributes of that class only
            self.make_loaded(h, lazy_too=True, sub_too=self.sub_ok(h))
            return True
        if k in ('contains', 'count'):
            h = hk(act[1])
            if not self.alive(h) or self.mem[h]['created'] or self.phase2:
                return False
            a = get_attr(meta, h[0], act[2])
            if a['kind'] != 'coll':
                return False
            if k == 'contains':
                t = hk(act[3])
                if t[0] != a['type'] or not self.alive(t) or self.mem[t]['created']:
                    return False
                self.blur_seeds(t[0])      # a membership test may load the item
            self.only_creates = False
            return True

        # ---- modifications
        if k == 'create':
            e, pk, vals = act[1], act[2], act[3]
            if e not in ('P', 'C', 'T'):
                return False
            h = hk([e, pk])
            if h in self.mem or (not is_symbolic(h[1]) and self.row(h) is not None):
                return False
            cls = vals.get('_cls') or e
            for n, v in vals.items():
                if n == '_cls':
                    continue
                a = get_attr(meta, e, n)
                if a['kind'] == 'ref' and v is not None and not self.alive(hk(v['$obj'])):
                    return False
                if a['kind'] == 'coll':
                    if not a['m2m']:
                        return False
                    for it in v:
                        if not self.alive(hk(it['$obj'])):
                            return False
            self.enter_phase2()
            o = self.new_obj(h, False, cls)
            o['created'] = o['captured'] = o['unsaved_sure'] = True
            self.unsaved.add(h)
            o['dirty'] = o['dirty_sure'] = True
            row = {}
            for a in meta[e]:
                n = a['name']
                if a['sub'] and cls != 'C2':
                    continue
                if a['kind'] == 'pk':
                    continue
                if a['kind'] in ('scalar', 'ref'):
                    if n in vals and vals[n] is not None:
                        v = vals[n]
                        if a['kind'] == 'ref':
                            v = hk(v['$obj'])[1]
                            self.touched.add((a['type'], v))
                        o['state'][n] = L
                        o['assigned'][n] = [v]
                        row[n] = v
                    else:
                        o['state'][n] = Q
                        o['assigned'][n] = [None, ''] if a['type'] == 'str' else [None, {}] if a['type'] == 'json' \
                            else [None, []] if a['type'] == 'intarray' else [None]
                        row[n] = None
                else:
                    o['state'][n] = Q
            if 'tags' in vals:
                row['tags'] = set(hk(it['$obj'])[1] for it in vals['tags'])
                for t in row['tags']:
                    self.touched.add(('T', t))
            elif e == 'C':
                row['tags'] = set()
            if cls != e:
                row['_cls'] = cls
            self.pending[e][h[1]] = row
            self.touched.add(h)
            self.modified = self.any_write = True
            return True
        if k == 'assign':
            h = hk(act[1])
            if not self.alive(h):
                return False
            a = get_attr(meta, h[0], act[2])
            o = self.mem[h]
            if a['kind'] not in ('scalar', 'ref') or (a['sub'] and not self.sub_ok(h)):
                return False
            v = act[3]
            if a['kind'] == 'ref':
                if v is None:
                    if a['required']:
                        return False
                else:
                    t = hk(v['$obj'])
                    if t[0] != a['type'] or not self.alive(t):
                        return False
                    if a['reverse'] == 'badge':
                        return False
                    v = t[1]
            elif v is None and (a['required'] or a['type'] == 'str' or a['type'] in JSON_TYPES):
                return False
            self.enter_phase2()
            if not o['created']:
                self.only_creates = False     # assigning may load the object
            row = self.row(h)
            if a['kind'] == 'ref':
                if row is not None and row.get(a['name']) is not None:
                    self.touched.add((a['type'], row[a['name']]))
                if v is not None:
                    self.touched.add((a['type'], v))
                self.touched.add(h)
            # a None value of a new object is dropped from memory when the object is inserted
            o['state'][a['name']] = Q if (o['created'] and v is None) else L
            o['assigned'].setdefault(a['name'], []).append(v)
            if row is not None:
                row[a['name']] = v
            o['dirty'] = o['dirty_sure'] = True
            self.unsaved.add(h)
            self.modified = self.any_write = True
            return True
        if k == 'mutate':
            h = hk(act[1])
            if not self.alive(h):
                return False
            a = get_attr(meta, h[0], act[2])
            row = self.row(h)
            if a['type'] not in JSON_TYPES or row is None or (a['sub'] and not self.sub_ok(h)):
                return False
            cur = copy.deepcopy(row.get(a['name']))
            if cur is None or not mut_fits(cur, act[3], a['type']):
                return False
            if not self.apply(['read', act[1], act[2]]):      # the value is read (loaded if need be) ...
                return False
            do_mut(cur, act[3])                                # ... and changed in place: an assignment
            return self.apply(['assign', act[1], act[2], cur])
        if k in ('add', 'remove'):
            h = hk(act[1])
            t = hk(act[3])
            if not self.alive(h) or not self.alive(t):
                return False
            a = get_attr(meta, h[0], act[2])
            if a['kind'] != 'coll' or t[0] != a['type']:
                return False
            self.enter_phase2()
            o = self.mem[h]
            o2 = self.mem[t]
            if not (o['created'] and o2['created']):
                self.only_creates = False
            self.touched.add(h)
            self.touched.add(t)
            self.unsaved.add(h)
            self.unsaved.add(t)
            if not a['m2m']:
                prow = self.row(t)
                ra = get_attr(meta, 'C', 'parent')
                if prow is not None and prow.get('parent') is not None:
                    self.touched.add(('P', prow['parent']))
                if o2['created']:
                    o2['state']['parent'] = Q      # a None reference of a new object is dropped when it is inserted
                if k == 'add':
                    if prow is not None:
                        prow['parent'] = h[1]
                    o2['assigned'].setdefault('parent', []).append(h[1])
                else:
                    if prow is not None and prow.get('parent') == h[1]:
                        if ra['required']:
                            o2['deleted_ok'] = True       # cascade delete of the removed child
                            self.cascade_from(t)
                        else:
                            prow['parent'] = None
                    o2['assigned'].setdefault('parent', []).append(None)
                o2['dirty'] = True
            else:
                crow = self.row(h if h[0] == 'C' else t)
                tpk = t[1] if h[0] == 'C' else h[1]
                if crow is not None:
                    if k == 'add':
                        crow.setdefault('tags', set()).add(tpk)
                    else:
                        crow.setdefault('tags', set()).discard(tpk)
            self.modified = self.any_write = True
            return True
        if k == 'delete':
            h = hk(act[1])
            if not self.alive(h):
                return False
            badge_owners = set(r.get('owner') for r in self.pending.get('O', {}).values())
            if h[0] == 'C' and h[1] in badge_owners:
                return False        # refused by Pony: C.badge has no cascade_delete
            if h[0] == 'P' and any(c in badge_owners for c in self.members_now(h, 'kids')):
                return False
            self.enter_phase2()
            o = self.mem[h]
            if not o['created']:
                self.only_creates = False
            o['deleted'] = True
            self.touch_all = True
            o['dirty'] = o['dirty_sure'] = True
            if o['created'] and o.get('unsaved_sure'):
                self.unsaved.discard(h)     # a new object deleted before it was saved is cancelled: nothing to save
            else:
                self.unsaved.add(h)
            self.cascade_from(h)
            for h2 in list(self.mem):
                self.touched.add(h2)
            self.pending[h[0]].pop(h[1], None)
            self.modified = self.any_write = True
            return True
        if k in ('flush', 'commit'):
            self.enter_phase2()
            if self.modified or k == 'commit':
                pass
            if self.unsaved:
                self.only_creates = False
                for o in self.mem.values():
                    o['unsaved_sure'] = False
            self.unsaved = set()
            for o in self.mem.values():
                o['dirty'] = o['dirty_sure'] = False
            if k == 'commit':
                self.on_commit()
            return True
        raise HarnessError('unknown action %r' % (act,))

    # -- the second database: entity X(id, val); objects keyed by pk
    def apply_aux(self, act):
        k = act[0]
        if k == 'get':
            if act[1] not in self.aux_pending:
                return False
            self.aux.setdefault(act[1], {'assigned': [], 'created': False})
            return True
        if k == 'assign':
            if act[1] not in self.aux:
                return False
            self.aux[act[1]]['assigned'].append(act[2])
            self.aux_pending[act[1]] = act[2]
            return True
        if k == 'create':
            if act[1] in self.aux_pending or act[1] in self.aux:
                return False
            self.aux[act[1]] = {'assigned': [act[2]], 'created': True}
            self.aux_pending[act[1]] = act[2]
            return True
        raise HarnessError('unknown aux action %r' % (act,))

    def cascade_from(self, h):
        """objects that a delete of h may delete in cascade get deleted_ok"""
        if h[0] == 'P':
            for h2, o2 in self.mem.items():
                if h2[0] in ('C', 'O'):
                    o2['deleted_ok'] = True
        elif h[0] == 'C':
            for h2, o2 in self.mem.items():
                if h2[0] == 'O':
                    o2['deleted_ok'] = True

    def on_commit(self):
        self.touched = set()
        self.touch_all = False
        self.modified = False
        for h, o in self.mem.items():
            if o['created']:
                o['committed_create'] = True
                for n, vs in o['assigned'].items():
                    if len(vs) > 1 and not (vs[0] is None and vs[1] in ('', {}, []) and len(vs) == 2):
                        o['assigned'][n] = vs[-1:]
            else:
                o['assigned'] = {}

    def finish(self, end):
        if end in ('commit',):
            for o in self.mem.values():
                o['dirty'] = o['dirty_sure'] = False
            self.on_commit()
            self.rolled_back = False
        elif end == 'commit_exception':
            for o in self.mem.values():
                o['dirty'] = o['dirty_sure'] = False
            self.on_commit()
            self.rolled_back = False
        elif end == 'commit_fault':
            # the final commit may fail on one of the databases: each database ends up committed or rolled back
            # (read from the database itself); everything that holds for a rolled-back session is accepted
            self.rolled_back = True
            self.uncertain_end = True
        else:
            self.rolled_back = True


def session_needs_no_database(case):
    """True when nothing in the in-session script needs the database (objects are created and changed in memory
    only, so no connection is ever opened) and the session does not commit"""
    m = Model(case['diagram'], case['data'])
    prep, end = effective_script(case)
    for act in prep:
        if not m.apply(act):
            return False
    return m.only_creates and end in ('rollback', 'exception')


# ------------------------------------------------------------------------------------------------
# executing the in-session script
# ------------------------------------------------------------------------------------------------

class Boom(Exception):
    """the exception thrown out of the with-block for end == 'exception'"""


def obj_key(obj):
    pk = obj.get_pk()
    return (obj.__class__._root_.__name__, pk)


def resolve(objs, v):
    if isinstance(v, dict) and '$obj' in v:
        h = hk(v['$obj'])
        if h not in objs:
            raise HarnessError('script refers to %r which was never captured' % (h,))
        return objs[h]
    if isinstance(v, list):
        return [resolve(objs, x) for x in v]
    if isinstance(v, dict):
        return {k: resolve(objs, x) for k, x in v.items()}
    return v


def pony_rejections():
    from pony.orm import core
    return (core.ConstraintError, core.CacheIndexError, core.IntegrityError, core.TransactionIntegrityError,
            core.ObjectNotFound, core.UnrepeatableReadError, core.UnresolvableCyclicDependency,
            core.OperationWithDeletedObjectError,
            NotImplementedError)    # e.g. a modified stub of the root class turns out to be of a subclass when loaded


def run_session(env, case, objs, held=None):
    """runs the prep script inside a db_session and ends it as requested; fills objs (hkey -> object) and
    held ((hkey, attr) -> the Json/array container read in the session)"""
    import pony.orm as orm
    ents = env.ents
    prep, end, strict = case['prep'], case['end'], case['strict']
    if held is None:
        held = {}
    aux = case.get('aux') or None
    json_attrs = set((e, a['name']) for e in env.meta for a in env.meta[e] if a['type'] in JSON_TYPES)

    def run_aux():
        for act in aux['script']:
            if act[0] == 'get':
                objs[('X', act[1])] = env.X[act[1]]
            elif act[0] == 'assign':
                objs[('X', act[1])].val = act[2]
            elif act[0] == 'create':
                objs[('X', act[1])] = env.X(id=act[1], val=act[2])
            else:
                raise HarnessError('unknown aux action %r' % (act,))

    def run_actions(acts):
        for act in acts:
            k = act[0]
            if k == 'get':
                e, pk = act[1], _pkval(act[2])
                objs[hk([e, act[2]])] = ents[e][pk]
            elif k == 'query_all':
                for o in ents[act[1]].select()[:]:
                    objs[obj_key(o)] = o
            elif k == 'ref':
                o = getattr(objs[hk(act[1])], act[2])
                if o is None:
                    raise HarnessError('ref %r is None' % (act,))
                objs[obj_key(o)] = o
            elif k == 'members':
                for o in list(getattr(objs[hk(act[1])], act[2])):
                    objs[obj_key(o)] = o
            elif k == 'read':
                v = getattr(objs[hk(act[1])], act[2])
                if (act[1][0], act[2]) in json_attrs:
                    held[(hk(act[1]), act[2])] = v
            elif k == 'mutate':
                v = getattr(objs[hk(act[1])], act[2])
                held[(hk(act[1]), act[2])] = v
                do_mut(v, act[3])
            elif k == 'loadattr':
                objs[hk(act[1])].load(act[2])
            elif k == 'loadobj':
                objs[hk(act[1])].load()
            elif k == 'contains':
                objs[hk(act[3])] in getattr(objs[hk(act[1])], act[2])
            elif k == 'count':
                getattr(objs[hk(act[1])], act[2]).count()
            elif k == 'create':
                e, pk, vals = act[1], act[2], act[3]
                kw = {}
                cls = ents[vals.get('_cls') or e]
                if not is_symbolic(pk):
                    names = pk_attrs(env.meta, e)
                    if len(names) == 1:
                        kw[names[0]] = pk
                    else:
                        for n, v in zip(names, pk):
                            kw[n] = v
                for n, v in vals.items():
                    if n != '_cls':
                        kw[n] = resolve(objs, v)
                objs[hk([e, pk])] = cls(**kw)
            elif k == 'assign':
                setattr(objs[hk(act[1])], act[2], resolve(objs, act[3]))
            elif k == 'add':
                getattr(objs[hk(act[1])], act[2]).add(objs[hk(act[3])])
            elif k == 'remove':
                getattr(objs[hk(act[1])], act[2]).remove(objs[hk(act[3])])
            elif k == 'delete':
                objs[hk(act[1])].delete()
            elif k == 'flush':
                orm.flush()
            elif k == 'commit':
                orm.commit()
            else:
                raise HarnessError('unknown action %r' % (act,))

    def finish_body():
        if case.get('rb_fault'):
            # the connection dies at the end of the session: its final ROLLBACK / release fails
            (env.aux_conn_cls if case['rb_fault'] == 'aux' else env.conn_cls).fail_rollback = True
        if end == 'commit_fault':
            # from now on COMMIT fails on the chosen database (the session is left normally, its commit fails)
            (env.aux_conn_cls if case.get('fault') == 'aux' else env.conn_cls).fail_commit = True
        if end == 'rollback':
            orm.rollback()
        elif end == 'exception':
            raise Boom()
        elif end == 'commit_exception':
            orm.commit()
            raise Boom()

    def body():
        if aux and aux.get('order') == 'first':
            run_aux()
        run_actions(prep)
        if aux and aux.get('order') != 'first':
            run_aux()
        finish_body()

    form = case.get('form', 'with')
    gen_end = case.get('gen', 'exhaust') if form == 'generator' else None
    nread = 0
    while nread < len(prep) and prep[nread][0] in READ_ACTIONS:
        nread += 1

    def genbody():
        # a @db_session generator: suspended once after the read-only prefix of the script ...
        if aux and aux.get('order') == 'first':
            run_aux()
        run_actions(prep[:nread])
        yield 'mid'
        run_actions(prep[nread:])
        if aux and aux.get('order') != 'first':
            run_aux()
        if gen_end == 'exhaust':
            finish_body()       # ... and then run to its end
            return
        orm.commit()            # a generator may only be suspended with nothing uncommitted
        yield 'end'             # ... or left suspended here and ended from outside
        raise HarnessError('the generator was resumed after its last yield')

    def drive_generator():
        import gc
        g = orm.db_session(strict=strict)(genbody)()
        if gen_end == 'exhaust':
            for mark in g:
                pass
            return
        if gen_end == 'break':
            for mark in g:
                if mark == 'end':
                    break
            else:
                raise HarnessError('the generator never reached its last yield')
            del g
            gc.collect()
            return
        if [next(g), next(g)] != ['mid', 'end']:
            raise HarnessError('unexpected yields')
        if gen_end == 'close':
            g.close()
        elif gen_end == 'throw_exc':
            try:
                g.throw(Boom())
            except Boom:
                pass
            else:
                raise HarnessError('the exception thrown into the generator did not come out')
        elif gen_end in ('throw_exit', 'throw_kbd'):
            exc = GeneratorExit if gen_end == 'throw_exit' else KeyboardInterrupt
            try:
                g.throw(exc())
            except exc:
                pass
            except StopIteration:
                pass
            else:
                raise HarnessError('%s thrown into the generator was swallowed' % exc.__name__)
        else:
            raise HarnessError('unknown generator ending %r' % (gen_end,))

    rej = pony_rejections()
    expect_boom = end in ('exception', 'commit_exception') and gen_end in (None, 'exhaust')
    try:
        if form == 'generator':
            drive_generator()
        elif form == 'decorator':
            orm.db_session(strict=strict)(body)()
        else:
            with orm.db_session(strict=strict):
                body()
    except Boom:
        if not expect_boom:
            raise HarnessError('Boom out of a session that should not raise')
    except (orm.core.CommitException, orm.core.PartialCommitException) as e:
        if end != 'commit_fault':
            raise InSessionError('%s: %s' % (type(e).__name__, e))
    except rej as e:
        raise Rejected('%s: %s' % (type(e).__name__, e))
    except HarnessError:
        raise
    except Exception as e:
        from pony.orm import core
        from pony.orm.dbapiprovider import DBException
        if case.get('rb_fault') and isinstance(e, (core.TransactionError, DBException)):
            return      # the failing ROLLBACK / release is reported by the session: expected
        if isinstance(e, core.TransactionError) and 'before suspending the generator' in str(e):
            raise Rejected('%s: %s' % (type(e).__name__, e))
        raise InSessionError('%s: %s' % (type(e).__name__, e))
    else:
        if expect_boom:
            raise HarnessError('the exception did not come out of the db_session')
    finally:
        env.conn_cls.fail_commit = env.aux_conn_cls.fail_commit = False
        env.conn_cls.fail_rollback = env.aux_conn_cls.fail_rollback = False


def effective_script(case):
    """(script, end) as the reference model sees them: a generator that is ended from outside while suspended has
    committed everything before its last yield, and its session is then closed with a rollback of nothing"""
    if case.get('form') == 'generator' and case.get('gen', 'exhaust') != 'exhaust':
        return list(case['prep']) + [['commit']], 'rollback'
    return case['prep'], case['end']


# ------------------------------------------------------------------------------------------------
# operations on leftover objects
# ------------------------------------------------------------------------------------------------

_REGISTRY = {}      # id(python object) -> hkey of the captured leftover objects of the current case
_HELD = {}          # (hkey, attr) -> Json / array container the in-session script read (and kept) of the current case


def norm_value(v):
    from pony.orm.core import Entity, SetInstance
    if isinstance(v, Entity):
        k = _REGISTRY.get(id(v))
        if k is None or k[1] is not v:
            k = obj_key(v)
        else:
            k = k[0]
        return {'$obj': jk(k)}
    if isinstance(v, (set, frozenset, SetInstance)):
        return {'$set': sorted((norm_value(x) for x in v), key=lambda x: json.dumps(x, sort_keys=True, default=repr))}
    if isinstance(v, (list, tuple)):
        return [norm_value(x) for x in v]
    if isinstance(v, dict):
        return {str(k): norm_value(x) for k, x in v.items()}
    if v is None or isinstance(v, (bool, int, float, str)):
        return v
    return {'$repr': repr(v)}


def classify_exc(e):
    from pony.orm import core
    flags = []
    if isinstance(e, core.DatabaseSessionIsOver):
        flags.append('DSIO')
    if isinstance(e, core.OperationWithDeletedObjectError):
        flags.append('OWDOE')
    if isinstance(e, core.TransactionError):
        flags.append('TX')
    if isinstance(e, core.ExprEvalError):
        cause = getattr(e, 'cause', None)
        if isinstance(cause, core.DatabaseSessionIsOver):
            flags.append('EVAL_DSIO')
        if isinstance(cause, core.OperationWithDeletedObjectError):
            flags.append('EVAL_OWDOE')
    return {'exc': type(e).__name__, 'flags': flags, 'msg': str(e)[:300]}


def q_texts(meta, key_entity, how, extra=None):
    """(entity queried, query text using `o`) for the ways a leftover object can be a query parameter"""
    if how == 'obj_eq':
        return key_entity, '(x for x in %s if x == o)' % key_entity
    if how == 'ref_eq':
        if key_entity == 'P':
            return 'C', '(x for x in C if x.parent == o)'
        if key_entity == 'C' and 'O' in meta:
            return 'O', '(x for x in O if x.owner == o)'
        return None
    if how == 'in_coll':
        if key_entity == 'T':
            return 'C', '(x for x in C if o in x.tags)'
        if key_entity == 'C':
            return 'T', '(x for x in T if o in x.cs)'
        return None
    if how == 'in_kids':
        if key_entity == 'C':
            return 'P', '(x for x in P if o in x.kids)'
        return None
    if how == 'attr':
        return key_entity, '(x for x in %s if x.%s == o.%s)' % (key_entity, extra, extra)
    raise HarnessError(how)


def exec_op(env, objs, op):
    """-> outcome: {'ok': normalised value} or {'exc': name, 'flags': [...], 'msg': ...}"""
    import pony.orm as orm
    from pony.orm import core
    k = op[0]
    if k == 'new':
        try:
            with orm.db_session:
                out = exec_op(env, objs, op[1])
                if op[1][0] in ('live_assign', 'live_add', 'live_create', 'c_create') and 'ok' in out:
                    orm.rollback()
        except HarnessError:
            raise
        except Exception as e:
            out = classify_exc(e)
            out['where'] = 'exit of the new session'
        return out
    if k in ('g_commit', 'g_flush', 'g_rollback', 'g_select'):
        try:
            if k == 'g_commit':
                return {'ok': norm_value(orm.commit())}
            if k == 'g_flush':
                return {'ok': norm_value(orm.flush())}
            if k == 'g_rollback':
                return {'ok': norm_value(orm.rollback())}
            res = orm.select('(x for x in %s)' % op[1], env.qglobals, {})[:]
            return {'ok': sorted((norm_value(x.get_pk()) for x in res), key=repr)}
        except Exception as e:
            return classify_exc(e)
    if k.startswith('x_'):
        obj = objs.get(('X', op[1]))
        if obj is None:
            raise HarnessError('op %r refers to an object that was never captured' % (op,))
        try:
            if k == 'x_read':
                return {'ok': norm_value(obj.val)}
            if k == 'x_pk':
                return {'ok': norm_value(obj.get_pk())}
            if k == 'x_assign':
                obj.val = op[2]
                return {'ok': None}
            if k == 'x_set':
                return {'ok': norm_value(obj.set(val=op[2]))}
            if k == 'x_delete':
                return {'ok': norm_value(obj.delete())}
            if k == 'x_load':
                return {'ok': norm_value(obj.load())}
            if k == 'x_flush':
                return {'ok': norm_value(obj.flush())}
        except Exception as e:
            return classify_exc(e)
        raise HarnessError('unknown op %r' % (op,))
    obj = objs.get(hk(op[1]))
    if obj is None:
        raise HarnessError('op %r refers to an object that was never captured' % (op,))
    args = [resolve(objs, a) for a in op[2:]]
    try:
        if k == 'mutate':
            if len(op) > 4 and op[4] == 'held':
                val = _HELD.get((hk(op[1]), op[2]))
                if val is None:
                    raise HarnessError('op %r: the script never held that value' % (op,))
            else:
                val = getattr(obj, op[2])
            if val is None:
                return {'skip': True}
            do_mut(val, op[3])
            return {'ok': None}
        if k == 'read':
            return {'ok': norm_value(getattr(obj, args[0]))}
        if k == 'read2':
            return {'ok': norm_value(getattr(getattr(obj, args[0]), args[1]))}
        if k == 'pk':
            return {'ok': norm_value(obj.get_pk())}
        if k == 'repr':
            return {'ok': repr(obj)}
        if k.startswith('c_'):
            coll = getattr(obj, args[0])
            if k == 'c_iter':
                return {'ok': norm_value(set(x for x in coll))}
            if k == 'c_len':
                return {'ok': len(coll)}
            if k == 'c_bool':
                return {'ok': bool(coll)}
            if k == 'c_count':
                return {'ok': coll.count()}
            if k == 'c_empty':
                return {'ok': coll.is_empty()}
            if k == 'c_copy':
                return {'ok': norm_value(coll.copy())}
            if k == 'c_in':
                return {'ok': args[1] in coll}
            if k == 'c_str':
                return {'ok': str(coll)}
            if k == 'c_add':
                return {'ok': norm_value(coll.add(args[1]))}
            if k == 'c_remove':
                return {'ok': norm_value(coll.remove(args[1]))}
            if k == 'c_clear':
                return {'ok': norm_value(coll.clear())}
            if k == 'c_assign':
                setattr(obj, args[0], args[1])
                return {'ok': None}
            if k == 'c_iadd':
                coll += [args[1]]
                return {'ok': None}
            if k == 'c_isub':
                coll -= [args[1]]
                return {'ok': None}
            if k == 'c_create':
                coll.create(**args[1])
                return {'ok': None}
            if k == 'c_load':
                return {'ok': norm_value(coll.load())}
            if k == 'c_select':
                res = coll.select()[:]
                return {'ok': sorted((norm_value(x.get_pk()) for x in res), key=repr)}
        if k == 'to_dict':
            return {'ok': norm_value(obj.to_dict(**args[0]))}
        if k == 'assign':
            setattr(obj, args[0], args[1])
            return {'ok': None}
        if k == 'set':
            return {'ok': norm_value(obj.set(**args[0]))}
        if k == 'delete':
            return {'ok': norm_value(obj.delete())}
        if k == 'oflush':
            return {'ok': norm_value(obj.flush())}
        if k == 'load':
            return {'ok': norm_value(obj.load(*args[0]))}
        if k == 'q_param':
            how = args[0]
            qt = q_texts(env.meta, op[1][0], how, args[1] if len(args) > 1 else None)
            res = orm.select(qt[1], env.qglobals, {'o': obj})[:]
            return {'ok': sorted((norm_value(x.get_pk()) for x in res), key=repr)}
        if k == 'q_kw':
            ent, attr = args[0], args[1]
            res = env.ents[ent].select(**{attr: obj})[:]
            return {'ok': sorted((norm_value(x.get_pk()) for x in res), key=repr)}
        if k == 'live_assign':      # inside a new session: live object's reference := leftover
            ent, pk, attr = args[0], _pkval(args[1]), args[2]
            live = env.ents[ent][pk]
            setattr(live, attr, obj)
            return {'ok': None}
        if k == 'live_add':
            ent, pk, attr = args[0], _pkval(args[1]), args[2]
            live = env.ents[ent][pk]
            getattr(live, attr).add(obj)
            return {'ok': None}
        if k == 'live_create':
            ent, kw = args[0], dict(args[1])
            kw[args[2]] = obj
            env.ents[ent](**kw)
            return {'ok': None}
    except HarnessError:
        raise
    except Exception as e:
        return classify_exc(e)
    raise HarnessError('unknown op %r' % (op,))


# ------------------------------------------------------------------------------------------------
# the oracle
# ------------------------------------------------------------------------------------------------

WRITE_OPS = ('mutate', 'x_assign', 'x_set', 'x_delete', 'assign', 'set', 'c_add', 'c_remove', 'c_clear', 'c_assign', 'c_iadd', 'c_isub', 'delete')
COLL_READ_OPS = ('c_iter', 'c_len', 'c_bool', 'c_count', 'c_empty', 'c_copy', 'c_in')


class Oracle(object):
    """expectations for one finished session: built from the model, the raw database content at the start
    and at the end of the session, and the strict flag"""

    def __init__(self, model, db_start, db_end, strict, aux_start=None, aux_end=None):
        self.x0 = aux_start or {}
        self.x1 = aux_end or {}
        self.m = model
        self.meta = model.meta
        self.s0 = db_start
        self.s1 = db_end
        self.strict = strict
        self.rb = model.rolled_back
        # pk of objects created without a pk value: the one new row of that table (if committed)
        self.actual_pk = {}
        for h, o in model.mem.items():
            if is_symbolic(h[1]):
                new = [pk for pk in db_end[h[0]] if pk not in db_start[h[0]]]
                ncreated = [h2 for h2 in model.mem if h2[0] == h[0] and is_symbolic(h2[1])]
                if len(new) == 1 and len(ncreated) == 1:
                    self.actual_pk[h] = new[0]
                else:
                    self.actual_pk[h] = Ellipsis if new else None

    # -- candidates
    def db_pk(self, h):
        if is_symbolic(h[1]):
            return self.actual_pk.get(h)
        return h[1]

    def end_row(self, h):
        pk = self.db_pk(h)
        if pk is None or pk is Ellipsis:
            return None
        return self.s1[h[0]].get(pk)

    def start_row(self, h):
        if is_symbolic(h[1]):
            return None
        return self.s0[h[0]].get(h[1])

    def tol(self, ent):
        """keys of entity `ent` whose links may differ between memory and database (rolled-back changes)"""
        if not self.rb:
            return set()
        if self.m.touch_all:    # cascades of a rolled-back delete reach objects the script never saw
            return set(self.s0[ent]) | set(self.s1[ent]) | set(h[1] for h in self.m.touched if h[0] == ent)
        return set(h[1] for h in self.m.touched if h[0] == ent)

    def scalar_cands(self, h, a, canon=True):
        o = self.m.mem[h]
        n = a['name']
        c = []
        r1 = self.end_row(h)
        if r1 is not None and n in r1:
            c.append(r1[n])
        r0 = self.start_row(h)
        if self.rb and r0 is not None and n in r0:
            c.append(r0[n])
        for v in o['assigned'].get(n, []):
            c.append(v)
        if a['kind'] in ('ref', 'o2orev') and self.rb:
            c.append(None)
            c.extend(self.tol(a['type']))
            for h2 in self.m.mem:         # created objects without a pk value
                if h2[0] == a['type'] and is_symbolic(h2[1]):
                    c.append(h2[1])
        if a['kind'] == 'o2orev' and r1 is None:
            c.append(None)
        if a['kind'] in ('ref', 'o2orev') and canon:
            c = [self.canon(a['type'], x) if x is not None else None for x in c]
        return c

    def coll_bounds(self, h, a):
        n = a['name']
        r1 = self.end_row(h)
        r0 = self.start_row(h)
        s1 = set(r1[n]) if r1 is not None else set()
        tol = set(self.tol(a['type']))
        if self.rb and r0 is not None:
            tol |= (set(r0[n]) ^ s1)
        if self.rb:
            for h2 in self.m.mem:
                if h2[0] == a['type'] and is_symbolic(h2[1]):
                    tol.add(h2[1])
        if self.db_pk(h) is Ellipsis:
            return None
        sym = [h2[1] for h2 in self.m.mem if h2[0] == a['type'] and is_symbolic(h2[1])]
        if any(self.actual_pk.get((a['type'], x)) is Ellipsis for x in sym):
            # several objects created without a pk value: which row belongs to which object is not known
            tol |= set(sym) | set(pk for pk in self.s1[a['type']] if pk not in self.s0[a['type']])
        if self.m.uncertain_end and any(self.actual_pk.get((a['type'], x)) is None for x in sym):
            return None     # saved, got a pk, then the commit failed: the pk in memory is not in the database
        unsaved = [x for x in tol if is_symbolic(x) and self.canon(a['type'], x) is None]
        if len(unsaved) > 1:
            return None         # several unsaved objects all have the pk None: sizes cannot be compared
        tol = set(self.canon(a['type'], x) for x in tol)
        return s1 - tol, s1 | tol

    # -- what may be raised
    def raise_flags(self, h, need_raise_ok=True):
        o = self.m.mem[h]
        flags = ['DSIO']
        if o['deleted'] or o['deleted_ok'] or self.gone(h):
            flags.append('OWDOE')
        return flags

    def gone(self, h):
        """the row disappeared from the database although the script did not delete it directly"""
        o = self.m.mem[h]
        if o['created']:
            return False
        return self.end_row(h) is None

    def readable(self, h, attrname):
        """'must' / 'may' / 'no' : has reading this attribute to succeed"""
        o = self.m.mem[h]
        a = get_attr(self.meta, h[0], attrname)
        if a['kind'] == 'pk':
            return 'may' if self.strict else 'must'
        if self.strict:
            return 'no'
        if o['deleted'] or o['deleted_ok'] or self.gone(h):
            return 'may'
        if o['created'] and not o['committed_create']:
            return 'may'
        if o['state'].get(attrname) == L:
            return 'must'
        return 'may'

    # -- judging
    def judge(self, op, out):
        """-> None or violation message"""
        k = op[0]
        if k == 'new':
            if out.get('where'):
                return 'leaving a fresh db_session after %r raised %s: %s' % (op[1], out['exc'], out['msg'])
            return self.judge(op[1], out)
        if k in WRITE_OPS:
            f = self.j_write
        elif k in COLL_READ_OPS:
            f = self.j_collread
        else:
            f = getattr(self, 'j_' + k, None)
        if f is None:
            raise HarnessError('no judge for %r' % (op,))
        return f(op, out)

    def _exc_ok(self, out, flags):
        return any(fl in out.get('flags', ()) for fl in flags)

    def _fmt(self, op, out, want):
        got = ('returned %r' % (out['ok'],)) if 'ok' in out else ('raised %s: %s' % (out['exc'], out['msg']))
        return '%s %s; expected %s' % (json.dumps(op, default=repr), got, want)

    def j_write(self, op, out):
        if op[0].startswith('x_'):
            if 'ok' in out:
                return self._fmt(op, out, 'DatabaseSessionIsOver (a change of a leftover object of the second database)')
            if not self._exc_ok(out, ['DSIO']):
                return self._fmt(op, out, 'DSIO')
            return None
        h = hk(op[1])
        flags = self.raise_flags(h)
        if 'ok' in out:
            return self._fmt(op, out, 'DatabaseSessionIsOver (a change of a leftover object)')
        if not self._exc_ok(out, flags):
            return self._fmt(op, out, ' or '.join(flags))
        return None

    def j_x_read(self, op, out):
        o = self.m.aux[op[1]]
        cands = [c[op[1]] for c in (self.x1, self.x0) if op[1] in c] + list(o['assigned'])
        if 'exc' in out:
            if not self.strict and not o['created']:
                return self._fmt(op, out, 'the loaded value (one of %r)' % (cands,))
            if not self._exc_ok(out, ['DSIO']):
                return self._fmt(op, out, 'the value or DSIO')
            return None
        if self.strict:
            return self._fmt(op, out, 'DatabaseSessionIsOver (strict session)')
        if out['ok'] not in cands:
            return self._fmt(op, out, 'one of %r' % (cands,))
        return None

    def j_x_pk(self, op, out):
        if out.get('ok') != op[1]:
            return self._fmt(op, out, 'the primary key %r' % (op[1],))
        return None

    def j_x_load(self, op, out):
        if 'exc' in out and not self._exc_ok(out, ['DSIO']):
            return self._fmt(op, out, 'nothing or DSIO')
        return None
    j_x_flush = j_x_load

    def j_read(self, op, out):
        h = hk(op[1])
        a = get_attr(self.meta, h[0], op[2])
        return self._judge_scalar_read(op, out, h, a)

    def canon(self, ent, pk):
        """symbolic keys (objects created without a pk value) -> the actual pk, None while unsaved"""
        if is_symbolic(pk):
            apk = self.actual_pk.get((ent, pk))
            if apk is Ellipsis:
                return pk
            return apk
        return pk

    def _norm_ref(self, v):
        if isinstance(v, dict) and '$obj' in v:
            h = hk(v['$obj'])
            return self.canon(h[0], h[1])
        if isinstance(v, list):
            return tuple(v)
        return v

    def _judge_scalar_read(self, op, out, h, a):
        mode = self.readable(h, a['name'])
        flags = self.raise_flags(h)
        if 'exc' in out:
            if mode == 'must':
                return self._fmt(op, out, 'the loaded value (one of %r)' % (self.scalar_cands(h, a),))
            if not self._exc_ok(out, flags):
                return self._fmt(op, out, ('the value or ' if mode == 'may' else '') + ' or '.join(flags))
            return None
        if mode == 'no':
            return self._fmt(op, out, 'DatabaseSessionIsOver (strict session)')
        v = out['ok'] if a['type'] in JSON_TYPES else self._norm_ref(out['ok'])
        if a['kind'] == 'pk':
            pk = self.db_pk(h)
            names = pk_attrs(self.meta, h[0])
            if is_symbolic(h[1]):
                if pk is None:
                    ok = v is None or isinstance(v, int)
                elif pk is Ellipsis:
                    ok = True
                else:
                    ok = v == pk
            else:
                want = h[1] if len(names) == 1 else h[1][names.index(a['name'])]
                ok = v == want
            if not ok:
                return self._fmt(op, out, 'the primary key value of %r' % (h,))
            return None
        cands = self.scalar_cands(h, a)
        if self.db_pk(h) is Ellipsis:
            return None
        if a['kind'] in ('ref', 'o2orev') and is_symbolic(v):
            return None     # one of several objects created without a pk value: its row cannot be told apart
        if a['kind'] in ('ref', 'o2orev') and self.m.uncertain_end and any(
                h2[0] == a['type'] and is_symbolic(h2[1]) and self.actual_pk.get(h2) is None for h2 in self.m.mem):
            return None     # the referred new object was saved, got a pk, then the commit failed
        if not any(type(v) is type(c) and v == c for c in cands):
            return self._fmt(op, out, 'one of %r' % (cands,))
        return None

    def j_read2(self, op, out):
        h = hk(op[1])
        a = get_attr(self.meta, h[0], op[2])
        o = self.m.mem[h]
        mode1 = self.readable(h, a['name'])
        cands = [c for c in self.scalar_cands(h, a, canon=False) if c is not None]
        cands = [c for i, c in enumerate(cands) if c not in cands[:i]]
        targets = [(a['type'], c) for c in cands if (a['type'], c) in self.m.mem]
        if 'exc' in out:
            # allowed when either step may raise
            flags = set(self.raise_flags(h))
            may = mode1 != 'must'
            for t in targets:
                if self.readable(t, op[3]) != 'must':
                    may = True
                flags |= set(self.raise_flags(t))
            if len(targets) != 1 or len(cands) != len(targets):
                may = True
            if None in self.scalar_cands(h, a):
                if out['exc'] == 'AttributeError':
                    return None
            if not may:
                return self._fmt(op, out, 'the loaded value of the related object')
            if not self._exc_ok(out, flags):
                return self._fmt(op, out, 'the value or ' + ' or '.join(sorted(flags)))
            return None
        if mode1 == 'no':
            return self._fmt(op, out, 'DatabaseSessionIsOver (strict session)')
        if len(targets) != len(cands):
            return None
        for t in targets:
            a2 = get_attr(self.meta, t[0], op[3])
            if self.readable(t, op[3]) == 'no' and a2['kind'] != 'pk':
                continue
            sub = self._judge_scalar_read(['read', jk(t), op[3]], out, t, a2)
            if sub is None:
                return None
        return self._fmt(op, out, 'a value of %s of one of %r' % (op[3], targets))

    def j_pk(self, op, out):
        h = hk(op[1])
        if 'exc' in out:
            return self._fmt(op, out, 'the primary key')
        pk = self.db_pk(h)
        v = self._norm_ref(out['ok'])
        if is_symbolic(h[1]):
            if pk is Ellipsis:
                return None
            if pk is None:
                ok = v is None or isinstance(v, int)
            else:
                ok = v == pk
        else:
            ok = v == h[1]
        return None if ok else self._fmt(op, out, 'the primary key %r' % (h[1],))

    def j_repr(self, op, out):
        if 'exc' in out:
            return self._fmt(op, out, 'a string')
        return None

    def j_c_str(self, op, out):
        h = hk(op[1])
        if 'exc' in out:
            if not self._exc_ok(out, self.raise_flags(h)):
                return self._fmt(op, out, 'a string or DatabaseSessionIsOver')
            return None
        return None if isinstance(out['ok'], str) else self._fmt(op, out, 'a string')

    def j_collread(self, op, out):
        h = hk(op[1])
        a = get_attr(self.meta, h[0], op[2])
        mode = self.readable(h, a['name'])
        flags = self.raise_flags(h)
        k = op[0]
        if k == 'c_in':
            flags = list(flags) + self.raise_flags(hk(op[3]['$obj']))
            # membership test between leftovers may also be refused as mixing transactions
        if 'exc' in out:
            if mode == 'must':
                return self._fmt(op, out, 'the loaded collection content')
            if not self._exc_ok(out, flags):
                return self._fmt(op, out, ('the correct value or ' if mode == 'may' else '') + ' or '.join(sorted(set(flags))))
            return None
        if mode == 'no':
            return self._fmt(op, out, 'DatabaseSessionIsOver (strict session)')
        b = self.coll_bounds(h, a)
        if b is None:
            return None
        lo, hi = b
        v = out['ok']
        if k in ('c_iter', 'c_copy'):
            got = set(self._norm_ref(x) for x in v['$set'])
            ok = lo <= got <= hi
            want = 'the set %r' % (sorted(hi, key=repr),) if lo == hi else 'a set between %r and %r' % (sorted(lo, key=repr), sorted(hi, key=repr))
        elif k in ('c_len', 'c_count'):
            ok = type(v) is int and len(lo) <= v <= len(hi)
            want = 'a size in %d..%d' % (len(lo), len(hi))
        elif k == 'c_bool':
            ok = (v is True and len(hi) > 0) or (v is False and len(lo) == 0)
            want = 'truth of a collection of size %d..%d' % (len(lo), len(hi))
        elif k == 'c_empty':
            ok = (v is False and len(hi) > 0) or (v is True and len(lo) == 0)
            want = 'emptiness of a collection of size %d..%d' % (len(lo), len(hi))
        elif k == 'c_in':
            item = hk(op[3]['$obj'])
            io = self.m.mem[item]
            if io['deleted'] or io['deleted_ok'] or self.gone(item):
                return None     # membership of a deleted object: the statement does not say
            ipk = self.db_pk(item) if is_symbolic(item[1]) else item[1]
            if is_symbolic(item[1]) and (ipk is None or ipk is Ellipsis):
                return None
            ok = (v is True and ipk in hi) or (v is False and ipk not in lo)
            want = 'membership of %r in a set between %r and %r' % (ipk, sorted(lo, key=repr), sorted(hi, key=repr))
        else:
            raise HarnessError(k)
        return None if ok else self._fmt(op, out, want)

    def j_to_dict(self, op, out):
        h = hk(op[1])
        o = self.m.mem[h]
        opts = op[2]
        names = []
        for a in self.meta[h[0]]:
            if a['sub'] and not self.m.sub_ok(h):
                continue
            if opts.get('only') is not None and a['name'] not in opts['only']:
                continue
            if a['kind'] == 'coll' and not opts.get('with_collections') and opts.get('only') is None:
                continue
            if a['kind'] == 'coll' and opts.get('only') is not None and not opts.get('with_collections'):
                continue
            if a['lazy'] and a['kind'] != 'coll' and not opts.get('with_lazy') and opts.get('only') is None:
                continue
            if a['lazy'] and a['kind'] != 'coll' and opts.get('only') is not None and not opts.get('with_lazy'):
                continue
            names.append(a['name'])
        modes = [self.readable(h, n) for n in names]
        if 'exc' in out:
            if all(m == 'must' for m in modes):
                return self._fmt(op, out, 'a dict of the loaded values')
            if not self._exc_ok(out, self.raise_flags(h)):
                return self._fmt(op, out, 'a dict or ' + ' or '.join(self.raise_flags(h)))
            return None
        if any(m == 'no' for m in modes):
            return self._fmt(op, out, 'DatabaseSessionIsOver (strict session)')
        d = out['ok']
        if sorted(d) != sorted(names):
            if o['cls'] == 'C2' or self.m.diagram['inherit']:
                extra = set(d) ^ set(names)
                if extra <= {'classtype', 'extra2'}:
                    names = [n for n in names if n in d]
                else:
                    return self._fmt(op, out, 'keys %r' % (names,))
            else:
                return self._fmt(op, out, 'keys %r' % (names,))
        for n in names:
            a = get_attr(self.meta, h[0], n)
            v = d[n]
            if a['kind'] == 'coll':
                sub = self.j_collread(['c_iter', op[1], n], {'ok': {'$set': v}})
            else:
                sub = self._judge_scalar_read(['read', op[1], n], {'ok': v}, h, a)
            if sub:
                return self._fmt(op, out, 'correct entry %r (%s)' % (n, sub))
        return None

    def j_oflush(self, op, out):
        h = hk(op[1])
        o = self.m.mem[h]
        # a new object that was deleted again (directly or in cascade) is 'cancelled': nothing left to save
        must = o.get('dirty_sure') and self.rb and not o['deleted_ok'] and not (o['created'] and o['deleted']) \
            and not self.m.uncertain_end
        if 'ok' in out:
            if must:
                return self._fmt(op, out, 'DatabaseSessionIsOver (the object has unsaved changes)')
            return None
        if not self._exc_ok(out, self.raise_flags(h)):
            return self._fmt(op, out, ('' if must else 'nothing or ') + ' or '.join(self.raise_flags(h)))
        return None

    def j_load(self, op, out):
        h = hk(op[1])
        o = self.m.mem[h]
        attrs = op[2]
        plain = not (o['created'] or o['deleted'] or o['deleted_ok'] or self.gone(h))
        if attrs:
            need = any(o['state'].get(n) == U for n in attrs)
        else:
            need = any(st == U and get_attr(self.meta, h[0], n)['kind'] in ('scalar', 'ref')
                       for n, st in o['state'].items())
        must = plain and (need or self.strict)
        if 'ok' in out:
            if must:
                return self._fmt(op, out, 'DatabaseSessionIsOver (there is something to load)')
            return None
        if not self._exc_ok(out, self.raise_flags(h)):
            return self._fmt(op, out, ('' if must else 'nothing or ') + ' or '.join(self.raise_flags(h)))
        return None

    def j_c_load(self, op, out):
        h = hk(op[1])
        o = self.m.mem[h]
        plain = not (o['created'] or o['deleted'] or o['deleted_ok'] or self.gone(h))
        must = plain and (o['state'].get(op[2]) == U or self.strict)
        if 'ok' in out:
            if must:
                return self._fmt(op, out, 'DatabaseSessionIsOver (the collection is not loaded)')
            return None
        if not self._exc_ok(out, self.raise_flags(h)):
            return self._fmt(op, out, ('' if must else 'nothing or ') + ' or '.join(self.raise_flags(h)))
        return None

    # operations that only *use* the leftover object as a value
    def _expected_rows(self, ent, pred):
        return sorted((norm_value(pk) for pk, row in self.s1[ent].items() if pred(pk, row)), key=repr)

    def j_q_param(self, op, out):
        h = hk(op[1])
        how = op[2]
        o = self.m.mem[h]
        pk = self.db_pk(h) if is_symbolic(h[1]) else h[1]
        if 'exc' in out:
            ok_flags = ['TX', 'EVAL_DSIO', 'EVAL_OWDOE', 'DSIO', 'OWDOE']
            if self._exc_ok(out, ok_flags):
                return None
            if is_symbolic(h[1]) and (pk is None or pk is Ellipsis):
                return None        # an object without a primary key cannot be a parameter: any refusal is fine
            return self._fmt(op, out, 'the correct rows or a TransactionError')
        if pk is Ellipsis:
            return None
        if is_symbolic(h[1]) and pk is None and how != 'attr':
            want = [[]]
        elif how == 'obj_eq':
            want = [self._expected_rows(h[0], lambda p, r: p == pk)]
        elif how == 'ref_eq':
            if h[0] == 'P':
                want = [self._expected_rows('C', lambda p, r: r['parent'] == pk)]
            else:
                want = [self._expected_rows('O', lambda p, r: r['owner'] == pk)]
        elif how == 'in_coll':
            if h[0] == 'T':
                want = [self._expected_rows('C', lambda p, r: pk in r['tags'])]
            else:
                want = [self._expected_rows('T', lambda p, r: pk in r['cs'])]
        elif how == 'in_kids':
            want = [self._expected_rows('P', lambda p, r: pk in r['kids'])]
        elif how == 'attr':
            a = get_attr(self.meta, h[0], op[3])
            mode = self.readable(h, a['name'])
            if mode == 'no' and a['kind'] != 'pk':
                return self._fmt(op, out, 'DatabaseSessionIsOver while evaluating o.%s (strict session)' % a['name'])
            want = []
            cands = self.scalar_cands(h, a)
            if a['kind'] == 'pk':
                names = pk_attrs(self.meta, h[0])
                if pk is None:
                    cands = [None]
                else:
                    cands = [pk if len(names) == 1 else pk[names.index(a['name'])]]
            for c in cands:
                if c is None or c == '':
                    want.append([])      # comparison with NULL / '' : nothing asserted beyond a subset
                    want.append(self._expected_rows(h[0], lambda p, r: r[a['name']] in (None, '')))
                want.append(self._expected_rows(h[0], lambda p, r: r[a['name']] == c and type(r[a['name']]) is type(c)))
        else:
            raise HarnessError(how)
        if out['ok'] not in want:
            return self._fmt(op, out, 'rows %r' % (want,))
        return None

    def _only_tx(self, op, out):
        if 'exc' in out:
            if self._exc_ok(out, ['TX', 'DSIO', 'OWDOE']):
                return None
            return self._fmt(op, out, 'a TransactionError (or success)')
        return None

    j_q_kw = j_live_assign = j_live_add = j_live_create = j_c_create = _only_tx

    def j_c_select(self, op, out):
        h = hk(op[1])
        a = get_attr(self.meta, h[0], op[2])
        if 'exc' in out:
            if self._exc_ok(out, ['TX', 'DSIO', 'OWDOE']):
                return None
            pk = self.db_pk(h)
            if is_symbolic(h[1]) and (pk is None or pk is Ellipsis):
                return None
            return self._fmt(op, out, 'the rows or a TransactionError')
        pk = self.db_pk(h) if is_symbolic(h[1]) else h[1]
        if pk is Ellipsis:
            return None
        r1 = self.end_row(h)
        want = sorted((norm_value(x) for x in (r1[a['name']] if r1 is not None else ())), key=repr)
        if out['ok'] != want:
            return self._fmt(op, out, 'rows %r' % (want,))
        return None

    def j_g_commit(self, op, out):
        if 'exc' in out and not self._exc_ok(out, ['TX']):
            return self._fmt(op, out, 'nothing (or a TransactionError)')
        return None
    j_g_flush = j_g_rollback = j_g_commit

    def j_g_select(self, op, out, inside_new=False):
        if 'exc' in out:
            if self._exc_ok(out, ['TX']):
                return None
            return self._fmt(op, out, 'the rows or a TransactionError')
        want = self._expected_rows(op[1], lambda p, r: True)
        if out['ok'] != want:
            return self._fmt(op, out, 'rows %r' % (want,))
        return None


# ------------------------------------------------------------------------------------------------
# one complete case
# ------------------------------------------------------------------------------------------------

def sweep_ops(model):
    """read every attribute of every leftover object (used after the operations)"""
    ops = []
    for h in sorted(model.mem, key=repr):
        o = model.mem[h]
        for a in model.meta[h[0]]:
            if a['sub'] and not model.sub_ok(h):
                continue
            if a['kind'] == 'coll':
                ops.append(['c_iter', jk(h), a['name']])
            else:
                ops.append(['read', jk(h), a['name']])
    for pk in sorted(model.aux):
        ops.append(['x_read', pk])
    return ops


class Prepared(object):
    pass


def prepare(env, case):
    """restore data, run the session, build the oracle.  -> Prepared (or raises Rejected)"""
    restore_data(env)
    model = Model(case['diagram'], case['data'])
    eprep, eend = effective_script(case)
    for act in eprep:
        if not model.apply(act):
            raise HarnessError('script step %r is not valid here' % (act,))
    for act in (case.get('aux') or {}).get('script', []):
        if not model.apply_aux(act):
            raise HarnessError('aux script step %r is not valid here' % (act,))
    model.finish(eend)
    s0 = raw_state(env)
    x0 = aux_state(env)
    objs = {}
    held = {}
    run_session(env, case, objs, held)
    p = Prepared()
    p.env = env
    p.model = model
    p.objs = objs
    p.dump0 = dump_text(env)
    p.oracle = Oracle(model, s0, raw_state(env), case['strict'], x0, aux_state(env))
    _HELD.clear()
    _HELD.update(held)
    for h, o in model.mem.items():
        if o['captured'] and h not in objs:
            raise HarnessError('the model expects %r to be captured by the script, it was not' % (h,))
    p.keys = [h for h in model.mem if model.mem[h]['captured']]
    _REGISTRY.clear()
    for h, o in objs.items():
        _REGISTRY[id(o)] = (h, o)
    return p


def finish_check(p):
    """fresh empty sessions, then the database must still be what it was when the session ended"""
    import pony.orm as orm
    try:
        with orm.db_session:
            pass
        with orm.db_session:
            p.env.db.execute('select 1')
            if p.env.aux_db is not None:
                p.env.aux_db.execute('select 1')
    except Exception as e:
        return 'a fresh empty db_session after the operations raised %s: %s' % (type(e).__name__, e)
    d1 = dump_text(p.env)
    if d1 != p.dump0:
        a, b = p.dump0.split('\n'), d1.split('\n')
        diff = [x for x in a if x not in b][:4], [x for x in b if x not in a][:4]
        return 'the database changed after the session ended: removed %r added %r' % diff
    return None


def cleanup_session_state(env):
    """harness hygiene between cases (never needed on a correct Pony)"""
    from pony.orm.core import local
    import pony.orm as orm
    if local.db2cache or local.db_context_counter:
        try:
            orm.rollback()
        except Exception:
            pass
        local.db2cache.clear()
        local.db_context_counter = 0
        local.db_session = None
