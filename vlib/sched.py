"""B9: deterministic operation-level scheduler for 2-3 concurrent database sessions.

Every actor is a real thread (so that it owns its own pony `local`: db_session options, session caches, pooled
connection), but only ONE thread is ever runnable: the scheduler (the calling thread) hands control to an actor for exactly
one operation and waits until the actor hands it back, either because the operation finished (value or exception) or because
the actor would block on a scheduler-aware lock (`SchedLock`, which replaces the sqlite provider's `transaction_lock` /
`pre_transaction_lock` when several actors share one `Database`).  A *schedule* is a list of small integers, each choosing
among the currently runnable actors; the same list always produces the same interleaving, so a case replays from JSON.
Deadlock (unfinished actors, none runnable) is detected structurally, never by timeout.  The only timeout is a hang guard
(an actor stuck in C code): it raises `SchedulerHang`, which is a harness error and never a verdict.

SQLite is opened with timeout=0, so that a conflict on the database *file* lock (actors that use separate `Database` objects
= separate providers, like separate processes) surfaces immediately as OperationalError('database is locked').

Two world layouts (see `World`):
  'multi'  : one Database object per actor, all bound to the same file  -> contention = 'database is locked' error (fails)
  'shared' : one Database object used by all actor threads              -> contention = blocks on the provider lock (waits)
"""
import os, threading, sqlite3

HANG_TIMEOUT = 600.0


class SchedulerHang(Exception):
    """an actor did not hand control back (harness problem, not a verdict)"""


class ActorKilled(BaseException):
    """raised inside a blocked actor when the case is torn down"""


class SchedLock(object):
    """Stand-in for threading.Lock whose contention is visible to the scheduler (non re-entrant, like Lock)."""

    def __init__(self, sched, name):
        self.sched = sched
        self.name = name
        self.owner = None
        self.acquisitions = 0
        self.contended = 0
        self.bad_release = 0

    def acquire(self, blocking=True, timeout=-1):
        a = self.sched.current()
        if a is None:                      # setup / teardown code outside any actor
            if self.owner is not None:
                raise RuntimeError('lock %s is held by %r but requested outside the scheduler' % (self.name, self.owner))
            self.owner = 'external'
            return True
        first = True
        while self.owner is not None:
            if not blocking:
                return False
            if first:
                self.contended += 1
                first = False
            a.status = 'blocked'
            a.blocked_on = self
            self.sched._yield_from_actor(a)        # returns when the scheduler resumes this actor
        a.status = 'running'
        a.blocked_on = None
        self.owner = a
        self.acquisitions += 1
        return True

    def release(self):
        if self.owner is None:
            self.bad_release += 1
            raise RuntimeError('release unlocked lock')
        self.owner = None

    def locked(self):
        return self.owner is not None

    __enter__ = acquire

    def __exit__(self, *exc):
        self.release()


class Actor(object):
    def __init__(self, sched, idx):
        self.sched = sched
        self.idx = idx
        self.go = threading.Semaphore(0)
        self.status = 'idle'        # idle | running | blocked | dead
        self.blocked_on = None
        self.job = None
        self.result = None
        self.stop = False
        self.thread = threading.Thread(target=self._main, name='actor%d' % idx, daemon=True)

    def __repr__(self):
        return 'actor%d' % self.idx

    def _main(self):
        sched = self.sched
        sched._tls.actor = self
        while True:
            self.go.acquire()
            if self.stop:
                break
            fn = self.job
            self.status = 'running'
            try:
                self.result = ('ok', fn())
            except ActorKilled:
                break
            except BaseException as e:     # noqa: handed to the scheduler as data
                self.result = ('raised', e)
            self.status = 'idle'
            sched._back.release()
        self.status = 'dead'
        try:
            if sched.on_actor_exit is not None:
                sched.on_actor_exit(self.idx)
        finally:
            sched._back.release()


class Scheduler(object):
    def __init__(self, n, on_actor_exit=None):
        self._tls = threading.local()
        self._back = threading.Semaphore(0)
        self.on_actor_exit = on_actor_exit
        self.locks = []
        self.actors = [Actor(self, i) for i in range(n)]
        for a in self.actors:
            a.thread.start()

    # ---- used by actors ------------------------------------------------------------------
    def current(self):
        return getattr(self._tls, 'actor', None)

    def _yield_from_actor(self, a):
        self._back.release()
        a.go.acquire()
        if a.stop:
            raise ActorKilled()

    # ---- used by the scheduler thread ----------------------------------------------------
    def lock(self, name):
        lk = SchedLock(self, name)
        self.locks.append(lk)
        return lk

    def is_blocked(self, i):
        return self.actors[i].status == 'blocked'

    def can_run(self, i):
        """an idle actor can take a new operation; a blocked one can be resumed once its lock is free"""
        a = self.actors[i]
        if a.status == 'idle':
            return True
        if a.status == 'blocked':
            return a.blocked_on.owner is None
        return False

    def step(self, i, fn=None):
        """run `fn` in actor i (idle) or resume it (blocked).  -> ('ok', value) | ('raised', exc) | ('blocked', lockname)"""
        a = self.actors[i]
        if a.status == 'idle':
            assert fn is not None
            a.job = fn
            a.result = None
        elif a.status == 'blocked':
            assert fn is None and a.blocked_on.owner is None
        else:
            raise RuntimeError('actor %d is %s' % (i, a.status))
        a.go.release()
        if not self._back.acquire(timeout=HANG_TIMEOUT):
            raise SchedulerHang('actor %d did not return control' % i)
        if a.status == 'blocked':
            return ('blocked', a.blocked_on.name)
        return a.result

    def close(self):
        for a in self.actors:
            if a.status == 'dead':
                continue
            a.stop = True
            a.go.release()
            if not self._back.acquire(timeout=HANG_TIMEOUT):
                raise SchedulerHang('actor %d did not terminate' % a.idx)
        for a in self.actors:
            a.thread.join(HANG_TIMEOUT)


class Deadlock(Exception):
    def __init__(self, blocked):
        Exception.__init__(self, 'no runnable actor; blocked: %r' % (blocked,))
        self.blocked = blocked


def run_interleaving(sched, n_ops, make_job, schedule, after_step=None, still_wanted=None):
    """Drive the actors through their scripts.

    n_ops[i]            number of operations of actor i
    make_job(i, k)      -> callable executed inside actor i for its k-th operation
    schedule            list of ints; the j-th scheduling decision picks runnable[schedule[j] % len(runnable)]
                        (decisions beyond the list go round-robin over the runnable actors)
    after_step(ev)      called in the scheduler thread after every step; ev = dict(step, actor, op, outcome, value|error|lock)
    still_wanted(i, k)  -> False to skip the remaining operations of actor i (e.g. its session already failed)
    returns the list of events; raises Deadlock if unfinished actors exist but none can run.
    """
    n = len(n_ops)
    pos = [0] * n
    events = []
    j = 0
    while True:
        runnable = []
        unfinished = []
        for i in range(n):
            if sched.is_blocked(i):
                unfinished.append(i)
                if sched.can_run(i):
                    runnable.append(i)
            elif pos[i] < n_ops[i] and (still_wanted is None or still_wanted(i, pos[i])):
                unfinished.append(i)
                runnable.append(i)
        if not runnable:
            if unfinished:
                raise Deadlock([(i, sched.actors[i].blocked_on.name if sched.actors[i].blocked_on else None) for i in unfinished])
            return events
        c = schedule[j] if j < len(schedule) else j
        j += 1
        i = runnable[c % len(runnable)]
        if sched.is_blocked(i):
            k = pos[i] - 1
            res = sched.step(i)
        else:
            k = pos[i]
            pos[i] += 1
            res = sched.step(i, make_job(i, k))
        ev = {'step': len(events), 'actor': i, 'op': k, 'outcome': res[0]}
        if res[0] == 'ok':
            ev['value'] = res[1]
        elif res[0] == 'raised':
            ev['error'] = res[1]
        else:
            ev['lock'] = res[1]
        events.append(ev)
        if after_step is not None:
            after_step(ev)


# ---------------------------------------------------------------------------------------------------------------------
# worlds: Database objects bound to one SQLite file
# ---------------------------------------------------------------------------------------------------------------------

def _pragmas(db, connection):
    # durability is irrelevant here; locking behaviour is unchanged by these
    connection.execute('PRAGMA synchronous = OFF')
    connection.execute('PRAGMA journal_mode = MEMORY').fetchall()


def make_logging_connection(log):
    """sqlite3.Connection subclass whose cursors append (thread name, sql, params) to `log` (statement log, B7)"""

    class LoggingCursor(sqlite3.Cursor):
        def execute(self, sql, *args):
            log.append((threading.current_thread().name, sql, args[0] if args else None))
            return sqlite3.Cursor.execute(self, sql, *args)

        def executemany(self, sql, *args):
            log.append((threading.current_thread().name, sql, list(args[0]) if args else None))
            return sqlite3.Cursor.executemany(self, sql, *args)

    class LoggingConnection(sqlite3.Connection):
        def cursor(self, factory=None):
            return sqlite3.Connection.cursor(self, LoggingCursor)
    return LoggingConnection


class World(object):
    """`n` actors over one SQLite file.

    layout 'multi' : actor i uses dbs[i] (own provider, own entity classes built by define(db))
    layout 'shared': every actor uses dbs[0]; its provider locks are replaced by scheduler-aware locks
    The entity classes of actor i are `self.classes[i]` (dict name -> class).
    """

    def __init__(self, filename, n, layout, define):
        from pony.orm import Database
        self.filename = filename
        self.n = n
        self.layout = layout
        self.dbs = []
        self._classes = []
        self.sql_log = []
        factory = make_logging_connection(self.sql_log)
        ndb = n if layout == 'multi' else 1
        for k in range(ndb):
            db = Database()
            classes = define(db)
            db.on_connect(provider='sqlite')(_pragmas)
            db.bind('sqlite', filename, create_db=True, timeout=0, factory=factory)
            db.generate_mapping(create_tables=(k == 0))
            self.dbs.append(db)
            self._classes.append(classes)
        for db in self.dbs:
            db.disconnect()          # the creating thread keeps no connection (and no file lock)
        self.sched = None
        self.mon = None

    def db(self, i):
        return self.dbs[i if self.layout == 'multi' else 0]

    def classes(self, i):
        return self._classes[i if self.layout == 'multi' else 0]

    # ---- per case ------------------------------------------------------------------------
    def open_case(self, n=None):
        """actor threads (and their pooled connections) persist from case to case as in a long-running program; every case
        gets fresh scheduler locks and starts with no session open anywhere"""
        n = n or self.n
        if self.sched is None or len(self.sched.actors) < n:
            if self.sched is not None:
                self.sched.close()
            self.sched = Scheduler(max(n, self.n), on_actor_exit=self._actor_exit)
        self.sched.locks = []
        if self.layout == 'shared':
            prov = self.dbs[0].provider
            prov.transaction_lock = self.sched.lock('transaction_lock')
            prov.pre_transaction_lock = self.sched.lock('pre_transaction_lock')
        return self.sched

    def _actor_cleanup(self, i):
        """runs inside actor i: drop whatever session it still holds (normally nothing)"""
        from pony.orm import core
        if core.local.db_session is not None or core.local.db2cache or core.local.db_context_counter:
            try:
                core.rollback()
            finally:
                core.local.db_session = None
                core.local.db_context_counter = 0

    def _actor_exit(self, i):
        """runs inside the dying actor thread"""
        try:
            self._actor_cleanup(i)
        except Exception:
            pass
        try:
            self.db(i).disconnect()
        except Exception:
            pass

    def close_case(self):
        sched = self.sched
        if sched is None:
            return
        if any(a.status != 'idle' for a in sched.actors):      # a blocked actor (deadlock): throw the threads away
            self.sched = None
            sched.close()
            return
        for a in sched.actors:
            res = sched.step(a.idx, lambda i=a.idx: self._actor_cleanup(i))
            if res[0] != 'ok':
                self.sched = None
                sched.close()
                return

    def shutdown(self):
        if self.sched is not None:
            sched, self.sched = self.sched, None
            sched.close()

    def monitor(self):
        """plain sqlite3 connection in autocommit mode: sees committed data only"""
        if self.mon is None:
            self.mon = sqlite3.connect(self.filename, timeout=0, isolation_level=None)
            self.mon.execute('PRAGMA synchronous = OFF')
            self.mon.execute('PRAGMA journal_mode = MEMORY').fetchall()
        return self.mon

    def close(self):
        self.close_case()
        self.shutdown()
        if self.mon is not None:
            self.mon.close()
            self.mon = None
        for db in self.dbs:
            try:
                db.disconnect()
            except Exception:
                pass


def exc_name(e):
    return type(e).__name__


def is_lock_error(e):
    """the SQLite file lock refused (timeout=0): the 'fails' half of 'waits or fails'"""
    s = str(e).lower()
    return 'database is locked' in s or 'database table is locked' in s or 'database schema is locked' in s


def raised_inside_pony(e):
    tb = e.__traceback__
    last = None
    while tb is not None:
        last = tb
        tb = tb.tb_next
    fn = last.tb_frame.f_code.co_filename if last is not None else ''
    return '/pony/' in fn.replace('\\', '/')


# ---------------------------------------------------------------------------------------------------------------------
# sessions as actors
# ---------------------------------------------------------------------------------------------------------------------

class ActorState(object):
    """what one actor's session holds (lives in the harness, touched only from the actor's own steps)"""

    def __init__(self, world, idx, spec):
        self.world = world
        self.idx = idx
        self.spec = spec
        self.db = world.db(idx)
        self.classes = world.classes(idx)
        self.objs = {}             # check-specific handle -> pony object
        self.begun = False
        self.ended = False
        self.failed = None         # the exception that ended the session
        self.failed_at = None      # op index (or 'end')
        self.committed = False
        self.data = {}             # check-specific bookkeeping


def run_sessions(world, actors, exec_op, schedule, snapshot=None):
    """Run one case: actors = [{'session': {db_session kwargs}, 'ops': [...], 'end': 'commit'|'rollback'|'raise'}, ...].

    Actor i enters `db_session(**session)` in the step of its first operation, performs `exec_op(state, op)` per step and
    leaves the session in a final step ('end').  An operation that raises ends the session at once the way a `with
    db_session:` block does (`__exit__(exc_type, exc, tb)` => rollback) and the remaining operations are skipped.
    `snapshot()` (scheduler thread) is taken before the first step and after every step: ev['before'] / ev['after'].
    Every event also carries ev['sql'] = statements [(sql, params)] issued by the acting thread during the step.
    Returns (events, states); raises Deadlock.
    """
    from pony.orm import db_session
    n = len(actors)
    states = [ActorState(world, i, actors[i]) for i in range(n)]
    sched = world.sched
    log = world.sql_log
    del log[:]
    last = {'snap': snapshot() if snapshot is not None else None, 'mark': 0}

    def make_job(i, k):
        st = states[i]
        ops = st.spec['ops']

        def job():
            if not st.begun:
                st.session = db_session(**st.spec.get('session', {}))
                st.session.__enter__()
                st.begun = True
            if k < len(ops):
                try:
                    return exec_op(st, ops[k])
                except Exception as e:
                    st.failed, st.failed_at = e, k
                    st.ended = True
                    try:
                        st.session.__exit__(type(e), e, e.__traceback__)
                    except Exception as e2:
                        st.data['exit_error'] = e2
                    raise
            how = st.spec.get('end', 'commit')
            st.ended = True
            try:
                if how == 'commit':
                    st.session.__exit__()
                    st.committed = True
                elif how == 'rollback':
                    from pony.orm import rollback
                    try:
                        rollback()
                    finally:
                        st.session.__exit__()
                else:
                    exc = ValueError('body failed')
                    st.session.__exit__(ValueError, exc, None)
            except Exception as e:
                st.failed, st.failed_at = e, 'end'
                raise
            return how
        return job

    def after_step(ev):
        name = 'actor%d' % ev['actor']
        ev['sql'] = [(sql, params) for (who, sql, params) in log[last['mark']:] if who == name]
        ev['sql_others'] = [(who, sql) for (who, sql, params) in log[last['mark']:] if who != name]
        last['mark'] = len(log)
        if snapshot is not None:
            ev['before'] = last['snap']
            ev['after'] = last['snap'] = snapshot()

    def still_wanted(i, k):
        return not states[i].ended

    events = run_interleaving(sched, [len(a['ops']) + 1 for a in actors], make_job, schedule, after_step, still_wanted)
    return events, states


def new_workdir(tag):
    """scratch directory for a replay (no ctx available): under <home>/.work, removed by the caller"""
    home = os.environ.get('VERIF_HOME') or os.path.dirname(os.path.dirname(os.path.abspath(__file__)))
    d = os.path.join(home, '.work', '%s-%d' % (tag, os.getpid()))
    os.makedirs(d, exist_ok=True)
    return d
