"""B9: deterministic operation-level scheduler for 2-3 concurrent database sessions.

Every actor is a real thread (so that it owns its own pony `local`: db_session options, session caches, pooled
connection), but only ONE thread is ever runnable: the scheduler (the calling thread) hands control to an actor for exactly
one operation and waits until the actor hands it back, either because the operation finished (value or exception) or because
the actor would block on a scheduler-aware lock (`SchedLock`, which replaces the sqlite provider's `transaction_lock` /
`pre_transaction_lock` when several actors share one `Database`).  A *schedule* is a list of small integers, each choosing
among the currently runnable actors; the same list always produces the same interleaving, so a case replays from JSON.
Deadlock (unfinished actors, none runnable) is detected structurally, never by timeout.  The only timeout is a hang guard
(an actor stuck in C code): it raises `SchedulerHang`, which is a harness error and never a verdict.

SQLite is opened with timeout=0, so that a conflict on the database *file* lock (actors that use separate `Database` objects
= separate providers, like separate processes) surfaces immediately as OperationalError('database is locked').

Two world layouts (see `World`):
  'multi'  : one Database object per actor, all bound to the same file  -> contention = 'database is locked' error (fails)
  'shared' : one Database object used by all actor threads              -> contention = blocks on the provider lock (waits)
"""
import os, threading, sqlite3

HANG_TIMEOUT = 600.0


class SchedulerHang(Exception):
    """an actor did not hand control back (harness problem, not a verdict)"""


class ActorKilled(BaseException):
    """raised inside a blocked actor when the case is torn down"""


class SchedLock(object):
    """Stand-in for threading.Lock whose contention is visible to the scheduler (non re-entrant, like Lock)."""

    def __init__(self, sched, name):
        self.sched = sched
        self.name = name
        self.owner = None
        self.acquisitions = 0
        self.contended = 0
        self.bad_release = 0

    def acquire(self, blocking=True, timeout=-1):
        a = self.sched.current()
        if a is None:                      # setup / teardown code outside any actor
            if self.owner is not None:
                raise RuntimeError('lock %s is held by %r but requested outside the scheduler' % (self.name, self.owner))
            self.owner = 'external'
            return True
        first = True
        while self.owner is not None:
            if not blocking:
                return False
            if first:
                self.contended += 1
                first = False
            a.status = 'blocked'
            a.blocked_on = self
            self.sched._yield_from_actor(a)        # returns when the scheduler resumes this actor
        a.status = 'running'
        a.blocked_on = None
        self.owner = a
        self.acquisitions += 1
        return True

    def release(self):
        if self.owner is None:
            self.bad_release += 1
            raise RuntimeError('release unlocked lock')
        self.owner = None

    def locked(self):
        return self.owner is not None

    __enter__ = acquire

    def __exit__(self, *exc):
        self.release()


class Actor(object):
    def __init__(self, sched, idx):
        self.sched = sched
        self.idx = idx
        self.go = threading.Semaphore(0)
        self.status = 'idle'        # idle | running | blocked | dead
        self.blocked_on = None
        self.job = None
        self.result = None
        self.stop = False
        self.thread = threading.Thread(target=self._main, name='actor%d' % idx, daemon=True)

    def __repr__(self):
        return 'actor%d' % self.idx

    def _main(self):
        sched = self.sched
        sched._tls.actor = self
        while True:
            self.go.acquire()
            if self.stop:
                break
            fn = self.job
            self.status = 'running'
            try:
                self.result = ('ok', fn())
            except ActorKilled:
                break
            except BaseException as e:     # noqa: handed to the scheduler as data
                self.result = ('raised', e)
            self.status = 'idle'
            sched._back.release()
        self.status = 'dead'
        try:
            if sched.on_actor_exit is not None:
                sched.on_actor_exit(self.idx)
        finally:
            sched._back.release()


class Scheduler(object):
    def __init__(self, n, on_actor_exit=None):
        self._tls = threading.local()
        self._back = threading.Semaphore(0)
        self.on_actor_exit = on_actor_exit
        self.locks = []
        self.actors = [Actor(self, i) for i in range(n)]
        for a in self.actors:
            a.thread.start()

    # ---- used by actors ------------------------------------------------------------------
    def current(self):
        return getattr(self._tls, 'actor', None)

    def _yield_from_actor(self, a):
        self._back.release()
        a.go.acquire()
        if a.stop:
            raise ActorKilled()

    # ---- used by the scheduler thread ----------------------------------------------------
    def lock(self, name):
        lk = SchedLock(self, name)
        self.locks.append(lk)
        return lk

    def is_blocked(self, i):
        return self.actors[i].status == 'blocked'

    def can_run(self, i):
        """an idle actor can take a new operation; a blocked one can be resumed once its lock is free"""
        a = self.actors[i]
        if a.status == 'idle':
            return True
        if a.status == 'blocked':
            return a.blocked_on.owner is None
        return False

    def step(self, i, fn=None):
        """run `fn` in actor i (idle) or resume it (blocked).  -> ('ok', value) | ('raised', exc) | ('blocked', lockname)"""
        a = self.actors[i]
        if a.status == 'idle':
            assert fn is not None
            a.job = fn
            a.result = None
        elif a.status == 'blocked':
            assert fn is None and a.blocked_on.owner is None
        else:
            raise RuntimeError('actor %d is %s' % (i, a.status))
        a.go.release()
        if not self._back.acquire(timeout=HANG_TIMEOUT):
            raise SchedulerHang('actor %d did not return control' % i)
        if a.status == 'blocked':
            return ('blocked', a.blocked_on.name)
        return a.result

    def close(self):
        for a in self.actors:
            if a.status == 'dead':
                continue
            a.stop = True
            a.go.release()
            if not self._back.acquire(timeout=HANG_TIMEOUT):
                raise SchedulerHang('actor %d did not terminate' % a.idx)
        for a in self.actors:
            a.thread.join(HANG_TIMEOUT)


class Deadlock(Exception):
    def __init__(self, blocked):
        Exception.__init__(self, 'no runnable actor; blocked: %r' % (blocked,))
        self.blocked = blocked


def run_interleaving(sched, n_ops, make_job, schedule, after_step=None, still_wanted=None):
    """Drive the actors through their scripts.

    n_ops[i]            number of operations of actor i
    make_job(i, k)      -> callable executed inside actor i for its k-th operation
    schedule            list of ints; the j-th scheduling decision picks runnable[schedule[j] % len(runnable)]
                        (decisions beyond the list pick the first runnable actor)
    after_step(ev)      called in the scheduler thread after every step; ev = dict(step, actor, op, outcome, value|error|lock)
    still_wanted(i, k)  -> False to skip the remaining operations of actor i (e.g. its session already failed)
    returns the list of events; raises Deadlock if unfinished actors exist but none can run.
    """
    n = len(n_ops)
    pos = [0] * n
    events = []
    j = 0
    while True:
        runnable = []
        unfinished = []
        for i in range(n):
            if sched.is_blocked(i):
                unfinished.append(i)
                if sched.can_run(i):
                    runnable.append(i)
            elif pos[i] < n_ops[i] and (still_wanted is None or still_wanted(i, pos[i])):
                unfinished.append(i)
                runnable.append(i)
        if not runnable:
            if unfinished:
                raise Deadlock([(i, sched.actors[i].blocked_on.name if sched.actors[i].blocked_on else None) for i in unfinished])
            return events
        c = schedule[j] if j < len(schedule) else 0
        j += 1
        i = runnable[c % len(runnable)]
        if sched.is_blocked(i):
            k = pos[i] - 1
            res = sched.step(i)
        else:
            k = pos[i]
            pos[i] += 1
            res = sched.step(i, make_job(i, k))
        ev = {'step': len(events), 'actor': i, 'op': k, 'outcome': res[0]}
        if res[0] == 'ok':
            ev['value'] = res[1]
        elif res[0] == 'raised':
            ev['error'] = res[1]
        else:
            ev['lock'] = res[1]
        events.append(ev)
        if after_step is not None:
            after_step(ev)


# ---------------------------------------------------------------------------------------------------------------------
# worlds: Database objects bound to one SQLite file
# ---------------------------------------------------------------------------------------------------------------------

def _pragmas(db, connection):
    # durability is irrelevant here; locking behaviour is unchanged by these
    connection.execute('PRAGMA synchronous = OFF')


class World(object):
    """`n` actors over one SQLite file.

    layout 'multi' : actor i uses dbs[i] (own provider, own entity classes built by define(db))
    layout 'shared': every actor uses dbs[0]; its provider locks are replaced by scheduler-aware locks
    The entity classes of actor i are `self.classes[i]` (dict name -> class).
    """

    def __init__(self, filename, n, layout, define):
        from pony.orm import Database
        self.filename = filename
        self.n = n
        self.layout = layout
        self.dbs = []
        self._classes = []
        ndb = n if layout == 'multi' else 1
        for k in range(ndb):
            db = Database()
            classes = define(db)
            db.on_connect(provider='sqlite')(_pragmas)
            db.bind('sqlite', filename, create_db=True, timeout=0)
            db.generate_mapping(create_tables=(k == 0))
            self.dbs.append(db)
            self._classes.append(classes)
        for db in self.dbs:
            db.disconnect()          # the creating thread keeps no connection (and no file lock)
        self.sched = None
        self.mon = None

    def db(self, i):
        return self.dbs[i if self.layout == 'multi' else 0]

    def classes(self, i):
        return self._classes[i if self.layout == 'multi' else 0]

    # ---- per case ------------------------------------------------------------------------
    def open_case(self):
        """fresh actor threads (=> fresh pooled connections), fresh scheduler locks"""
        self.sched = Scheduler(self.n, on_actor_exit=self._actor_exit)
        if self.layout == 'shared':
            prov = self.dbs[0].provider
            prov.transaction_lock = self.sched.lock('transaction_lock')
            prov.pre_transaction_lock = self.sched.lock('pre_transaction_lock')
        return self.sched

    def _actor_exit(self, i):
        """runs inside the dying actor thread: drop whatever session/connection it still holds"""
        from pony.orm import core
        try:
            if core.local.db_session is not None or core.local.db2cache:
                try:
                    core.rollback()
                finally:
                    core.local.db_session = None
                    core.local.db_context_counter = 0
        except Exception:
            pass
        try:
            self.db(i).disconnect()
        except Exception:
            pass

    def close_case(self):
        if self.sched is not None:
            self.sched.close()
            self.sched = None

    def monitor(self):
        """plain sqlite3 connection in autocommit mode: sees committed data only"""
        if self.mon is None:
            self.mon = sqlite3.connect(self.filename, timeout=0, isolation_level=None)
        return self.mon

    def close(self):
        self.close_case()
        if self.mon is not None:
            self.mon.close()
            self.mon = None
        for db in self.dbs:
            try:
                db.disconnect()
            except Exception:
                pass


def exc_name(e):
    return type(e).__name__


def is_lock_error(e):
    """the SQLite file lock refused (timeout=0): the 'fails' half of 'waits or fails'"""
    s = str(e).lower()
    return 'database is locked' in s or 'database table is locked' in s or 'database schema is locked' in s


def raised_inside_pony(e):
    tb = e.__traceback__
    last = None
    while tb is not None:
        last = tb
        tb = tb.tb_next
    fn = last.tb_frame.f_code.co_filename if last is not None else ''
    return '/pony/' in fn.replace('\\', '/')
