"""C31 helpers: models as pure data, a plain-Python mirror of the objects/links, the Pony materialisation,
and the generators.  Nothing in the Mirror imports Pony.

spec  = {'ents': [{'pk': kind, 'pkref': j|None, 'attrs': [[name, type, required, lazy], ...]}, ...],
         'rels': [{'kind': 'o2m'|'o2o'|'m2m', 'a': i, 'b': j, 'req': bool}, ...]}
pk kinds: int (id) | str (k) | int_str (a, s) | str_str (s, t) | ref (p -> E<pkref>, one-to-one) |
          ref_int (p -> E<pkref>, n) | ref_str (p -> E<pkref>, t)
relation k:  o2m: E<a>.r<k> = Optional/Required(E<b>)   E<b>.c<k> = Set(E<a>)
             o2o: E<a>.r<k> = Optional/Required(E<b>)   E<b>.q<k> = Optional(E<a>)
             m2m: E<a>.c<k> = Set(E<b>)                 E<b>.d<k> = Set(E<a>)
pk reference of entity i: E<i>.p -> E<j>;  reverse E<j>.pq<i> = Optional(E<i>) (kind ref) or E<j>.pc<i> = Set(E<i>)
object id (oid) = (entity index, ordinal)
"""
import sys, json, copy, datetime, decimal

MODNAME = __name__

PK_PARTS = {
    'int': [('id', 'int')], 'str': [('k', 'str')],
    'int_str': [('a', 'int'), ('s', 'str')], 'str_str': [('s', 'str'), ('t', 'str')],
    'ref': [('p', 'ref')], 'ref_int': [('p', 'ref'), ('n', 'int')], 'ref_str': [('p', 'ref'), ('t', 'str')],
}
SCALAR_TYPES = ['int', 'str', 'float', 'bool', 'date', 'datetime', 'decimal']


# ------------------------------------------------------------------------------------------------
# JSON <-> python values (cases are stored as JSON)

def to_j(typ, v):
    if v is None: return None
    if typ == 'date': return v.isoformat()
    if typ == 'datetime': return v.isoformat()
    if typ == 'decimal': return str(v)
    return v


def from_j(typ, j):
    if j is None: return None
    if typ == 'date': return datetime.date.fromisoformat(j)
    if typ == 'datetime': return datetime.datetime.fromisoformat(j)
    if typ == 'decimal': return decimal.Decimal(j)
    if typ == 'float': return float(j)
    return j


def jsonable(v):
    """python value -> plain JSON value used in messages / sub-process transport"""
    if isinstance(v, (datetime.datetime, datetime.date)): return v.isoformat()
    if isinstance(v, decimal.Decimal): return 'D' + str(v)
    if isinstance(v, (tuple, list)): return [jsonable(x) for x in v]
    if isinstance(v, (set, frozenset)): return sorted((jsonable(x) for x in v), key=repr)
    if isinstance(v, dict): return {str(k): jsonable(x) for k, x in v.items()}
    return v


def same_value(a, b):
    """equality that does not confuse 1 / True / 1.0 / Decimal(1) and tuples / lists"""
    if type(a) is not type(b): return False
    if isinstance(a, (tuple, list)):
        return len(a) == len(b) and all(same_value(x, y) for x, y in zip(a, b))
    if isinstance(a, dict):
        return set(a) == set(b) and all(same_value(a[k], b[k]) for k in a)
    if isinstance(a, decimal.Decimal):
        return a == b and str(a) == str(b)
    return a == b


# ------------------------------------------------------------------------------------------------
# attribute metadata derived from the spec

def meta(spec):
    ents = spec['ents']
    out = [[] for _ in ents]
    for i, e in enumerate(ents):
        for (name, typ) in PK_PARTS[e['pk']]:
            if typ == 'ref':
                single = e['pk'] == 'ref'
                out[i].append(dict(name=name, kind='one', store='holder', target=e['pkref'], req=True, pk=True, lazy=False,
                                   rev=('pq%d' if single else 'pc%d') % i, relkind='pko2o' if single else 'pko2m'))
            else:
                out[i].append(dict(name=name, kind='scalar', type=typ, req=True, pk=True, lazy=False))
        for (name, typ, req, lazy) in e['attrs']:
            out[i].append(dict(name=name, kind='scalar', type=typ, req=bool(req), pk=False, lazy=bool(lazy)))
    for i, e in enumerate(ents):
        if e['pk'] == 'ref':
            out[e['pkref']].append(dict(name='pq%d' % i, kind='one', store='rev_one', target=i, rev='p', req=False,
                                        pk=False, lazy=False, relkind='pko2o'))
        elif e['pk'] in ('ref_int', 'ref_str'):
            out[e['pkref']].append(dict(name='pc%d' % i, kind='many', store='rev_many', target=i, rev='p', req=False,
                                        pk=False, lazy=False, relkind='pko2m'))
    for k, r in enumerate(spec['rels']):
        a, b, kind = r['a'], r['b'], r['kind']
        if kind == 'o2m':
            out[a].append(dict(name='r%d' % k, kind='one', store='holder', target=b, rev='c%d' % k, req=bool(r['req']),
                               pk=False, lazy=False, relkind='o2m', k=k))
            out[b].append(dict(name='c%d' % k, kind='many', store='rev_many', target=a, rev='r%d' % k, req=False,
                               pk=False, lazy=False, relkind='o2m', k=k))
        elif kind == 'o2o':
            out[a].append(dict(name='r%d' % k, kind='one', store='holder', target=b, rev='q%d' % k, req=bool(r['req']),
                               pk=False, lazy=False, relkind='o2o', k=k))
            out[b].append(dict(name='q%d' % k, kind='one', store='rev_one', target=a, rev='r%d' % k, req=False,
                               pk=False, lazy=False, relkind='o2o', k=k))
        elif kind == 'm2m':
            out[a].append(dict(name='c%d' % k, kind='many', store='m2m_a', target=b, rev='d%d' % k, req=False,
                               pk=False, lazy=False, relkind='m2m', k=k))
            out[b].append(dict(name='d%d' % k, kind='many', store='m2m_b', target=a, rev='c%d' % k, req=False,
                               pk=False, lazy=False, relkind='m2m', k=k))
        else:
            raise ValueError(kind)
    return out


# ------------------------------------------------------------------------------------------------
# the mirror: plain dicts / sets, no Pony

class Mirror(object):
    def __init__(self, spec):
        self.spec = spec
        self.meta = meta(spec)
        self.ad = [dict((d['name'], d) for d in m) for m in self.meta]
        self.objs = {}      # oid -> {'vals': {name: value}, 'refs': {holder attr name: oid | None}}
        self.pairs = dict((k, set()) for k, r in enumerate(spec['rels']) if r['kind'] == 'm2m')
        self.dead = set()
        self.dead_objs = {}  # oid -> last state of deleted objects (their keys stay reserved)
        self.fresh = set()   # objects created in the current session (not flushed yet)

    def copy(self):
        m = Mirror.__new__(Mirror)
        m.spec, m.meta, m.ad = self.spec, self.meta, self.ad
        m.objs = dict((oid, {'vals': dict(o['vals']), 'refs': dict(o['refs'])}) for oid, o in self.objs.items())
        m.pairs = dict((k, set(v)) for k, v in self.pairs.items())
        m.dead = set(self.dead)
        m.dead_objs = dict(self.dead_objs)
        m.fresh = set(self.fresh)
        return m

    def alive(self, ei=None):
        return sorted(oid for oid in self.objs if ei is None or oid[0] == ei)

    def pk_names(self, ei):
        return [n for n, t in PK_PARTS[self.spec['ents'][ei]['pk']]]

    def rawpk(self, oid):
        out = []
        o = self.objs[oid]
        for (name, typ) in PK_PARTS[self.spec['ents'][oid[0]]['pk']]:
            if typ == 'ref': out.extend(self.rawpk(o['refs'][name]))
            else: out.append(o['vals'][name])
        return tuple(out)

    def rawpk_value(self, oid):
        """the value Pony documents for a key: scalar for one column, tuple otherwise"""
        pk = self.rawpk(oid)
        return pk[0] if len(pk) == 1 else pk

    def get(self, oid, name):
        """scalar value | oid or None | frozenset of oids"""
        d = self.ad[oid[0]][name]
        o = self.objs[oid]
        if d['kind'] == 'scalar': return o['vals'][name]
        store = d['store']
        if store == 'holder': return o['refs'][name]
        if store == 'rev_one':
            for x in self.alive(d['target']):
                if self.objs[x]['refs'].get(d['rev']) == oid: return x
            return None
        if store == 'rev_many':
            return frozenset(x for x in self.alive(d['target']) if self.objs[x]['refs'].get(d['rev']) == oid)
        if store == 'm2m_a':
            return frozenset(b for (a, b) in self.pairs[d['k']] if a == oid)
        if store == 'm2m_b':
            return frozenset(a for (a, b) in self.pairs[d['k']] if b == oid)
        raise ValueError(store)

    def neighbours(self, oid, names):
        out = set()
        for n in names:
            d = self.ad[oid[0]][n]
            if d['kind'] == 'one':
                t = self.get(oid, n)
                if t is not None: out.add(t)
            elif d['kind'] == 'many':
                out.update(self.get(oid, n))
        return out

    # ---- population ---------------------------------------------------------------------------
    def add_object(self, oid, pkparts, vals, refs):
        """pkparts follow PK_PARTS order (ref part = ordinal of the target in entity pkref);
        vals/refs are python values / oids"""
        ei = oid[0]
        e = self.spec['ents'][ei]
        o = {'vals': {}, 'refs': {}}
        for (name, typ), part in zip(PK_PARTS[e['pk']], pkparts):
            if typ == 'ref': o['refs'][name] = (e['pkref'], part)
            else: o['vals'][name] = part
        for d in self.meta[ei]:
            if d['pk']: continue
            if d['kind'] == 'scalar': o['vals'][d['name']] = vals.get(d['name'], '' if d['type'] == 'str' else None)
            elif d['store'] == 'holder': o['refs'][d['name']] = refs.get(d['name'])
        self.objs[oid] = o

    def pk_taken(self, ei, pkparts):
        # dead objects keep their key reserved: Pony's identity map still holds an object deleted in the session
        e = self.spec['ents'][ei]
        for oid in self.alive(ei) + sorted(x for x in self.dead_objs if x[0] == ei):
            o = self.objs.get(oid) or self.dead_objs[oid]
            same = True
            for (name, typ), part in zip(PK_PARTS[e['pk']], pkparts):
                cur = o['refs'][name][1] if typ == 'ref' else o['vals'][name]
                if cur != part: same = False; break
            if same: return True
        return False

    # ---- operations (return False when the precondition does not hold: the op is then skipped) ----
    def incoming_required(self, oid):
        for x in self.alive():
            for d in self.meta[x[0]]:
                if d['kind'] == 'one' and d['store'] == 'holder' and d['req'] and self.objs[x]['refs'].get(d['name']) == oid:
                    return True
        return False

    def check(self, op):
        kind = op[0]
        if kind == 'create':
            _, ei, oi, pkparts, vals, refs = op
            if (ei, oi) in self.objs or (ei, oi) in self.dead: return False
            e = self.spec['ents'][ei]
            for (name, typ), part in zip(PK_PARTS[e['pk']], pkparts):
                if typ == 'ref' and (e['pkref'], part) not in self.objs: return False
            if self.pk_taken(ei, pkparts): return False
            for d in self.meta[ei]:
                if d['kind'] == 'one' and d['store'] == 'holder' and not d['pk']:
                    t = refs.get(d['name'])
                    t = tuple(t) if t is not None else None
                    if t is None and d['req']: return False
                    if t is not None:
                        if t not in self.objs or t[0] != d['target']: return False
                        if d['relkind'] == 'o2o' and self.get(t, d['rev']) is not None: return False
            return True
        oid = tuple(op[1])
        if oid not in self.objs: return False
        if kind == 'delete':
            return not self.incoming_required(oid)
        d = self.ad[oid[0]].get(op[2])
        if d is None or d['pk']: return False
        if kind == 'set':
            return d['kind'] == 'scalar'
        if kind == 'ref':
            if not (d['kind'] == 'one' and d['store'] == 'holder' and d['relkind'] == 'o2m'): return False
            t = op[3]
            if t is None: return not d['req']
            # no new edge INTO an object created in this session: keeps the graph of pending inserts acyclic
            # (Pony may legitimately refuse to save a cyclic chain)
            return tuple(t) in self.objs and t[0] == d['target'] and tuple(t) not in self.fresh
        if kind == 'link':
            if not (d['kind'] == 'one' and d['store'] == 'holder' and d['relkind'] == 'o2o'): return False
            t = tuple(op[3])
            return (t in self.objs and t[0] == d['target'] and self.objs[oid]['refs'][d['name']] is None
                    and self.get(t, d['rev']) is None and t not in self.fresh)
        if kind == 'unlink':
            return (d['kind'] == 'one' and d['store'] == 'holder' and d['relkind'] == 'o2o' and not d['req']
                    and self.objs[oid]['refs'][d['name']] is not None)
        if kind in ('add', 'remove'):
            if d['kind'] != 'many' or d['relkind'] not in ('o2m', 'm2m'): return False
            t = tuple(op[3])
            if t not in self.objs or t[0] != d['target']: return False
            cur = self.get(oid, d['name'])
            if kind == 'add': return t not in cur and not (d['relkind'] == 'o2m' and oid in self.fresh)
            if t not in cur: return False
            if d['relkind'] == 'o2m': return not self.ad[t[0]][d['rev']]['req']
            return True
        return False

    def apply(self, op):
        if not self.check(op): return False
        kind = op[0]
        if kind == 'create':
            _, ei, oi, pkparts, vals, refs = op
            pk_py = []
            e = self.spec['ents'][ei]
            for (name, typ), part in zip(PK_PARTS[e['pk']], pkparts):
                pk_py.append(part)
            vals_py = dict((n, from_j(self.ad[ei][n]['type'], v)) for n, v in vals.items())
            refs_py = dict((n, tuple(t) if t is not None else None) for n, t in refs.items())
            self.add_object((ei, oi), pk_py, vals_py, refs_py)
            self.fresh.add((ei, oi))
            return True
        oid = tuple(op[1])
        if kind == 'delete':
            for x in self.alive():
                for d in self.meta[x[0]]:
                    if d['kind'] == 'one' and d['store'] == 'holder' and self.objs[x]['refs'].get(d['name']) == oid:
                        self.objs[x]['refs'][d['name']] = None
            for k in self.pairs:
                self.pairs[k] = set(p for p in self.pairs[k] if oid not in p)
            self.dead_objs[oid] = self.objs.pop(oid)
            self.dead.add(oid)
            return True
        d = self.ad[oid[0]][op[2]]
        if kind == 'set':
            self.objs[oid]['vals'][d['name']] = from_j(d['type'], op[3])
        elif kind in ('ref', 'link'):
            self.objs[oid]['refs'][d['name']] = tuple(op[3]) if op[3] is not None else None
        elif kind == 'unlink':
            self.objs[oid]['refs'][d['name']] = None
        elif kind in ('add', 'remove'):
            t = tuple(op[3])
            if d['relkind'] == 'o2m':
                self.objs[t]['refs'][d['rev']] = oid if kind == 'add' else None
            else:
                pair = (oid, t) if d['store'] == 'm2m_a' else (t, oid)
                if kind == 'add': self.pairs[d['k']].add(pair)
                else: self.pairs[d['k']].discard(pair)
        return True

    def touched_by(self, op):
        """oids whose own row (scalars / to-one columns) an op changes, and (oid, collection attr) pairs whose
        membership it changes"""
        rows, colls = set(), set()
        kind = op[0]
        if kind in ('create', 'delete'):
            return rows, colls
        oid = tuple(op[1])
        d = self.ad[oid[0]][op[2]]
        if kind == 'set': rows.add(oid)
        elif kind in ('ref', 'link', 'unlink'):
            rows.add(oid)
            old = self.objs[oid]['refs'][d['name']]
            new = tuple(op[3]) if kind != 'unlink' and op[3] is not None else None
            for t in (old, new):
                if t is not None:
                    colls.add((t, d['rev'])); rows.add(t)
        elif kind in ('add', 'remove'):
            t = tuple(op[3])
            colls.add((oid, d['name'])); colls.add((t, d['rev']))
            if d['relkind'] == 'o2m':
                rows.add(t)
                old = self.objs[t]['refs'][d['rev']]
                if old is not None: colls.add((old, d['name']))
        return rows, colls


def mirror_from_case(case):
    m = Mirror(case['spec'])
    for ei, objs in enumerate(case['objs']):
        for oi, o in enumerate(objs):
            vals = dict((n, from_j(m.ad[ei][n]['type'], v)) for n, v in o['vals'].items())
            refs = dict((n, tuple(t) if t is not None else None) for n, t in o['refs'].items())
            m.add_object((ei, oi), list(o['pk']), vals, refs)
    for k, pairs in case.get('m2m', {}).items():
        r = case['spec']['rels'][int(k)]
        for (ai, bi) in pairs:
            m.pairs[int(k)].add(((r['a'], ai), (r['b'], bi)))
    return m


# ------------------------------------------------------------------------------------------------
# Pony materialisation

def _py_type(typ):
    return {'int': int, 'str': str, 'float': float, 'bool': bool, 'date': datetime.date,
            'datetime': datetime.datetime, 'decimal': decimal.Decimal}[typ]


def build(spec, filename=':memory:', create_tables=True):
    """returns (db, [entity classes]); the classes are also registered as globals of this module so that
    pickle can find them by reference (module name + class name)"""
    from pony.orm import Database, Required, Optional, Set, PrimaryKey, perm
    from pony.orm.core import Index
    db = Database()
    m = meta(spec)
    classes = []
    for i, e in enumerate(spec['ents']):
        attrs = {}
        pk_names = [n for n, t in PK_PARTS[e['pk']]]
        single_pk = len(pk_names) == 1
        for d in m[i]:
            name = d['name']
            if d['kind'] == 'scalar':
                args = [_py_type(d['type'])]
                kw = {}
                if d['type'] == 'decimal': args += [10, 2]
                if d['lazy']: kw['lazy'] = True
                if d['pk'] and single_pk: attrs[name] = PrimaryKey(*args)
                elif d['req']: attrs[name] = Required(*args, **kw)
                else: attrs[name] = Optional(*args, **kw)
            elif d['kind'] == 'one':
                tname = 'E%d' % d['target']
                if d['pk'] and single_pk: attrs[name] = PrimaryKey(tname, reverse=d['rev'])
                elif d['req']: attrs[name] = Required(tname, reverse=d['rev'])
                else: attrs[name] = Optional(tname, reverse=d['rev'])
            else:
                attrs[name] = Set('E%d' % d['target'], reverse=d['rev'])
        if not single_pk:
            attrs['_indexes_'] = [Index(*[attrs[n] for n in pk_names], is_pk=True)]
        attrs['__module__'] = MODNAME
        attrs['__qualname__'] = 'E%d' % i
        cls = type('E%d' % i, (db.Entity,), attrs)
        classes.append(cls)
        setattr(sys.modules[MODNAME], 'E%d' % i, cls)
    with db.set_perms_for(*classes):
        perm('view', group='anybody')
    if filename == ':memory:': db.bind('sqlite', ':memory:')
    else: db.bind('sqlite', filename, create_db=True)
    db.generate_mapping(create_tables=create_tables)
    return db, classes


class Env(object):
    """a Pony database for one case plus lookups driven by the mirror"""
    def __init__(self, spec, filename=':memory:', create_tables=True):
        self.spec = spec
        self.db, self.E = build(spec, filename, create_tables)
        self.meta = meta(spec)

    def pkval(self, M, oid):
        e = self.spec['ents'][oid[0]]
        o = M.objs[oid]
        parts = []
        for (name, typ) in PK_PARTS[e['pk']]:
            if typ == 'ref': parts.append(self.obj(M, o['refs'][name]))
            else: parts.append(o['vals'][name])
        return parts[0] if len(parts) == 1 else tuple(parts)

    def obj(self, M, oid):
        return self.E[oid[0]][self.pkval(M, oid)]

    def create(self, M, oid, with_optional_refs=False):
        """create the Pony object for mirror object oid (pk, scalars, required refs; optional refs on demand)"""
        ei = oid[0]
        o = M.objs[oid]
        kw = {}
        for d in self.meta[ei]:
            n = d['name']
            if d['kind'] == 'scalar':
                kw[n] = o['vals'][n]
            elif d['kind'] == 'one' and d['store'] == 'holder':
                t = o['refs'][n]
                if t is not None and (d['req'] or with_optional_refs): kw[n] = self.obj(M, t)
        return self.E[ei](**kw)

    def populate(self, M):
        from pony.orm import flush
        for oid in M.alive():
            self.create(M, oid)
        flush()      # optional links are set on stored objects: no cyclic chain of pending inserts
        for oid in M.alive():
            for d in self.meta[oid[0]]:
                if d['kind'] == 'one' and d['store'] == 'holder' and not d['req']:
                    t = M.objs[oid]['refs'][d['name']]
                    if t is not None: setattr(self.obj(M, oid), d['name'], self.obj(M, t))
        for k, pairs in M.pairs.items():
            for (a, b) in sorted(pairs):
                getattr(self.obj(M, a), 'c%d' % k).add(self.obj(M, b))

    def apply(self, M_before, M_after, op):
        """apply op to Pony.  M_before: mirror before the op, M_after: after it"""
        kind = op[0]
        if kind == 'create':
            self.create(M_after, (op[1], op[2]), with_optional_refs=True)
            return
        oid = tuple(op[1])
        obj = self.obj(M_before, oid)
        if kind == 'delete': obj.delete()
        elif kind == 'set': setattr(obj, op[2], M_after.objs[oid]['vals'][op[2]])
        elif kind in ('ref', 'link'):
            setattr(obj, op[2], self.obj(M_before, tuple(op[3])) if op[3] is not None else None)
        elif kind == 'unlink': setattr(obj, op[2], None)
        elif kind == 'add': getattr(obj, op[2]).add(self.obj(M_before, tuple(op[3])))
        elif kind == 'remove': getattr(obj, op[2]).remove(self.obj(M_before, tuple(op[3])))
        else: raise ValueError(kind)

    def close(self):
        try: self.db.disconnect()
        except Exception: pass


# ------------------------------------------------------------------------------------------------
# generators (hypothesis); everything they produce is plain JSON

KEY_ALPHABET = [',', '*', ',', '*', 'a', '1', '-', u'\xe9']
VAL_ALPHABET = list(u'ab ,*"\'\\Z9{}[]:%\xe9\u4e2d')


def _strategies():
    from hypothesis import strategies as st
    return st


def key_text(st, maxlen, pool=None):
    fresh = st.text(st.sampled_from(KEY_ALPHABET), min_size=1, max_size=maxlen)
    if pool: return st.one_of(st.sampled_from(pool), st.sampled_from(pool), fresh)
    return fresh


def scalar_value(st, typ, req, key=False, maxlen=4):
    """strategy of python values"""
    if typ == 'str':
        if key: return key_text(st, maxlen)
        s = st.text(st.sampled_from(VAL_ALPHABET), max_size=6).map(lambda x: x.strip())
        if req: s = s.map(lambda x: x or 'x')
        return s
    if typ == 'int':
        base = st.one_of(st.sampled_from([0, 1, -1, 11, 2, 12]), st.integers(-2**31, 2**31 - 1))
    elif typ == 'float':
        base = st.floats(allow_nan=False, allow_infinity=False, width=64).map(lambda x: x + 0.0)
    elif typ == 'bool':
        base = st.booleans()
    elif typ == 'date':
        base = st.dates(datetime.date(1970, 1, 1), datetime.date(2100, 12, 31))
    elif typ == 'datetime':
        base = st.datetimes(datetime.datetime(1970, 1, 1), datetime.datetime(2100, 12, 31))
    elif typ == 'decimal':
        base = st.integers(-10**8 + 1, 10**8 - 1).map(lambda n: decimal.Decimal(n).scaleb(-2))
    else:
        raise ValueError(typ)
    if key or req: return base
    return st.one_of(st.none(), base)


def draw_spec(draw, st, max_ents):
    # (hypothesis favours the first elements of sampled_from and small integers: the interesting choices come first)
    n = max_ents + 1 - draw(st.sampled_from([1, 1, 2, 2, 3, 4][:max_ents + 2 if max_ents < 4 else 6]))
    n = max(1, min(max_ents, n))
    ents = []
    for i in range(n):
        kinds = ['int_str', 'str_str', 'int_str', 'str_str', 'int', 'str']
        if i > 0: kinds = ['ref', 'int_str', 'ref_int', 'str_str', 'ref', 'ref_str', 'int', 'str']
        pk = draw(st.sampled_from(kinds))
        pkref = draw(st.integers(0, i - 1)) if pk.startswith('ref') else None
        attrs = []
        for j in range(draw(st.integers(0, 3))):
            typ = draw(st.sampled_from(SCALAR_TYPES))
            attrs.append(['v%d' % j, typ, draw(st.booleans()), draw(st.sampled_from([False, False, True]))])
        ents.append({'pk': pk, 'pkref': pkref, 'attrs': attrs})
    rels = []
    for k in range(draw(st.integers(0, 3))):
        kind = draw(st.sampled_from(['o2m', 'o2m', 'm2m', 'm2m', 'o2o']))
        a = draw(st.integers(0, n - 1))
        b = draw(st.integers(0, n - 1))
        req = draw(st.sampled_from([False, False, True]))
        if kind == 'o2o' and a == b:
            if n == 1: kind = 'o2m'
            else: b = (a + 1) % n
        if req and not b < a: req = False
        if kind == 'm2m': req = False
        rels.append({'kind': kind, 'a': a, 'b': b, 'req': req})
    return {'ents': ents, 'rels': rels}


def _draw_pk(draw, st, M, ei, keylen, pool=None):
    e = M.spec['ents'][ei]
    parts = []
    for (name, typ) in PK_PARTS[e['pk']]:
        if typ == 'ref':
            targets = M.alive(e['pkref'])
            if e['pk'] == 'ref':     # one-to-one key: only targets that are still free
                targets = [t for t in targets if not M.pk_taken(ei, [t[1]])]
            if not targets: return None
            parts.append(targets[draw(st.integers(0, len(targets) - 1))][1])
        elif typ == 'int':
            parts.append(draw(st.sampled_from([0, 0, 1, 1, 11, -1, 12])))
        else:
            parts.append(draw(key_text(st, keylen, pool)))
    if M.pk_taken(ei, parts): return None
    return parts


def _draw_new_object(draw, st, M, ei, keylen, optional_refs, pool=None):
    """returns (pkparts, vals_json, refs_json) or None"""
    pkparts = _draw_pk(draw, st, M, ei, keylen, pool)
    if pkparts is None: return None
    vals, refs = {}, {}
    for d in M.meta[ei]:
        if d['pk']: continue
        if d['kind'] == 'scalar':
            vals[d['name']] = to_j(d['type'], draw(scalar_value(st, d['type'], d['req'])))
        elif d['kind'] == 'one' and d['store'] == 'holder':
            cands = M.alive(d['target'])
            if d['relkind'] == 'o2o':
                cands = [t for t in cands if M.get(t, d['rev']) is None]
            if d['req']:
                if not cands: return None
                refs[d['name']] = list(cands[draw(st.integers(0, len(cands) - 1))])
            elif optional_refs and cands and draw(st.booleans()):
                refs[d['name']] = list(cands[draw(st.integers(0, len(cands) - 1))])
            else:
                refs[d['name']] = None
    return pkparts, vals, refs


def draw_op(draw, st, M, kinds, keylen, pool=None, prefer=()):
    kind = draw(st.sampled_from(kinds))
    alive = M.alive()

    def pick(cands):
        if prefer and cands and isinstance(cands[0], tuple) and isinstance(cands[0][0], tuple):
            pref = [c for c in cands if c[0] in prefer]      # (oid, attribute) candidates on preferred objects
            if pref and draw(st.booleans()): cands = pref
        return cands[draw(st.integers(0, len(cands) - 1))]
    if kind == 'create':
        ei = draw(st.integers(0, len(M.spec['ents']) - 1))
        new = _draw_new_object(draw, st, M, ei, keylen, True, pool)
        if new is None: return None
        oi = 1 + max([o[1] for o in list(M.objs) + list(M.dead) if o[0] == ei] + [-1])
        return ['create', ei, oi, new[0], new[1], new[2]]
    if not alive: return None
    if kind == 'delete':
        return ['delete', list(pick(alive))]
    if kind == 'set':
        cands = [(oid, d) for oid in alive for d in M.meta[oid[0]] if d['kind'] == 'scalar' and not d['pk']]
        if not cands: return None
        oid, d = pick(cands)
        return ['set', list(oid), d['name'], to_j(d['type'], draw(scalar_value(st, d['type'], d['req'])))]
    if kind in ('ref', 'link', 'unlink'):
        rk = 'o2m' if kind == 'ref' else 'o2o'
        cands = [(oid, d) for oid in alive for d in M.meta[oid[0]]
                 if d['kind'] == 'one' and d['store'] == 'holder' and not d['pk'] and d['relkind'] == rk]
        if not cands: return None
        oid, d = pick(cands)
        if kind == 'unlink': return ['unlink', list(oid), d['name']]
        targets = M.alive(d['target'])
        if kind == 'ref' and not d['req'] and draw(st.sampled_from([False, False, True])):
            return ['ref', list(oid), d['name'], None]
        if not targets: return None
        return [kind, list(oid), d['name'], list(pick(targets))]
    if kind in ('add', 'remove'):
        cands = [(oid, d) for oid in alive for d in M.meta[oid[0]]
                 if d['kind'] == 'many' and d['relkind'] in ('o2m', 'm2m')]
        if not cands: return None
        oid, d = pick(cands)
        if kind == 'remove':
            cur = sorted(M.get(oid, d['name']))
            if not cur: return None
            return ['remove', list(oid), d['name'], list(pick(cur))]
        targets = M.alive(d['target'])
        if not targets: return None
        return ['add', list(oid), d['name'], list(pick(targets))]
    raise ValueError(kind)


MOD_KINDS = ['set', 'set', 'ref', 'link', 'unlink', 'add', 'add', 'remove', 'create', 'delete']
BETWEEN_KINDS = ['set', 'set', 'ref', 'add', 'remove', 'link', 'unlink']


def draw_case(draw, st, size):
    """size: dict(max_ents, max_objs, keylen, max_mods)"""
    spec = draw_spec(draw, st, size['max_ents'])
    M = Mirror(spec)
    pool = draw(st.lists(st.text(st.sampled_from(KEY_ALPHABET), min_size=1, max_size=size['keylen']),
                         min_size=1, max_size=3))    # key parts are mostly drawn from a small pool: shared components
    objs = []
    for ei in range(len(spec['ents'])):
        lst = []
        for _ in range(size['max_objs'] - draw(st.sampled_from([0, 0, 1, 1, 2, size['max_objs']]))):
            new = _draw_new_object(draw, st, M, ei, size['keylen'], False, pool)
            if new is None: continue
            pkparts, vals, refs = new
            oid = (ei, len(lst))
            M.add_object(oid, list(pkparts),
                         dict((n, from_j(M.ad[ei][n]['type'], v)) for n, v in vals.items()),
                         dict((n, tuple(t) if t is not None else None) for n, t in refs.items()))
            lst.append({'pk': pkparts, 'vals': vals, 'refs': refs})
        objs.append(lst)
    # optional to-one links (set after creation, any direction)
    for oid in M.alive():
        for d in M.meta[oid[0]]:
            if d['kind'] == 'one' and d['store'] == 'holder' and not d['req'] and not d['pk']:
                cands = M.alive(d['target'])
                if d['relkind'] == 'o2o': cands = [t for t in cands if M.get(t, d['rev']) is None]
                if cands and draw(st.booleans()):
                    t = cands[draw(st.integers(0, len(cands) - 1))]
                    M.objs[oid]['refs'][d['name']] = t
                    objs[oid[0]][oid[1]]['refs'][d['name']] = list(t)
    m2m = {}
    for k, r in enumerate(spec['rels']):
        if r['kind'] != 'm2m': continue
        A, B = M.alive(r['a']), M.alive(r['b'])
        pairs = []
        if A and B:
            for _ in range(draw(st.integers(0, 4))):
                p = [A[draw(st.integers(0, len(A) - 1))][1], B[draw(st.integers(0, len(B) - 1))][1]]
                if p not in pairs: pairs.append(p)
        for (ai, bi) in pairs: M.pairs[k].add(((r['a'], ai), (r['b'], bi)))
        m2m[str(k)] = pairs
    case = {'spec': spec, 'objs': objs, 'm2m': m2m}

    mods = []
    for _ in range(draw(st.sampled_from([2, 1, 0, 3, 0] + list(range(4, size['max_mods'] + 1))))):
        op = draw_op(draw, st, M, MOD_KINDS, size['keylen'], pool)
        if op is not None and M.apply(op): mods.append(op)
    case['mods'] = mods
    M.fresh = set()
    case['plan'] = plan = draw_plan(draw, st, M)     # 'between' neither creates nor deletes objects
    roots = set()
    for job in plan['jobs']:
        if job[0] in ('obj', 'coll'): roots.add(tuple(job[1]))
        elif job[0] == 'list': roots.update(tuple(x) for x in job[1])
        elif job[0] == 'query': roots.update(M.alive(job[1]))
    between = []
    for _ in range(draw(st.sampled_from([2, 1, 3, 0, 0]))):
        op = draw_op(draw, st, M, BETWEEN_KINDS, size['keylen'], pool, prefer=roots)
        if op is not None and M.apply(op): between.append(op)
    case['between'] = between
    return case


def _draw_names(draw, st, names, nonempty):
    if not names: return None
    sel = [n for n in names if draw(st.booleans())]
    if nonempty and not sel: sel = [names[draw(st.integers(0, len(names) - 1))]]
    return sel


def draw_plan(draw, st, M):
    plan = {'first': draw(st.sampled_from(['bag', 'dict']))}
    only, exclude, bagcfg = {}, {}, {}
    for ei, m in enumerate(M.meta):
        names = [d['name'] for d in m]
        only[str(ei)] = _draw_names(draw, st, names, True)
        exclude[str(ei)] = _draw_names(draw, st, names, True)
        if draw(st.sampled_from([False, False, True])):
            cfg = {'only': _draw_names(draw, st, names, True) if draw(st.booleans()) else None,
                   'exclude': _draw_names(draw, st, names, True) if draw(st.booleans()) else None,
                   'with_collections': draw(st.booleans()), 'with_lazy': draw(st.booleans()),
                   'related_objects': draw(st.booleans())}
            bagcfg[str(ei)] = cfg
    plan['only'], plan['exclude'], plan['bag_cfg'] = only, exclude, bagcfg
    plan['sep'] = draw(st.sampled_from([', ', ' ', ',']))
    alive = M.alive()
    plan['bag_given'] = [list(o) for o in alive if draw(st.booleans())]
    plan['bag_order'] = draw(st.integers(0, 5))
    plan['json_include'] = draw(st.sampled_from(['none', 'none', 'relations', 'all']))
    plan['pickle_where'] = draw(st.sampled_from(['same', 'fresh', 'fresh']))
    plan['touch_all'] = draw(st.sampled_from([True, True, False]))
    lazies = [[list(oid), d['name']] for oid in alive for d in M.meta[oid[0]] if d['kind'] == 'scalar' and d['lazy']]
    plan['touch_lazy'] = [x for x in lazies if draw(st.booleans())]
    jobs = []
    for _ in range(draw(st.integers(1, 4))):
        jk = draw(st.sampled_from(['obj', 'obj', 'list', 'coll', 'coll', 'query', 'query']))
        if jk == 'obj' and alive:
            jobs.append(['obj', list(alive[draw(st.integers(0, len(alive) - 1))])])
        elif jk == 'list' and alive:
            jobs.append(['list', [list(o) for o in alive if draw(st.booleans())]])
        elif jk == 'coll':
            cands = [(oid, d['name']) for oid in alive for d in M.meta[oid[0]] if d['kind'] == 'many']
            if cands:
                oid, n = cands[draw(st.integers(0, len(cands) - 1))]
                jobs.append(['coll', list(oid), n])
        elif jk == 'query':
            ei = draw(st.integers(0, len(M.meta) - 1))
            form = draw(st.sampled_from(['select_slice', 'gen_slice', 'query', 'tuple', 'lazy_limit']))
            jobs.append(['query', ei, form])
    plan['jobs'] = jobs
    plan['preload'] = [list(o) for o in alive if draw(st.sampled_from([False, False, False, True]))]
    plan['sub'] = draw(st.sampled_from([False, False, False, True]))
    return plan
