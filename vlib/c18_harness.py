"""Executes one C18 case script against Pony (file-backed SQLite) and judges it against vlib/c18_model.predict.

The committed state is always read through a separate plain sqlite3 connection (never through Pony).
"""
import os, sys, gc, sqlite3, warnings, itertools

from vlib import c18_model as M

STUBS = os.path.join(os.path.dirname(os.path.abspath(__file__)), 'stubs')
_counter = itertools.count(1)
_env = {}


class HarnessError(Exception):
    pass


def env():
    """import pony and its two web integrations (over the stub flask / bottle packages) once"""
    if _env:
        return _env
    import pony.orm as orm
    from pony.orm import core
    added = STUBS not in sys.path
    if added:
        sys.path.insert(0, STUBS)
    try:
        import flask, bottle
        for mod in (flask, bottle):
            if not os.path.abspath(mod.__file__).startswith(STUBS):
                raise HarnessError('%s is not the stub package: %s' % (mod.__name__, mod.__file__))
        import pony.flask as pony_flask
        from pony.orm.integration import bottle_plugin
    finally:
        if added:
            sys.path.remove(STUBS)

    class A(Exception): pass
    class B(A): pass
    class C(B): pass
    class D(Exception): pass
    class E(D, A): pass
    class K(BaseException): pass
    class PredicateError(Exception):
        """what a badly written allowed_exceptions predicate raises (think AttributeError on e.status)"""
    class HR2(bottle.HTTPResponse): pass
    class HE2(bottle.HTTPError): pass
    cls = {'A': A, 'B': B, 'C': C, 'D': D, 'E': E, 'K': K, 'Exception': Exception, 'BaseException': BaseException,
           'TypeError': TypeError, 'GeneratorExit': GeneratorExit, 'RuntimeError': RuntimeError, 'PE': PredicateError,
           'OrmError': core.OrmError, 'TE': core.TransactionError, 'TIE': core.TransactionIntegrityError,
           'HR': bottle.HTTPResponse, 'HE': bottle.HTTPError, 'HR2': HR2, 'HE2': HE2}
    # the model's class table must agree with the real classes (Python's issubclass is the trusted base)
    for a in cls:
        for b in cls:
            if issubclass(cls[a], cls[b]) != M.is_sub(a, b):
                raise HarnessError('class table mismatch: issubclass(%s, %s)' % (a, b))
    _env.update(orm=orm, core=core, flask=flask, bottle=bottle, pony_flask=pony_flask, bottle_plugin=bottle_plugin,
                cls=cls, names=dict((v, k) for k, v in cls.items()))
    return _env


def _reset_local(core):
    """hygiene between cases; returns True when Pony's thread-local session state was not clean"""
    local = core.local
    dirty = bool(local.db_session is not None or local.db_context_counter or local.db2cache)
    if dirty:
        local.db_context_counter = 0
        local.db_session = None
        for cache in list(local.db2cache.values()):
            try:
                cache.rollback()
            except Exception:
                pass
        local.db2cache.clear()
    return dirty


class _NoFsyncConnection(sqlite3.Connection):
    """same transaction semantics, but no fsync per commit (nothing here has to survive a power failure);
    bind(..., factory=...) reaches sqlite3.connect unchanged"""
    def __init__(self, *args, **kwargs):
        sqlite3.Connection.__init__(self, *args, **kwargs)
        self.execute('PRAGMA synchronous = OFF')


class Obs(object):
    def __init__(self):
        self.executions = 0
        self.exc = None
        self.instances = []
        self.probes = []
        self.views = []
        self.final = None
        self.yields_reached = 0
        self.yield_outcomes = []
        self.leak = False
        self.closed_ok = None
        self.after_session = None
        self.followup_exc = None
        self.unraisable = []
        self.finished = False       # the consumer is done with the session under test


def _session_kwargs(e, opts):
    cls = e['cls']
    kw = {}
    if opts.get('retry'):
        kw['retry'] = opts['retry']
    for flag in ('strict', 'immediate', 'serializable', 'ddl'):
        if opts.get(flag):
            kw[flag] = True
    if opts.get('optimistic') is False:
        kw['optimistic'] = False
    for key, name in (('allowed', 'allowed_exceptions'), ('retry_exc', 'retry_exceptions')):
        spec = opts.get(key)
        if spec is None:
            continue
        classes = tuple(cls[c] for c in spec['classes'])
        if spec['kind'] == 'list':
            kw[name] = list(classes)
        else:
            raises_for = tuple(cls[c] for c in (spec.get('raises_for') or [])) if key == 'allowed' else ()
            kw[name] = _predicate(classes, raises_for, cls['PE'])
    return kw


def _predicate(classes, raises_for, error):
    def predicate(exc):
        if isinstance(exc, raises_for):
            raise error('predicate cannot classify %s' % type(exc).__name__)
        return isinstance(exc, classes)
    return predicate


def execute(case, workdir):
    e = env()
    orm, core, cls = e['orm'], e['core'], e['cls']
    _reset_local(core)
    path = os.path.join(workdir, 'c18_%d_%d.sqlite' % (os.getpid(), next(_counter)))
    db = orm.Database()
    Item = type('Item', (db.Entity,), {'_table_': 'item', 'id': orm.PrimaryKey(int), 'v': orm.Required(int)})
    db.bind('sqlite', path, create_db=True, factory=_NoFsyncConnection)
    db.generate_mapping(create_tables=True)
    ro = sqlite3.connect(path, timeout=0.5, isolation_level=None, factory=_NoFsyncConnection)
    obs = Obs()
    live = []
    try:
        rows = [list(r) for r in (case.get('initial') or [])] + [M.FIXED_ROW]
        ro.execute('begin')
        ro.executemany('insert into item (id, v) values (?, ?)', rows)
        ro.execute('commit')

        def committed_rows():
            return [list(r) for r in ro.execute('select id, v from item order by id').fetchall()]

        def probe(label):
            obs.probes.append([label, committed_rows()])

        def make(name):
            exc = cls[name]('c18')
            obs.instances.append(exc)
            return exc

        def do_step(step, depth):
            """every step except 'yield' (plain function code)"""
            op = step[0]
            if op == 'set':
                obj = Item.get(id=step[1])
                if obj is None:
                    Item(id=step[1], v=step[2])
                else:
                    obj.v = step[2]
            elif op == 'del':
                obj = Item.get(id=step[1])
                if obj is not None:
                    obj.delete()
            elif op == 'flush':
                orm.flush()
            elif op == 'commit':
                orm.commit()
                probe('after_commit')
            elif op == 'rollback':
                orm.rollback()
            elif op == 'dup':
                Item(id=M.FIXED_ROW[0], v=1)
            elif op == 'raise':
                raise make(step[1])
            elif op == 'nest':
                spec, inner, catch = step[1], step[2], tuple(cls[c] for c in step[3])
                kw = _session_kwargs(e, spec['opts'])

                def inner_body(inner=inner, depth=depth):
                    run_sync(inner, depth + 1)
                try:
                    if spec['form'] == 'decorator':
                        session = orm.db_session(**kw) if kw else orm.db_session
                        session(inner_body)()
                    else:
                        with (orm.db_session(**kw) if kw else orm.db_session):
                            inner_body()
                except catch:
                    pass
                probe('after_nest')
            else:
                raise HarnessError('unknown step %r' % (op,))

        def run_sync(block, depth):
            for step in block:
                if step[0] == 'yield':
                    raise HarnessError('yield in a plain function body')
                do_step(step, depth)

        # The generator / coroutine bodies are written out directly (no `yield from` / single outer `await`
        # delegation: PEP 380 delegation would close() the inner generator and re-raise GeneratorExit in the outer
        # one, so a body that intercepts GeneratorExit could never be expressed).
        def gen_body():
            for step in start_attempt():
                if step[0] == 'yield':
                    probe('yield')
                    catch = tuple(cls[c] for c in step[1])
                    obs.yields_reached += 1
                    try:
                        yield obs.yields_reached
                    except catch:
                        pass
                    if obs.finished or core.local.db_session is None:
                        return      # being finalised after its session is over (garbage collection): nothing to do
                else:
                    do_step(step, 1)

        async def coro_body():
            for step in start_attempt():
                if step[0] == 'yield':
                    probe('yield')
                    catch = tuple(cls[c] for c in step[1])
                    obs.yields_reached += 1
                    try:
                        await _Suspend(obs.yields_reached)
                    except catch:
                        pass
                    if obs.finished or core.local.db_session is None:
                        return
                else:
                    do_step(step, 1)

        attempts = case['attempts']

        def start_attempt():
            obs.executions += 1
            probe('start')
            obs.views.append(sorted(list(r) for r in db.select('select id, v from item order by id')))
            return attempts[min(obs.executions - 1, len(attempts) - 1)]

        def body():
            run_sync(start_attempt(), 1)

        form = case['form']
        opts = case.get('opts') or {}
        with warnings.catch_warnings():
            warnings.simplefilter('ignore')
            try:
                if form == 'decorator':
                    kw = _session_kwargs(e, opts)
                    session = orm.db_session(**kw) if kw else orm.db_session
                    session(body)()
                elif form == 'context':
                    kw = _session_kwargs(e, opts)
                    with (orm.db_session(**kw) if kw else orm.db_session):
                        body()
                elif form == 'flask':
                    app = e['flask'].Flask('c18')
                    e['pony_flask'].Pony(app)
                    app.add_url_rule('/', view_func=body)
                    app.handle_request('/')
                elif form == 'bottle':
                    app = e['bottle'].Bottle()
                    app.install(e['bottle_plugin'].PonyPlugin())
                    app.route('/', callback=body)
                    response = app.handle('/')
                    if isinstance(response, e['bottle'].HTTPResponse):
                        obs.exc = response           # left the session as an exception, Bottle made it the response
                elif form == 'generator':
                    _drive_generator(e, case, opts, obs, coro_body if case.get('async') else gen_body, make, live)
                else:
                    raise HarnessError('unknown form %r' % (form,))
            except HarnessError:
                raise
            except BaseException as exc:
                if isinstance(exc, (KeyboardInterrupt, SystemExit, MemoryError)):
                    raise
                obs.exc = exc
        obs.finished = True
        for g in live:
            try:
                g.close()
            except BaseException:
                pass
        del live[:]
        if case['form'] == 'generator':
            gc.collect()      # finalise abandoned body generators now, not in the middle of a later session
        obs.after_session = committed_rows()
        # "nothing is committed" must stay true: a following db_session must make durable exactly its own writes (R12)
        try:
            with orm.db_session:
                for step in (case.get('after') or []):
                    obj = Item.get(id=step[1])
                    if obj is None:
                        Item(id=step[1], v=step[2])
                    else:
                        obj.v = step[2]
        except Exception as exc:
            obs.followup_exc = exc
        obs.leak = _reset_local(core)
        obs.final = committed_rows()
        return obs
    finally:
        for g in live:
            try:
                g.close()
            except BaseException:
                pass
        _reset_local(core)
        try:
            db.disconnect()
        except Exception:
            pass
        ro.close()
        for suffix in ('', '-journal', '-wal', '-shm'):
            if os.path.exists(path + suffix):
                os.remove(path + suffix)


class _Suspend(object):
    """awaitable that suspends the coroutine once, handing `token` to whoever drives it"""
    def __init__(self, token):
        self.token = token

    def __await__(self):
        return (yield self.token)


def _drive_generator(e, case, opts, obs, body, make, live):
    orm, core = e['orm'], e['core']
    kw = _session_kwargs(e, opts)
    session = orm.db_session(**kw) if kw else orm.db_session
    wrapped = session(body)          # R8 refusals surface here
    g = wrapped()
    live.append(g)
    drive = list(case.get('drive') or [])
    pos = 0

    def resume(fn, *args):
        """one resumption; records how the suspension that follows (if any) went"""
        try:
            tok = fn(*args)
        except BaseException as exc:
            if obs.yields_reached > len(obs.yield_outcomes):
                # the body reached a new yield but the consumer got an exception instead of the value
                obs.yield_outcomes.append('TE' if isinstance(exc, core.TransactionError) and exc not in obs.instances
                                          else 'other')
            raise
        obs.yield_outcomes.append('ok')
        return tok

    try:
        resume(next, g)
        while True:
            action = drive[pos] if pos < len(drive) else ['next']
            pos += 1
            if pos > 64:
                raise HarnessError('driver loop')
            if action[0] == 'next':
                resume(next, g)
            elif action[0] == 'send':
                resume(g.send, action[1])
            elif action[0] == 'throw':
                resume(g.throw, make(action[1]))
            elif action[0] == 'close':
                g.close()
                obs.closed_ok = True
                return
            elif action[0] == 'abandon':
                # the consumer just drops the generator (break out of a for loop): finalisation closes it and
                # whatever that raises is reported to sys.unraisablehook, not to the caller
                live.remove(g)
                hook = sys.unraisablehook
                sys.unraisablehook = lambda info: obs.unraisable.append(info.exc_value)
                try:
                    del g
                    gc.collect()
                finally:
                    sys.unraisablehook = hook
                return
            else:
                raise HarnessError('unknown action %r' % (action,))
    except StopIteration:
        return


def exc_name(e, exc):
    if exc is None:
        return None
    return e['names'].get(type(exc), type(exc).__name__)


def judge(case, exp, obs):
    """returns None or the violation message"""
    e = env()
    got_cls = exc_name(e, obs.exc)
    detail = ''
    if obs.exc is not None:
        detail = ' (%s: %s)' % (type(obs.exc).__name__, str(obs.exc)[:200])
    if exp['reject']:
        if got_cls != exp['reject'] or obs.executions != 0 or obs.after_session != exp['finals'][0] \
                or obs.final != exp['finals_after'][0]:
            return ('session must be refused with %s before the body runs; got exception %s%s, %d body executions, '
                    'final rows %r' % (exp['reject'], got_cls, detail, obs.executions, obs.final))
        return None
    if obs.executions != exp['executions']:
        return ('body executed %d times, expected %d (retried %d); exception %s%s; final rows %r expected %r'
                % (obs.executions, exp['executions'], exp['retried'], got_cls, detail, obs.final, exp['finals']))
    want = exp['exc']
    for alt in exp.get('exc_alternatives') or ():
        if alt['cls'] == got_cls:
            want = alt
    if (want['cls'] if want else None) != got_cls:
        return ('exception leaving the session: got %s%s, expected %s [outcome %s]; final rows %r expected %r'
                % (got_cls, detail, want['cls'] if want else None, exp['outcome'], obs.final, exp['finals']))
    if want and want['origin'] in ('body', 'thrown'):
        if want['index'] >= len(obs.instances) or obs.exc is not obs.instances[want['index']]:
            return ('exception leaving the session is not the instance the body raised (instance #%d of %d)'
                    % (want['index'], len(obs.instances)))
    for i, (x, y) in enumerate(zip(exp['views'], obs.views)):
        if x != y:
            return ('attempt %d does not start from the committed state: the body sees %r, committed state is %r'
                    % (i + 1, y, x))
    for i, (x, y) in enumerate(zip(exp['probes'], obs.probes)):
        if x[0] != y[0]:
            return 'control flow diverged at probe %d: model at %r, pony at %r' % (i, x[0], y[0])
        if x[1] != y[1]:
            return ('committed rows at probe %d (%s): %r, expected %r [outcome %s]'
                    % (i, x[0], y[1], x[1], exp['outcome']))
    if len(exp['probes']) != len(obs.probes):
        return ('control flow diverged: %d probes observed, %d expected (%r vs %r)'
                % (len(obs.probes), len(exp['probes']), [p[0] for p in obs.probes], [p[0] for p in exp['probes']]))
    if obs.after_session not in exp['finals']:
        return ('final committed rows %r, expected %s [outcome %s, exception %s, %d executions]'
                % (obs.after_session, ' or '.join(repr(f) for f in exp['finals']), exp['outcome'], got_cls,
                   obs.executions))
    want_final = exp['finals_after'][exp['finals'].index(obs.after_session)]
    if obs.final != want_final:
        return ('the next db_session did not commit exactly its own writes (leftovers of the session under test became '
                'durable, or its own work was lost): rows %r right after the session, %r after the following session '
                '(writes %r), expected %r [outcome %s]'
                % (obs.after_session, obs.final, case.get('after') or [], want_final, exp['outcome']))
    if obs.followup_exc is not None:
        return ('the session did not end cleanly: a following empty db_session raised %s: %s [outcome %s]'
                % (type(obs.followup_exc).__name__, str(obs.followup_exc)[:200], exp['outcome']))
    if exp['outcome'] in ('closed', 'closed_after_catch') and exp.get('closing') == 'close' and not obs.closed_ok:
        return 'close() of the suspended generator session did not return normally'
    return None


def run_case(case, workdir):
    """-> (verdict, exp, obs, message)   verdict in 'ok' | 'violation' | 'inconclusive'"""
    obs = execute(case, workdir)
    try:
        exp = M.predict(case, obs.yield_outcomes)
    except M.Inconclusive as inc:
        return 'inconclusive', None, obs, str(inc)
    msg = judge(case, exp, obs)
    return ('violation' if msg else 'ok'), exp, obs, msg
