"""C29 hypothesis strategies: JSON documents (depth <= 3) with awkward keys, array rows, query operations."""
from hypothesis import strategies as st

# keys: plain identifiers, keys that need quoting in a JSON path (spaces, dots, quotes, brackets, unicode,
# digit-only, empty), and names that mean something to a path / array-literal lexer
PLAIN_KEYS = ['a', 'b', 'c', 'k', 'name', 'A', '_x', 'x1', 'aé', 'null', 'NULL', 'true']
QUOTED_KEYS = ['a b', ' ', ' a', 'a ', 'a.b', '.', 'a[0]', '[0]', '[', ']', "a'b", "'", 'a"b', '"', 'é',
               'ключ', '日本', '\U0001F600', '0', '1', '-1', '00', '10', '', '$', '$.a', '#',
               'a,b', '{a}', '}', 'a:b', 'a%b', '%s', 'a?b', 'a-b', 'a/b', '*', '[*]', 'a\\b', '\\', 'a\nb', 'a\tb']
KEY_ALPHABET = list('ab0 ."\'[]{},:\\$%é日')

key_st = st.one_of(st.sampled_from(PLAIN_KEYS), st.sampled_from(QUOTED_KEYS), st.sampled_from(QUOTED_KEYS),
                   st.text(KEY_ALPHABET, max_size=3))

INTS = [0, 1, -1, 2, 3, 10, -7, 255, 2 ** 31, -2 ** 31 - 1, 2 ** 53, -2 ** 53]
# floats that are exactly representable with few bits (so that text -> double conversions cannot round)
FLOATS = [0.0, -0.0, 0.5, -0.5, 1.0, 1.5, 2.0, -2.25, 2.5, 3.0, 10.0, 100.125, 1e10, 2.0 ** 40 + 0.5, -1.0]
STRS = ['', 'a', 'b', 'abc', 'B', '0', '1', '10', '1.5', 'null', 'false', 'true', 'True', '[]', '{}', '""', ' ',
        "a'b", 'a"b', 'é', '日本', 'a\\b', '%s']

int_st = st.one_of(st.sampled_from(INTS), st.integers(-20, 20))
float_st = st.one_of(st.sampled_from(FLOATS), st.integers(-64, 64).map(lambda k: k / 8.0))
str_st = st.one_of(st.sampled_from(STRS), st.text(list('ab01 é"\'[]\\'), max_size=3))
scalar_st = st.one_of(st.booleans(), int_st, float_st, str_st)
leaf_st = st.one_of(st.none(), scalar_st)


def node_st(depth, keys):
    if depth <= 0:
        return leaf_st
    sub = node_st(depth - 1, keys)
    return st.one_of(leaf_st,
                     st.lists(sub, max_size=3),
                     st.dictionaries(st.sampled_from(keys), sub, max_size=3),
                     leaf_st,
                     st.dictionaries(st.sampled_from(keys), sub, min_size=1, max_size=3))


def doc_st(keys):
    sub = node_st(2, keys)
    return st.one_of(st.dictionaries(st.sampled_from(keys), sub, min_size=1, max_size=4),
                     st.dictionaries(st.sampled_from(keys), sub, min_size=2, max_size=4),
                     st.lists(sub, min_size=1, max_size=4),
                     st.dictionaries(st.sampled_from(keys), sub, max_size=1),
                     st.lists(sub, max_size=1))


@st.composite
def perturbed(draw, doc, keys):
    """a variant of doc that keeps most of its shape (so that one path resolves in several rows)"""
    def rec(v, depth):
        r = draw(st.integers(0, 9))
        if r == 0:
            return draw(leaf_st)
        if r == 1:
            return draw(node_st(max(0, 4 - depth), keys))     # depth = nesting level of v (top level = 1)
        if isinstance(v, dict):
            out = {}
            for k in sorted(v):
                if draw(st.integers(0, 7)) == 0:
                    continue
                out[k] = rec(v[k], depth + 1)
            return out
        if isinstance(v, list):
            out = [rec(x, depth + 1) for x in v]
            if out and draw(st.integers(0, 5)) == 0:
                out.pop()
            return out
        if draw(st.integers(0, 2)) == 0:
            return draw(leaf_st)
        return v
    if isinstance(doc, dict):
        return dict((k, rec(doc[k], 2)) for k in sorted(doc) if draw(st.integers(0, 9)) != 0)
    return [rec(x, 2) for x in doc]


@st.composite
def json_path(draw, doc, keys):
    """walk a real path of doc, then sometimes bend it (missing key, out of range, wrong container, negative index)"""
    path = []
    v = doc
    maxdepth = draw(st.sampled_from([2, 1, 3, 0, 1, 2, 3, 2]))
    while len(path) < maxdepth:
        deeper = len(path) + 1 < maxdepth and draw(st.integers(0, 3)) != 0     # prefer a child that can be descended
        if isinstance(v, dict) and v:
            cand = sorted(k for k in v if isinstance(v[k], (list, dict)) and v[k]) if deeper else []
            k = draw(st.sampled_from(cand or sorted(v)))
            path.append(k)
            v = v[k]
        elif isinstance(v, list) and v:
            cand = [i for i, x in enumerate(v) if isinstance(x, (list, dict)) and x] if deeper else []
            i = draw(st.sampled_from(cand)) if cand else draw(st.integers(0, len(v) - 1))
            neg = draw(st.integers(0, 3)) == 0
            path.append(i - len(v) if neg else i)
            v = v[i]
        else:
            break
    bend = draw(st.integers(0, 9))
    if bend == 0 and path:
        path[-1] = draw(st.one_of(st.sampled_from(keys), st.integers(-4, 4)))
    elif bend == 1 and len(path) < 3:
        path.append(draw(st.one_of(st.sampled_from(keys), st.integers(-4, 4), key_st)))
    elif bend == 2 and not path:
        path.append(draw(st.one_of(st.sampled_from(keys), st.integers(-4, 4))))
    mode_bias = draw(st.sampled_from(['c', 'c', 'p', 'mix']))
    out = []
    for k in path:
        m = mode_bias if mode_bias != 'mix' else draw(st.sampled_from(['c', 'p']))
        out.append({'k': k, 'm': m})
    return out


CMPS = ['==', '!=', '<', '>', '<=', '>=']


@st.composite
def near_value(draw, v):
    """a comparison operand that is likely to be decisive for the stored value v (sometimes of another type)"""
    if draw(st.integers(0, 4)) == 0:
        return draw(scalar_st)
    if isinstance(v, bool):
        return draw(st.one_of(st.booleans(), st.sampled_from([0, 1])))
    if isinstance(v, int):
        return draw(st.one_of(st.sampled_from([v, v, v - 1, v + 1, float(v), v + 0.5]), int_st))
    if isinstance(v, float):
        return draw(st.one_of(st.sampled_from([v, v, v - 0.5, v + 0.25, int(v), int(v) + 1]), float_st))
    if isinstance(v, str):
        return draw(st.one_of(st.sampled_from([v, v, v + 'a', v[:-1], v.upper()]), str_st))
    return draw(scalar_st)


@st.composite
def json_op(draw, target, path, keys, want=None):
    """one operation on `path`, weighted by what the value at the end of the path is in the target document;
    want = 'cond' (a condition), 'proj' (a projection) or None (either)"""
    from vlib.c29_model import traverse, MISSING
    v = traverse(target, [el['k'] for el in path])
    vm = draw(st.sampled_from(['c', 'c', 'p']))
    if isinstance(v, list):
        ts = ['in', 'len', 'proj', 'in', 'lencmp', 'truth', 'isnone', 'len']
    elif isinstance(v, dict):
        ts = ['in', 'truth', 'proj', 'in', 'len', 'isnone']
    elif v is MISSING or v is None:
        ts = ['truth', 'cmp', 'proj', 'isnone', 'in', 'len']
    else:
        ts = ['cmp', 'truth', 'proj', 'cmp', 'cmp', 'truth', 'isnone']
    if want == 'cond':
        ts = [t for t in ts if t not in ('proj', 'len')]
    elif want == 'proj':
        ts = ['proj', 'proj', 'proj', 'len'] if isinstance(v, list) else ['proj']
    t = draw(st.sampled_from(ts))
    if t in ('cmp', 'isnone') and not path:      # "Cannot compare whole JSON value": only sub-items are comparable
        path = [{'k': draw(st.one_of(st.sampled_from(keys), st.integers(-2, 2))), 'm': vm}]
        v = traverse(target, [path[0]['k']])
    op = {'t': t, 'path': path}
    if t == 'cmp':
        op.update(cmp=draw(st.sampled_from(CMPS)), val=draw(near_value(v)), vm=vm, swap=draw(st.integers(0, 4)) == 0)
    elif t == 'lencmp':
        n = len(v) if isinstance(v, list) else 0
        op.update(cmp=draw(st.sampled_from(CMPS)), val=draw(st.sampled_from([n, n, 0, n + 1, max(n - 1, 0)])), vm=vm,
                  swap=draw(st.integers(0, 4)) == 0)
    elif t == 'in':
        if isinstance(v, dict) and v:
            pool = st.one_of(st.sampled_from(sorted(v)), st.sampled_from(keys), key_st)
        elif isinstance(v, list) and v:
            scal = [x for x in v if not isinstance(x, (list, dict)) and x is not None]
            pool = st.one_of(st.sampled_from(scal), scalar_st) if scal else scalar_st
        else:
            pool = st.one_of(st.sampled_from(keys), scalar_st)
        key = draw(pool)
        km = 'p' if not isinstance(key, str) else vm     # `<non-string literal> in json` is refused by design
        op.update(key=key, km=km, neg=draw(st.booleans()))
    elif t in ('truth', 'isnone'):
        op.update(neg=draw(st.booleans()))
    return op


def _addressable(k):
    return not any(ch in '"\\' or ord(ch) < 0x20 for ch in k)


@st.composite
def json_docs(draw, addressable=False):
    ks = key_st.filter(_addressable) if addressable else key_st
    keys = draw(st.lists(ks, min_size=2, max_size=5, unique=True))
    first = draw(doc_st(keys))
    docs = [first]
    for _ in range(draw(st.integers(0, 3))):
        docs.append(draw(st.one_of(perturbed(first, keys), doc_st(keys))))
    return keys, docs


@st.composite
def json_case(draw):
    keys, docs = draw(json_docs())
    target = draw(st.sampled_from(docs))
    path = draw(json_path(target, keys))
    op = draw(json_op(target, path, keys))
    return {'kind': 'json', 'attr': draw(st.sampled_from(['j', 'r', 'r'])), 'docs': docs, 'op': op}


@st.composite
def sibling_path(draw, target, path, keys):
    """a copy of path that keeps the query variables (mode 'p' elements with their 'v') and differs in ONE literal
    component: that element is replaced by a sibling key / index (or a missing one) and the tail is walked again"""
    from vlib.c29_model import traverse, MISSING
    consts = [i for i, el in enumerate(path) if el['m'] == 'c']
    if not consts:
        return None
    i = draw(st.sampled_from(consts))
    parent = traverse(target, [el['k'] for el in path[:i]])
    old = path[i]['k']
    if isinstance(parent, dict):
        cand = [k for k in sorted(parent) if k != old]
    elif isinstance(parent, list):
        cand = [k for k in range(len(parent)) if k != old and k - len(parent) != old]
    else:
        cand = []
    if cand and draw(st.integers(0, 5)) != 0:
        new = draw(st.sampled_from(cand))
    else:
        new = draw(st.one_of(st.sampled_from([k for k in keys if k != old] or ['zz']), st.integers(0, 3)))
        if new == old:
            return None
    out = [dict(el) for el in path[:i]] + [{'k': new, 'm': 'c'}]
    keep_tail = draw(st.integers(0, 2)) != 0
    if keep_tail:
        out += [dict(el) for el in path[i + 1:]]          # the same (possibly parameterised) tail under the other branch
    else:
        v = traverse(target, [el['k'] for el in out])
        while len(out) < 3 and isinstance(v, (list, dict)) and v and draw(st.booleans()):
            k = draw(st.sampled_from(sorted(v))) if isinstance(v, dict) else draw(st.integers(0, len(v) - 1))
            out.append({'k': k, 'm': 'c'})
            v = v[k]
    return out


@st.composite
def json_multi_case(draw):
    """two (sometimes three) path operations over the same attribute in ONE query: `(c1) and (c2)`, `(c1) or (c2)` or a
    tuple projection.  Most often the paths use the same query variable(s) and differ only in a literal component;
    also: all-literal paths, and independent paths with their own variables."""
    # mostly keys that every path syntax can address: the open finding about keys that need JSON escaping would
    # otherwise hide many of these cases behind its exclusion
    keys, docs = draw(json_docs(addressable=draw(st.integers(0, 3)) != 0))
    target = draw(st.sampled_from(docs))
    shape = draw(st.sampled_from(['and', 'tuple', 'or', 'and', 'tuple']))
    want = 'proj' if shape == 'tuple' else 'cond'
    nparts = draw(st.sampled_from([2, 2, 2, 3]))
    # first path: at least one element, usually with a variable in it
    path1 = draw(json_path(target, keys))
    if not path1:
        path1 = [{'k': draw(st.one_of(st.sampled_from(keys), st.integers(-2, 2))), 'm': 'c'}]
    style = draw(st.sampled_from(['shared', 'shared', 'shared', 'literal', 'free']))
    if style == 'literal':
        for el in path1: el['m'] = 'c'
    elif style == 'shared':
        # exactly the shape that needs care: >= 1 variable and >= 1 literal in the same path
        if len(path1) == 1:
            path1 = path1 + [{'k': draw(st.one_of(st.sampled_from(keys), st.integers(0, 2))), 'm': 'c'}]
        pi = draw(st.integers(0, len(path1) - 1))
        for i, el in enumerate(path1):
            if i == pi: el['m'] = 'p'
        if all(el['m'] == 'p' for el in path1):
            ci = draw(st.sampled_from([i for i in range(len(path1)) if i != pi]))
            path1[ci]['m'] = 'c'
    nvar = 0
    for el in path1:
        if el['m'] == 'p':
            el['v'] = nvar
            nvar += 1
    paths = [path1]
    shared = False
    while len(paths) < nparts:
        sib = draw(sibling_path(target, draw(st.sampled_from(paths)), keys)) if style != 'free' or draw(st.booleans()) else None
        if sib is None:
            sib = draw(json_path(draw(st.sampled_from(docs)), keys))       # an independent path with its own variables
            for el in sib:
                if el['m'] == 'p':
                    el['v'] = nvar
                    nvar += 1
        elif any(el['m'] == 'p' for el in sib):
            shared = True
        paths.append(sib)
    parts = [draw(json_op(target, p, keys, want)) for p in paths]
    # json_op may have put a fresh element on an empty path: give it a variable number of its own
    for part in parts:
        for el in part['path']:
            if el['m'] == 'p' and 'v' not in el:
                el['v'] = nvar
                nvar += 1
    return {'kind': 'json', 'attr': draw(st.sampled_from(['j', 'r', 'r'])), 'docs': docs,
            'op': {'t': 'multi', 'shape': shape, 'parts': parts}}


# ------------------------------------------------------------------------------------------------
ARR_ITEMS = {
    'ia': st.one_of(st.integers(-5, 9), st.sampled_from([0, 1, 2 ** 31, -2 ** 40])),
    'ra': st.integers(-5, 9),
    'sa': st.one_of(st.sampled_from(['', 'a', 'b', 'ab', 'A', ' ', "a'b", 'a"b', 'é', '日', '1', 'null', '[', ',', 'a\\b', '%s']),
                    st.text(list('ab "\',\\[]'), max_size=2)),
    'fa': st.one_of(st.sampled_from(FLOATS), st.integers(-16, 16).map(lambda k: k / 4.0)),
}


@st.composite
def array_row(draw):
    return {'ia': draw(st.lists(ARR_ITEMS['ia'], max_size=5)),
            'sa': draw(st.lists(ARR_ITEMS['sa'], max_size=4)),
            'fa': draw(st.lists(ARR_ITEMS['fa'], max_size=4)),
            'ra': draw(st.lists(ARR_ITEMS['ra'], min_size=1, max_size=5)),
            'n': draw(st.integers(-7, 7)), 'm': draw(st.integers(-7, 7))}


@st.composite
def bound_spec(draw, n, col, allow_omit):
    modes = ['c', 'c', 'p', 'col'] + (['omit', 'omit'] if allow_omit else [])
    m = draw(st.sampled_from(modes))
    if m == 'omit':
        return {'m': 'omit'}
    if m == 'col':
        return {'m': 'col', 'col': col}
    return {'m': m, 'v': draw(st.one_of(st.integers(-n - 2, n + 2), st.integers(-n, max(n - 1, 0))))}


@st.composite
def subset_items(draw, a, item):
    """the list operand of `[..] in array`: the operation has SET semantics, so lists with repeated values, lists longer
    than the stored array, permutations and supersets matter as much as short lists"""
    shape = draw(st.sampled_from(['members', 'short', 'dup', 'long', 'members', 'dup']))
    if shape == 'short' or not a:
        return draw(st.lists(item, max_size=3 if shape == 'short' else 6))
    if shape == 'members':          # only values that are in the array, any length up to a few more than it has
        return draw(st.lists(st.sampled_from(a), max_size=len(a) + 3))
    if shape == 'dup':              # every value of the array in some order, some of them repeated, rarely a stranger
        out = draw(st.permutations(a))
        out = list(out) + draw(st.lists(st.sampled_from(a), max_size=3))
        if draw(st.integers(0, 5)) == 0:
            out.insert(draw(st.integers(0, len(out))), draw(item))
        return out
    return draw(st.lists(item, max_size=len(a) + 3))


@st.composite
def array_case(draw):
    rows = draw(st.lists(array_row(), min_size=1, max_size=3))
    attr = draw(st.sampled_from(['ia', 'sa', 'fa', 'ra']))
    t = draw(st.sampled_from(['index', 'index', 'indexcmp', 'slice', 'slice', 'slice', 'contains', 'contains',
                              'subset', 'subset', 'len', 'lencmp', 'truth']))
    target = draw(st.sampled_from(rows))
    a = target[attr]
    op = {'t': t, 'attr': attr}
    item = st.one_of(st.sampled_from(a), ARR_ITEMS[attr]) if a else ARR_ITEMS[attr]
    mode = draw(st.sampled_from(['c', 'c', 'p']))
    if t in ('index', 'indexcmp'):
        op['i'] = draw(bound_spec(len(a), 'n', False))
        if t == 'indexcmp':
            op.update(cmp=draw(st.sampled_from(CMPS)), val=draw(item), vm=mode)
    elif t == 'slice':
        op['i'] = draw(bound_spec(len(a), 'n', True))
        op['j'] = draw(bound_spec(len(a), 'm', True))
    elif t == 'contains':
        op.update(item=draw(item), im=mode, neg=draw(st.booleans()))
    elif t == 'subset':
        op.update(items=draw(subset_items(a, item)), im=mode, neg=draw(st.booleans()))
    elif t == 'lencmp':
        op.update(cmp=draw(st.sampled_from(CMPS)), val=draw(st.sampled_from([len(a), len(a), 0, len(a) + 1])), vm=mode)
    elif t == 'truth':
        op.update(neg=draw(st.booleans()))
    return {'kind': 'array', 'rows': rows, 'op': op}


pg_keys_st = st.lists(st.one_of(key_st, key_st, st.integers(-3, 12)), min_size=1, max_size=4)
